#!/usr/bin/env python3
"""Translator: the binary coders of cmdline/stream.c used by the content file -> Coq (Gen/VarintProgs.v):
sputb32, sputb64, sgetb32, sgetb64, sputble32, sgetble32, and the pure length handling of sputbs / sgetbs.
The stream (buffer refill, file, CRC) stays modelled: a read stream is the byte list still to come, sgetc takes its head
(EOF on the empty list), sread(f, buf, n) is Varint.take n, swrite appends.

Read from the source on every run (expressions through the C-subset parser of hashc.py / crcc.py):
  sputbW    b = <e>;  value >>= <K>;  if (value) { buf[i++] = b; goto loop; }  buf[i++] = <e>;  return swrite(buf, i, s);
            -> t_putbW_loop with one `let` per statement; the iteration bound is ceil(W / K) from the parameter type and K
  sgetbW    v = 0; s = 0; loop: c = sgetc(f); if (c == EOF) return -1; b = (unsigned char)c;
            if (<test> == 0) { v |= <e>; s += <K>; if (s >= <L>) return -1; goto loop; }  v |= <e>; *value = v; return 0;
            -> t_getbW_loop: `return -1` after the EOF test is Eof, any other `return -1` is Bad, `return 0` is Ok (v, rest);
            b and s are unsigned char (w8), v is uintW_t
  sputble32 buf[k] = <e>; (k = 0..3) return swrite(buf, 4, s);
  sgetble32 if (sread(f, buf, 4) != 0) return -1;  *value = <e>;  return 0;
  sputbs    size_t len = strlen(str); if (sputb32(len, f) != 0) return -1; return swrite(str, len, f);       (frame only)
  sgetbs    if (sgetb32(f, &len) < 0) return -1; if (<len >= (uint32_t)size>) return -1; str[len] = 0; return sread(f, str, (int)len);
            the comparison is read as tokens and must be exactly `len >= (uint32_t)size`
Error blocks may carry the LCOV markers (comments).  Anything else: `UNSUPPORTED <what>`, exit 1, output replaced by a stub.

usage: varintc.py <snapshot dir> <output .v>"""
import re, sys, os
sys.path.insert(0, os.path.dirname(os.path.abspath(__file__)))
from hashc import Unsupported, strip_comments, tokenize, function_body, lets
from crcc import PX


def body_of(src, ret, name, params, what):
    return function_body(src, r'\b%s\s+%s\s*\(\s*%s\s*\)\s*\{' % (ret, name, params), what)


def sputb(src, W):
    what = 'sputb%d' % W
    body = body_of(src, 'int', what, r'uint%d_t\s+value\s*,\s*STREAM\s*\*\s*s' % W, what)
    p = PX(tokenize(body), W, ['value', 'b'], what, narrow={'b': 8})
    p.expect('unsigned char b ; unsigned char buf [ 16 ] ; unsigned i ; i = 0 ; loop :')
    st = [p.statement(), p.statement()]
    if [v for v, _ in st] != ['b', 'value'] or not st[1][1].startswith('(N.shiftr value '):
        raise Unsupported('%s: loop head must be `b = e; value >>= K;`' % what)
    k = int(st[1][1][len('(N.shiftr value '):-1])
    if k < 1 or k > 8:
        raise Unsupported('%s: shift step %d' % (what, k))
    p.expect('if ( value ) { buf [ i ++ ] = b ; goto loop ; }')
    p.expect('buf [ i ++ ] =')
    last = p.expr()
    p.expect('; return swrite ( buf , i , s ) ;')
    if p.peek()[0] != 'eof':
        raise Unsupported('%s: trailing tokens' % what)
    fuel = (W + k - 1) // k
    if fuel > 16:
        raise Unsupported('%s: %d bytes do not fit buf[16]' % (what, fuel))
    return '''(* loop: b = ...; value >>= %d; if (value) { buf[i++] = b; goto loop; } buf[i++] = ...; return swrite(buf, i, s);
   at most ceil(%d / %d) = %d iterations *)
Fixpoint t_putb%d_loop (fuel : nat) (value : N) : list N :=
  match fuel with
  | O => []
  | S f =>
%s    if negb (value =? 0) then b :: t_putb%d_loop f value else [(w8 %s)]
  end.
Definition t_sputb%d (value : N) : list N := t_putb%d_loop %d (w%d value).''' % (k, W, k, fuel, W, lets(st, '    '), W, last, W, W, fuel, W)


def sgetb(src, W):
    what = 'sgetb%d' % W
    body = body_of(src, 'int', what, r'STREAM\s*\*\s*f\s*,\s*uint%d_t\s*\*\s*value' % W, what)
    p = PX(tokenize(body), W, ['v', 'b', 's', 'c'], what, narrow={'b': 8, 's': 8})
    p.expect('uint%d_t v ; unsigned char b ; unsigned char s ; int c ; v = 0 ; s = 0 ; loop :' % W)
    p.expect('c = sgetc ( f ) ; if ( c == EOF ) { return - 1 ; }')
    sb = p.statement()
    if sb[0] != 'b':
        raise Unsupported('%s: expected `b = (unsigned char)c;`' % what)
    p.expect('if ( (')
    test = p.expr()
    p.expect(') == 0 ) {')
    cont = p.statements_until(lambda q: q.at('id', 'if'))
    if [v for v, _ in cont] != ['v', 's']:
        raise Unsupported('%s: continuation branch must be `v |= e; s += K;`' % what)
    p.expect('if ( s >=')
    lim = p.eat('num')[1]
    p.expect(') { return - 1 ; } goto loop ; }')
    fin = p.statements_until(lambda q: q.at('op', '*'))
    if [v for v, _ in fin] != ['v']:
        raise Unsupported('%s: final branch must be `v |= e;`' % what)
    p.expect('* value = v ; return 0 ;')
    if p.peek()[0] != 'eof':
        raise Unsupported('%s: trailing tokens' % what)
    # iteration bound: s grows by K from 0 and the loop is left when s >= lim
    mk = re.match(r'\(w8 \(add%d s (\d+)\)\)$' % W, cont[1][1])
    if not mk:
        raise Unsupported('%s: `s += K` expected, got %s' % (what, cont[1][1]))
    k = int(mk.group(1))
    if k < 1 or lim < 1 or lim > 255 - k:
        raise Unsupported('%s: step %d / limit %d' % (what, k, lim))
    fuel = (lim + k - 1) // k
    # s is an unsigned char: `s += K` is (unsigned char)(s + K), computed in int
    cont[1] = ('s', '(w8 (s + %d))' % k)
    return '''(* v = 0; s = 0; loop: c = sgetc(f); if (c == EOF) return -1; b = (unsigned char)c;
   if ((...) == 0) { v |= ...; s += %d; if (s >= %d) return -1; goto loop; }  v |= ...; *value = v; return 0;
   at most ceil(%d / %d) = %d iterations *)
Fixpoint t_getb%d_loop (fuel : nat) (v s : N) (l : list N) : result (N * list N) :=
  match fuel with
  | O => Bad
  | S f =>
    match l with
    | [] => Eof
    | c :: rest =>
%s      if %s =? 0 then
%s        if %d <=? s then Bad else t_getb%d_loop f v s rest
      else
%s        Ok (v, rest)
    end
  end.
Definition t_sgetb%d (l : list N) : result (N * list N) := t_getb%d_loop %d 0 0 l.''' % (
        k, lim, lim, k, fuel, W, lets([sb], '      '), test, lets(cont, '        '), lim, W, lets(fin, '        '), W, W, fuel)


def sputble32(src):
    what = 'sputble32'
    body = body_of(src, 'int', what, r'uint32_t\s+value\s*,\s*STREAM\s*\*\s*s', what)
    p = PX(tokenize(body), 32, ['value'], what)
    p.expect('unsigned char buf [ 4 ] ;')
    es = []
    for k in range(4):
        p.expect('buf [ %d ] =' % k)
        es.append('(w8 %s)' % p.expr())
        p.expect(';')
    p.expect('return swrite ( buf , 4 , s ) ;')
    if p.peek()[0] != 'eof':
        raise Unsupported('%s: trailing tokens' % what)
    return 'Definition t_sputble32 (value : N) : list N :=\n  [%s].' % ';\n   '.join(es)


def sgetble32(src):
    what = 'sgetble32'
    body = body_of(src, 'int', what, r'STREAM\s*\*\s*f\s*,\s*uint32_t\s*\*\s*value', what)
    p = PX(tokenize(body), 32, [], what, bytes_={'buf': 'b%d'})
    p.expect('unsigned char buf [ 4 ] ; if ( sread ( f , buf , 4 ) != 0 ) { return - 1 ; } * value =')
    e = p.expr()
    p.expect('; return 0 ;')
    if p.peek()[0] != 'eof':
        raise Unsupported('%s: trailing tokens' % what)
    return '''(* if (sread(f, buf, 4) != 0) return -1;  *value = ...;  return 0; *)
Definition t_sgetble32 (l : list N) : result (N * list N) :=
  match take 4 l with
  | Ok ([b0; b1; b2; b3], rest) => Ok (%s, rest)
  | Ok _ => Bad
  | Eof => Eof
  | Bad => Bad
  end.''' % e


def sputbs(src):
    what = 'sputbs'
    body = body_of(src, 'int', what, r'const\s+char\s*\*\s*str\s*,\s*STREAM\s*\*\s*f', what)
    p = PX(tokenize(body), 32, [], what)
    p.expect('size_t len = strlen ( str ) ; if ( sputb32 ( len , f ) != 0 ) { return - 1 ; } return swrite ( str , len , f ) ;')
    if p.peek()[0] != 'eof':
        raise Unsupported('%s: trailing tokens' % what)
    return '''(* size_t len = strlen(str); sputb32(len, f) [uint32_t parameter]; swrite(str, len, f) [unsigned parameter] *)
Definition t_sputbs (str : list N) : list N :=
  let len := N.of_nat (length str) in
  t_sputb32 len ++ firstn (N.to_nat (w32 len)) str.'''


def sgetbs(src):
    what = 'sgetbs'
    body = body_of(src, 'int', what, r'STREAM\s*\*\s*f\s*,\s*char\s*\*\s*str\s*,\s*int\s+size', what)
    p = PX(tokenize(body), 32, [], what)
    p.expect('uint32_t len ; if ( sgetb32 ( f , & len ) < 0 ) { return - 1 ; }')
    p.expect('if ( len >= ( uint32_t ) size ) { return - 1 ; }')
    p.expect('str [ len ] = 0 ; return sread ( f , str , ( int ) len ) ;')
    if p.peek()[0] != 'eof':
        raise Unsupported('%s: trailing tokens' % what)
    return '''(* if (sgetb32(f, &len) < 0) return -1;  if (len >= (uint32_t)size) return -1;  str[len] = 0;  return sread(f, str, (int)len); *)
Definition t_sgetbs (size : N) (l : list N) : result (list N * list N) :=
  match t_sgetb32 l with
  | Ok (len, rest) => if (w32 size) <=? len then Bad else take len rest
  | Eof => Eof
  | Bad => Bad
  end.'''


def main(snap, outp):
    head = ["(* GENERATED from cmdline/stream.c by harness/gen/varintc.py -- do not edit *)",
            "From Coq Require Import NArith List.", "From Snap.Hash Require Import Words.", "From Snap.Codec Require Import Varint.",
            "Import ListNotations.", "Local Open Scope N_scope.", "",
            "(* truncation to unsigned char *)", "Definition w8 (x : N) : N := N.land x 0xff.", ""]
    try:
        src = strip_comments(open(os.path.join(snap, 'cmdline/stream.c'), errors='replace').read())
        parts = [sputb(src, 32), sputb(src, 64), sgetb(src, 32), sgetb(src, 64), sputble32(src), sgetble32(src), sputbs(src), sgetbs(src)]
        s = '\n'.join(head) + '\n\n'.join(parts) + '\n'
    except Unsupported as e:
        print('UNSUPPORTED %s' % e)
        stub = '(* GENERATED by harness/gen/varintc.py: the source could not be translated.\n   UNSUPPORTED %s *)\n' % str(e).replace('*)', '* )')
        try:
            if open(outp).read() != stub:
                open(outp, 'w').write(stub)
        except FileNotFoundError:
            open(outp, 'w').write(stub)
        sys.exit(1)
    try:
        if open(outp).read() == s:
            return
    except FileNotFoundError:
        pass
    open(outp, 'w').write(s)


if __name__ == '__main__':
    if len(sys.argv) != 3:
        print('UNSUPPORTED usage: varintc.py <snapshot dir> <out.v>')
        sys.exit(2)
    main(sys.argv[1], sys.argv[2])
