#!/usr/bin/env python3
"""Translator: raid/x86.c + raid/x86z.c -> Coq (Gen/X86Progs.v).

Deliberately dumb: a brace matcher finds each `void raid_gen*_(sse2|ssse3|avx2)*(int nd, size_t size, void **vv)`
body; the body is consumed statement by statement with fixed regular expressions.  The only accepted shape is

    declarations;  l = nd - 1;  p = v[nd]; q = v[nd + 1]; ...
    [ if (l == 0) { for (i = 0; i < K; ++i) memcpy(v[1 + i], v[0], size); return; } ]
    raid_sse_begin() | raid_avx_begin();
    asm...                                            (prologue)
    for (i = 0; i < size; i += STEP) {
        asm...                                        (chunk_init)
        for (d = l - 1; d >= 0 | d > 0; --d) { asm... }   (loop_body, loop_lo = 0 | 1)
        asm...                                        (chunk_mid ; the trailing stores are chunk_fini)
    }
    raid_sse_end() | raid_avx_end();

with one instruction per `asm volatile ("<mnemonic> <operands>" [: outputs : inputs]);`.  Anything else makes the
function `None` in the output (the check then reports it as correspondence-only) and prints
`UNSUPPORTED <function>: <why>`.

usage: x86asm.py <snapshot dir (containing raid/)> <output .v>"""
import re, sys, os


class Unsupported(Exception):
    pass


def strip_comments(s):
    return re.sub(r'/\*.*?\*/', lambda m: ' ' * 0 + re.sub(r'[^\n]', ' ', m.group(0)), s, flags=re.S)


def match_brace(s, pos):
    """s[pos] == '{' -> index just after the matching '}'"""
    assert s[pos] == '{'
    depth = 0
    i = pos
    while i < len(s):
        c = s[i]
        if c == '"':
            i += 1
            while s[i] != '"':
                i += 2 if s[i] == '\\' else 1
        elif c == '{':
            depth += 1
        elif c == '}':
            depth -= 1
            if depth == 0:
                return i + 1
        i += 1
    raise Unsupported('unbalanced braces')


def eval_int(expr):
    if not re.fullmatch(r'[\d\s+*()]+', expr):
        raise Unsupported('integer expression %r' % expr)
    return int(eval(expr, {'__builtins__': {}}))


# ------------------------------------------------------------------------------------------------
# constants  static const struct gfconst16 { uint8_t poly[16]; ... } gfconst16 __aligned(32) = { {...}, {...} };

def parse_consts(src):
    out = {}
    for m in re.finditer(r'static\s+const\s+struct\s+(\w+)\s*\{([^}]*)\}\s*(\w+)\s+__aligned\(\d+\)\s*=\s*\{', src):
        fields = re.findall(r'uint8_t\s+(\w+)\[(\d+)\]\s*;', m.group(2))
        if re.sub(r'uint8_t\s+\w+\[\d+\]\s*;', '', m.group(2)).strip():
            continue    # a field of another type: ignore the whole struct (its uses become UNSUPPORTED)
        var = m.group(3)
        start = m.end() - 1
        end = match_brace(src, start)
        body = src[start + 1:end - 1]
        groups = re.findall(r'\{([^{}]*)\}', body)
        if re.sub(r'\{[^{}]*\}', '', body).replace(',', '').strip():
            continue
        if len(groups) != len(fields):
            continue
        ok = True
        vals = {}
        for (fname, flen), g in zip(fields, groups):
            toks = [t.strip() for t in g.split(',') if t.strip()]
            try:
                bs = [int(t, 0) for t in toks]
            except ValueError:
                ok = False
                break
            flen = int(flen)
            if len(bs) > flen or any(b < 0 or b > 255 for b in bs):
                ok = False
                break
            vals[fname] = bs + [0] * (flen - len(bs))
        if ok:
            for k, v in vals.items():
                out['%s.%s' % (var, k)] = v
    return out


# ------------------------------------------------------------------------------------------------
# operands

PARNAMES = None   # per function


def mem_operand(expr, ctx):
    expr = re.sub(r'\s+', '', expr)
    m = re.fullmatch(r'v\[(l|d|0)\]\[i(?:\+(\d+))?\]', expr)
    if m:
        ref = {'l': 'Last', 'd': 'Cur', '0': 'First'}[m.group(1)]
        if ref == 'Cur' and not ctx['in_loop']:
            raise Unsupported('v[d] outside the disk loop')
        return 'MemData %s %d' % (ref, int(m.group(2) or 0))
    m = re.fullmatch(r'(\w+)\[i(?:\+(\d+))?\]', expr)
    if m and m.group(1) in ctx['par']:
        return 'MemPar %d %d' % (ctx['par'][m.group(1)], int(m.group(2) or 0))
    m = re.fullmatch(r'gfgenpshufb\[(l|d)\]\[(\d+)\]\[(\d+)\]\[(\d+)\]', expr)
    if m:
        if not ctx['gfgen_is_cauchy']:
            raise Unsupported('gfgenpshufb is not #defined as raid_gfcauchypshufb in raid/internal.h')
        ref = {'l': 'Last', 'd': 'Cur'}[m.group(1)]
        if ref == 'Cur' and not ctx['in_loop']:
            raise Unsupported('gfgenpshufb[d] outside the disk loop')
        j, lh, z = int(m.group(2)), int(m.group(3)), int(m.group(4))
        if j > 3 or lh > 1 or z != 0:
            raise Unsupported('table index out of the declared bounds in %s' % expr)
        return 'MemTab TGen %s %d %d' % (ref, j, lh)
    m = re.fullmatch(r'(\w+\.\w+)\[0\]', expr)
    if m:
        if m.group(1) not in ctx['consts']:
            raise Unsupported('unknown constant %s' % m.group(1))
        bs = ctx['consts'][m.group(1)]
        if len(bs) != 16:
            raise Unsupported('constant %s is not 16 bytes' % m.group(1))
        return 'MemConst [%s]%%N' % ';'.join(map(str, bs))
    m = re.fullmatch(r'pd\[(\d+)\]', expr)
    if m and ctx['scratch'] is not None:
        k = int(m.group(1))
        if k % 16 or k + 16 > ctx['scratch'] or ctx['width'] != 16:
            raise Unsupported('scratch slot %s outside the aligned buffer' % expr)
        return 'MemScratch %d' % (k // 16)
    raise Unsupported('memory operand %r' % expr)


def reg_operand(tok, ctx):
    m = re.fullmatch(r'%%?(x|y)mm(\d+)', tok)
    if not m:
        raise Unsupported('operand %r' % tok)
    if (m.group(1) == 'x') != (ctx['width'] == 16):
        raise Unsupported('register %s does not match the %d-byte mode of the function' % (tok, ctx['width']))
    n = int(m.group(2))
    if n > 15:
        raise Unsupported('register %s' % tok)
    return 'Reg %d' % n


BIN = {'pxor': 'OXor', 'pand': 'OAnd', 'paddb': 'OAddB', 'pcmpgtb': 'OCmpGtB', 'pshufb': 'OPshufb'}


def translate_asm(templ, outs, ins, ctx):
    """one asm statement -> Coq instr term"""
    templ = templ.strip()
    m = re.fullmatch(r'(\w+)\s+(.*)', templ)
    if not m:
        raise Unsupported('asm template %r' % templ)
    mn, rest = m.group(1), m.group(2)
    ops = [o.strip() for o in rest.split(',')]
    has_ops = outs is not None or ins is not None
    memexpr = None
    is_out = False
    if outs and ins:
        raise Unsupported('asm with both outputs and inputs')
    for spec, isout in ((outs, True), (ins, False)):
        if spec:
            mm = re.fullmatch(r'"(=?)m"\s*\((.*)\)', spec.strip())
            if not mm or (mm.group(1) == '=') != isout:
                raise Unsupported('asm constraint %r' % spec)
            memexpr, is_out = mm.group(2), isout

    def opnd(tok):
        if tok == '%0':
            if memexpr is None:
                raise Unsupported('%0 without operand list')
            return ('mem', mem_operand(memexpr, ctx))
        if has_ops and not tok.startswith('%%'):
            raise Unsupported('register %r must be written %%%% in an asm with operands' % tok)
        if not has_ops and tok.startswith('%%'):
            raise Unsupported('register %r must be written with one %% in an asm without operands' % tok)
        return ('reg', reg_operand(tok, ctx))

    if memexpr is not None and '%0' not in ops:
        raise Unsupported('memory operand not used')
    vex = ctx['width'] == 32
    if vex != mn.startswith('v'):
        raise Unsupported('mnemonic %s in %d-byte mode' % (mn, ctx['width']))
    base = mn[1:] if vex else mn
    if base in ('movdqa', 'movntdq'):
        if len(ops) != 2:
            raise Unsupported(templ)
        s, d = opnd(ops[0]), opnd(ops[1])
        if d[0] == 'mem':
            if not is_out or s[0] != 'reg':
                raise Unsupported('store shape: ' + templ)
            if not (d[1].startswith('MemPar') or d[1].startswith('MemScratch')):
                raise Unsupported('store to %s' % d[1])
            if base == 'movntdq' and not d[1].startswith('MemPar'):
                raise Unsupported('movntdq to %s' % d[1])
            return 'Store (%s) (%s)' % (d[1], s[1])
        if base == 'movntdq' or is_out:
            raise Unsupported('load shape: ' + templ)
        if s[0] == 'mem' and vex and not s[1].startswith('MemData'):
            raise Unsupported('32-byte load from a 16-byte object: ' + templ)
        if s[0] == 'mem' and s[1].startswith('MemPar'):
            raise Unsupported('load from a parity buffer')
        return 'Mov (%s) (%s)' % (d[1], s[1])
    if base == 'broadcasti128':
        if not vex or len(ops) != 2:
            raise Unsupported(templ)
        s, d = opnd(ops[0]), opnd(ops[1])
        if d[0] != 'reg' or s[0] != 'mem' or is_out or not (s[1].startswith('MemTab') or s[1].startswith('MemConst')):
            raise Unsupported('broadcast shape: ' + templ)
        return 'Bcast128 (%s) (%s)' % (d[1], s[1])
    if base in BIN:
        if is_out:
            raise Unsupported('memory destination: ' + templ)
        if not vex:
            if len(ops) != 2:
                raise Unsupported(templ)
            s, d = opnd(ops[0]), opnd(ops[1])
            a = d
        else:
            if len(ops) != 3:
                raise Unsupported(templ)
            s, a, d = opnd(ops[0]), opnd(ops[1]), opnd(ops[2])
        if d[0] != 'reg' or a[0] != 'reg':
            raise Unsupported('operand kinds: ' + templ)
        if s[0] == 'mem' and not s[1].startswith('MemData'):
            raise Unsupported('memory source other than data: ' + templ)
        return 'Bin %s (%s) (%s) (%s)' % (BIN[base], d[1], a[1], s[1])
    if base in ('psrlw', 'psllw'):
        if memexpr is not None:
            raise Unsupported(templ)
        mm = re.fullmatch(r'\$(\d+)', ops[0])
        if not mm:
            raise Unsupported('shift count: ' + templ)
        k = int(mm.group(1))
        if k > 15:
            raise Unsupported('shift count: ' + templ)
        if not vex:
            if len(ops) != 2:
                raise Unsupported(templ)
            d = opnd(ops[1])
            a = d
        else:
            if len(ops) != 3:
                raise Unsupported(templ)
            a, d = opnd(ops[1]), opnd(ops[2])
        return '%s %d%%N (%s) (%s)' % ('SrlW' if base == 'psrlw' else 'SllW', k, d[1], a[1])
    raise Unsupported('mnemonic %s' % mn)


# ------------------------------------------------------------------------------------------------
# statements

ASM_RE = re.compile(r'asm\s+volatile\s*\(\s*"([^"]*)"\s*(?::\s*([^:;]*?)\s*(?::\s*([^:;]*?)\s*)?)?\)\s*;')
DECL_RES = [re.compile(p) for p in (
    r'uint8_t\s*\*\*\s*v\s*=\s*\(\s*uint8_t\s*\*\*\s*\)\s*vv\s*;',
    r'uint8_t\s*\*\s*(?!pd\b)\w+\s*;',
    r'int\s+d\s*,\s*l\s*;',
    r'size_t\s+i\s*;',
)]


class Cursor:
    def __init__(self, s):
        self.s = s
        self.p = 0

    def skip(self):
        while self.p < len(self.s) and self.s[self.p].isspace():
            self.p += 1

    def eof(self):
        self.skip()
        return self.p >= len(self.s)

    def take(self, rx):
        self.skip()
        m = (rx if hasattr(rx, 'match') else re.compile(rx)).match(self.s, self.p)
        if m:
            self.p = m.end()
        return m

    def rest(self):
        self.skip()
        return self.s[self.p:self.p + 60].split('\n')[0]


def asm_list(cur, ctx):
    out = []
    while True:
        m = cur.take(ASM_RE)
        if not m:
            return out
        outs, ins = m.group(2), m.group(3)
        out.append(translate_asm(m.group(1), outs or None, ins or None, ctx))


def translate_function(body, consts, gfgen_is_cauchy):
    cur = Cursor(body)
    ctx = {'par': {}, 'consts': consts, 'scratch': None, 'width': None, 'in_loop': False, 'gfgen_is_cauchy': gfgen_is_cauchy}
    # declarations
    while True:
        if any(cur.take(r) for r in DECL_RES):
            continue
        m = cur.take(r'uint8_t\s+buffer\[([^\]]*)\]\s*;')
        if m:
            buflen = eval_int(m.group(1))
            m2 = cur.take(r'uint8_t\s*\*\s*pd\s*=\s*__align_ptr\(\s*buffer\s*,\s*16\s*\)\s*;')
            if not m2:
                raise Unsupported('scratch buffer without the aligned pointer pd')
            ctx['scratch'] = buflen - 16      # bytes guaranteed after alignment to 16 (at most 15 are skipped)
            continue
        break
    if not cur.take(r'l\s*=\s*nd\s*-\s*1\s*;'):
        raise Unsupported('expected `l = nd - 1;` at: ' + cur.rest())
    while True:
        m = cur.take(r'(\w+)\s*=\s*v\[\s*nd\s*(?:\+\s*(\d+)\s*)?\]\s*;')
        if not m:
            break
        if m.group(1) in ctx['par'] or m.group(1) in ('v', 'i', 'd', 'l', 'pd'):
            raise Unsupported('pointer %s assigned twice' % m.group(1))
        ctx['par'][m.group(1)] = int(m.group(2) or 0)
    nd1 = None
    m = cur.take(r'if\s*\(\s*l\s*==\s*0\s*\)\s*\{\s*for\s*\(\s*i\s*=\s*0\s*;\s*i\s*<\s*(\d+)\s*;\s*\+\+i\s*\)\s*'
                 r'memcpy\(\s*v\[\s*1\s*\+\s*i\s*\]\s*,\s*v\[\s*0\s*\]\s*,\s*size\s*\)\s*;\s*return\s*;\s*\}')
    if m:
        nd1 = int(m.group(1))
    m = cur.take(r'raid_(sse|avx)_begin\(\)\s*;')
    if not m:
        raise Unsupported('expected raid_sse_begin()/raid_avx_begin() at: ' + cur.rest())
    kind = m.group(1)
    ctx['width'] = 16 if kind == 'sse' else 32
    prologue = asm_list(cur, ctx)
    m = cur.take(r'for\s*\(\s*i\s*=\s*0\s*;\s*i\s*<\s*size\s*;\s*i\s*\+=\s*(\d+)\s*\)\s*\{')
    if not m:
        raise Unsupported('expected the block loop at: ' + cur.rest())
    step = int(m.group(1))
    init = asm_list(cur, ctx)
    m = cur.take(r'for\s*\(\s*d\s*=\s*l\s*-\s*1\s*;\s*d\s*(>=|>)\s*0\s*;\s*--d\s*\)\s*\{')
    if not m:
        raise Unsupported('expected the disk loop at: ' + cur.rest())
    lo = 0 if m.group(1) == '>=' else 1
    ctx['in_loop'] = True
    loop = asm_list(cur, ctx)
    ctx['in_loop'] = False
    if not cur.take(r'\}'):
        raise Unsupported('in the disk loop: ' + cur.rest())
    tail = asm_list(cur, ctx)
    if not cur.take(r'\}'):
        raise Unsupported('in the block loop: ' + cur.rest())
    if not cur.take(r'raid_%s_end\(\)\s*;' % kind):
        raise Unsupported('expected raid_%s_end() at: %s' % (kind, cur.rest()))
    if not cur.eof():
        raise Unsupported('trailing statements: ' + cur.rest())
    # trailing stores to parity are chunk_fini
    k = len(tail)
    while k > 0 and tail[k - 1].startswith('Store (MemPar'):
        k -= 1
    mid, fini = tail[:k], tail[k:]

    def lst(l):
        return '[' + ';\n      '.join(l) + ']'
    return ('{| width := %d; step := %d;\n    prologue := %s;\n    chunk_init := %s;\n    loop_lo := %d;\n    loop_body := %s;\n'
            '    chunk_mid := %s;\n    chunk_fini := %s;\n    nd1_special := %s |}'
            % (ctx['width'], step, lst(prologue), lst(init), lo, lst(loop), lst(mid), lst(fini),
               'None' if nd1 is None else 'Some %d%%nat' % nd1))


# the generator variants that the proofs name one by one (Simd/SimdAll.v); one that disappears from the source
# becomes `None`, a new one is appended to all_gen_progs
EXPECTED = ['raid_gen1_sse2', 'raid_gen1_avx2', 'raid_gen2_sse2', 'raid_gen2_avx2', 'raid_gen2_sse2ext',
            'raid_gen3_ssse3', 'raid_gen3_ssse3ext', 'raid_gen3_avx2ext', 'raid_gen4_ssse3', 'raid_gen4_ssse3ext',
            'raid_gen4_avx2ext', 'raid_gen5_ssse3', 'raid_gen5_ssse3ext', 'raid_gen5_avx2ext', 'raid_gen6_ssse3',
            'raid_gen6_ssse3ext', 'raid_gen6_avx2ext', 'raid_genz_sse2', 'raid_genz_sse2ext', 'raid_genz_avx2ext']

FUNC_RE = re.compile(r'\bvoid\s+(raid_(gen|rec)(\w)_(\w+))\s*\(([^)]*)\)\s*\{')


def genfn_of(which):
    return {'1': 'G1', '2': 'G2', 'z': 'GZ', '3': 'GK 3', '4': 'GK 4', '5': 'GK 5', '6': 'GK 6'}.get(which)


def translate(snap):
    """returns (coq text, messages)"""
    msgs = []
    gens = []     # (name, genfn, term or None)
    recs = []
    try:
        ih = open(os.path.join(snap, 'raid/internal.h')).read()
    except OSError:
        ih = ''
    gfgen_is_cauchy = re.search(r'^#define\s+gfgenpshufb\s+raid_gfcauchypshufb\s*$', ih, re.M) is not None
    for fn in ('raid/x86.c', 'raid/x86z.c'):
        try:
            src = strip_comments(open(os.path.join(snap, fn)).read())
        except OSError:
            msgs.append('UNSUPPORTED %s: file missing' % fn)
            continue
        consts = parse_consts(src)
        for m in FUNC_RE.finditer(src):
            name, fam, which, variant, params = m.groups()
            if fam == 'rec':
                recs.append(name)
                msgs.append('UNSUPPORTED %s: decoder shape (data-dependent multiplier tables) is not translated' % name)
                continue
            g = genfn_of(which)
            term = None
            try:
                if g is None:
                    raise Unsupported('unknown generator family')
                if re.sub(r'\s+', ' ', params.strip()) != 'int nd, size_t size, void **vv':
                    raise Unsupported('parameter list %r' % params)
                end = match_brace(src, m.end() - 1)
                term = translate_function(src[m.end():end - 1], consts, gfgen_is_cauchy)
            except Unsupported as e:
                msgs.append('UNSUPPORTED %s: %s' % (name, e))
            gens.append((name, g or 'G1', term))
    found = set(n for n, g, t in gens)
    for name in EXPECTED:
        if name not in found:
            msgs.append('UNSUPPORTED %s: function not found in raid/x86.c, raid/x86z.c' % name)
            gens.append((name, genfn_of(name[8]), None))
    order = {n: k for k, n in enumerate(EXPECTED)}
    gens.sort(key=lambda x: order.get(x[0], len(order)))
    lines = ["(* GENERATED from raid/x86.c, raid/x86z.c by harness/gen/x86asm.py -- do not edit *)",
             "From Coq Require Import NArith List String.", "From Snap.Raid Require Import GenModel.",
             "From Snap.Simd Require Import SimdDefs.", "Import ListNotations.", ""]
    seen = set()
    for name, g, term in gens:
        if name in seen:
            msgs.append('UNSUPPORTED %s: defined twice' % name)
            continue
        seen.add(name)
        if term is None:
            lines.append("Definition %s : option prog := None." % name)
        else:
            lines.append("Definition %s : option prog := Some\n  %s." % (name, term))
        lines.append("")
    lines.append("Definition all_gen_progs : list (string * genfn * option prog) := [")
    lines.append(";\n".join('  ("%s"%%string, %s, %s)' % (n, g, n) for n, g, t in gens if n in seen and not seen.discard(n)))
    lines.append("].")
    lines.append("")
    lines.append("Definition untranslated_decoders : list string := [%s]." % "; ".join('"%s"%%string' % r for r in recs))
    return "\n".join(lines) + "\n", msgs


def main(snap, outp):
    s, msgs = translate(snap)
    for m in msgs:
        print(m)
    try:
        if open(outp).read() == s:
            return
    except FileNotFoundError:
        pass
    os.makedirs(os.path.dirname(outp), exist_ok=True)
    open(outp, 'w').write(s)


if __name__ == '__main__':
    main(sys.argv[1], sys.argv[2])
