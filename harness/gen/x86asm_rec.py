#!/usr/bin/env python3
"""Translator: the SIMD decoders raid_rec{1,2,X}_{ssse3,avx2} of raid/x86.c -> Coq (Gen/X86RecProgs.v).

Same style as x86asm.py (regular expressions over fixed statement shapes + a brace matcher).  The C part of a
decoder -- G[j*N+k] = A(ip[j], id[k]); raid_invert(G, V, N) (or V = inv(G)); raid_delta_gen(N, id, ip, nd, size, vv);
p[j] = v[nd + ip[j]]; pa[j] = v[id[j]] -- is only RECOGNISED here (it is modelled by hand in coq/Raid/RecModel.v);
what is translated is the asm loop, as a value of Simd.RecDefs.rprog parameterised by the byte matrix V:

    prologue (asm);  for (i = 0; i < size; i += STEP) { stmt* }
    stmt ::= asm | for (j = 0; j < N; ++j) { stmt* } | for (k = 0; k < N; ++k) { [uint8_t m = V[j * N + k];] stmt* }

Anything else: `UNSUPPORTED <function>: <why>` and `None` (correspondence only).

usage: x86asm_rec.py <snapshot dir (containing raid/)> <output .v>"""
import re, sys, os
sys.path.insert(0, os.path.dirname(os.path.abspath(__file__)))
from x86asm import Unsupported, strip_comments, match_brace, parse_consts, Cursor, ASM_RE, BIN

EXPECTED = ['raid_rec1_ssse3', 'raid_rec2_ssse3', 'raid_recX_ssse3', 'raid_rec1_avx2', 'raid_rec2_avx2', 'raid_recX_avx2']


def idx(tok, ctx):
    if tok in ('j', 'k'):
        if tok not in ctx['loops']:
            raise Unsupported('index %s outside its loop' % tok)
        return 'IJ' if tok == 'j' else 'IK'
    if re.fullmatch(r'\d+', tok):
        n = int(tok)
        if ctx['n'] is not None and n >= ctx['n']:
            raise Unsupported('index %d out of the %d declared buffers' % (n, ctx['n']))
        return 'IConst %d' % n
    raise Unsupported('index %r' % tok)


def mem_operand(expr, ctx):
    expr = re.sub(r'\s+', '', expr)
    w = ctx['width']
    if ctx['kind'] == 1:
        m = re.fullmatch(r'(p|pa)\[i(?:\+(\d+))?\]', expr)
        if m:
            return '%s (IConst 0) %d' % ('RP' if m.group(1) == 'p' else 'RPa', int(m.group(2) or 0))
        m = re.fullmatch(r'gfmulpshufb\[V\]\[(\d+)\]\[(\d+)\]', expr)
        if m:
            if int(m.group(1)) > 1 or int(m.group(2)) != 0:
                raise Unsupported('table index in %s' % expr)
            return 'RMulTab (VAt 0) %d' % int(m.group(1))
    else:
        m = re.fullmatch(r'(p|pa)\[(\w+)\]\[i(?:\+(\d+))?\]', expr)
        if m:
            return '%s (%s) %d' % ('RP' if m.group(1) == 'p' else 'RPa', idx(m.group(2), ctx), int(m.group(3) or 0))
        m = re.fullmatch(r'gfmulpshufb\[V\[(\d+)\]\]\[(\d+)\]\[(\d+)\]', expr)
        if m:
            if ctx['n'] is None or int(m.group(1)) >= ctx['n'] * ctx['n'] or int(m.group(2)) > 1 or int(m.group(3)) != 0:
                raise Unsupported('table index in %s' % expr)
            return 'RMulTab (VAt %d) %d' % (int(m.group(1)), int(m.group(2)))
        m = re.fullmatch(r'gfmulpshufb\[m\]\[(\d+)\]\[(\d+)\]', expr)
        if m:
            if not ctx['m_is_vjk'] or int(m.group(1)) > 1 or int(m.group(2)) != 0:
                raise Unsupported('multiplier m is not V[j * N + k] here: %s' % expr)
            return 'RMulTab VJK %d' % int(m.group(1))
        m = re.fullmatch(r'pd\[(j|k)\*(\d+)\]', expr)
        if m:
            if not ctx['scratch'] or int(m.group(2)) != w:
                raise Unsupported('scratch slot %s' % expr)
            return 'RScratch (%s)' % idx(m.group(1), ctx)
    if not ctx['gfmul_is_table'] and 'gfmulpshufb' in expr:
        raise Unsupported('gfmulpshufb is not #defined as raid_gfmulpshufb in raid/internal.h')
    m = re.fullmatch(r'(\w+\.\w+)\[0\]', expr)
    if m:
        if m.group(1) not in ctx['consts'] or len(ctx['consts'][m.group(1)]) != 16:
            raise Unsupported('unknown constant %s' % m.group(1))
        return 'RConst [%s]%%N' % ';'.join(map(str, ctx['consts'][m.group(1)]))
    raise Unsupported('memory operand %r' % expr)


def reg_operand(tok, ctx):
    m = re.fullmatch(r'%%?(x|y)mm(\d+)', tok)
    if not m or (m.group(1) == 'x') != (ctx['width'] == 16) or int(m.group(2)) > 15:
        raise Unsupported('register %r in %d-byte mode' % (tok, ctx['width']))
    return 'RReg %d' % int(m.group(2))


def translate_asm(templ, outs, ins, ctx):
    m = re.fullmatch(r'(\w+)\s+(.*)', templ.strip())
    if not m:
        raise Unsupported('asm template %r' % templ)
    mn, ops = m.group(1), [o.strip() for o in m.group(2).split(',')]
    has_ops = outs is not None or ins is not None
    if outs and ins:
        raise Unsupported('asm with both outputs and inputs')
    memexpr, is_out = None, False
    for spec, isout in ((outs, True), (ins, False)):
        if spec:
            mm = re.fullmatch(r'"(=?)m"\s*\((.*)\)', spec.strip())
            if not mm or (mm.group(1) == '=') != isout:
                raise Unsupported('asm constraint %r' % spec)
            memexpr, is_out = mm.group(2), isout

    def opnd(tok):
        if tok == '%0':
            if memexpr is None:
                raise Unsupported('%0 without operand list')
            return ('mem', mem_operand(memexpr, ctx))
        if has_ops != tok.startswith('%%'):
            raise Unsupported('register spelling %r' % tok)
        return ('reg', reg_operand(tok, ctx))
    if memexpr is not None and '%0' not in ops:
        raise Unsupported('memory operand not used')
    vex = ctx['width'] == 32
    if vex != mn.startswith('v'):
        raise Unsupported('mnemonic %s in %d-byte mode' % (mn, ctx['width']))
    base = mn[1:] if vex else mn
    if base == 'movdqa':
        if len(ops) != 2:
            raise Unsupported(templ)
        s, d = opnd(ops[0]), opnd(ops[1])
        if d[0] == 'mem':
            if not is_out or s[0] != 'reg' or not (d[1].startswith('RPa') or d[1].startswith('RScratch')):
                raise Unsupported('store shape: ' + templ)
            return 'RStore (%s) (%s)' % (d[1], s[1])
        if is_out:
            raise Unsupported('load shape: ' + templ)
        if s[0] == 'mem' and vex and (s[1].startswith('RMulTab') or s[1].startswith('RConst')):
            raise Unsupported('32-byte load from a 16-byte object: ' + templ)
        return 'RMov (%s) (%s)' % (d[1], s[1])
    if base == 'broadcasti128':
        if not vex or len(ops) != 2:
            raise Unsupported(templ)
        s, d = opnd(ops[0]), opnd(ops[1])
        if d[0] != 'reg' or s[0] != 'mem' or is_out or not (s[1].startswith('RMulTab') or s[1].startswith('RConst')):
            raise Unsupported('broadcast shape: ' + templ)
        return 'RBcast (%s) (%s)' % (d[1], s[1])
    if base in BIN:
        if memexpr is not None:
            raise Unsupported('memory operand: ' + templ)
        if not vex:
            if len(ops) != 2:
                raise Unsupported(templ)
            s, d = opnd(ops[0]), opnd(ops[1])
            a = d
        else:
            if len(ops) != 3:
                raise Unsupported(templ)
            s, a, d = opnd(ops[0]), opnd(ops[1]), opnd(ops[2])
        return 'RBin %s (%s) (%s) (%s)' % (BIN[base], d[1], a[1], s[1])
    if base == 'psrlw':
        mm = re.fullmatch(r'\$(\d+)', ops[0])
        if memexpr is not None or not mm or int(mm.group(1)) > 15:
            raise Unsupported(templ)
        if not vex:
            if len(ops) != 2:
                raise Unsupported(templ)
            d = opnd(ops[1])
            a = d
        else:
            if len(ops) != 3:
                raise Unsupported(templ)
            a, d = opnd(ops[1]), opnd(ops[2])
        return 'RSrlW %d%%N (%s) (%s)' % (int(mm.group(1)), d[1], a[1])
    raise Unsupported('mnemonic %s' % mn)


def stmts(cur, ctx):
    """stmt* up to (not including) the closing brace"""
    out = []
    while True:
        m = cur.take(ASM_RE)
        if m:
            out.append('RI (%s)' % translate_asm(m.group(1), m.group(2) or None, m.group(3) or None, ctx))
            continue
        m = cur.take(r'for\s*\(\s*(j|k)\s*=\s*0\s*;\s*\1\s*<\s*N\s*;\s*\+\+\1\s*\)\s*\{')
        if m:
            var = m.group(1)
            if var in ctx['loops'] or ctx['kind'] != 'X' or (var == 'k' and 'j' not in ctx['loops']):
                raise Unsupported('loop over %s not expected here' % var)
            ctx['loops'].append(var)
            if var == 'k':
                ctx['m_is_vjk'] = cur.take(r'uint8_t\s+m\s*=\s*V\[\s*j\s*\*\s*N\s*\+\s*k\s*\]\s*;') is not None
            body = stmts(cur, ctx)
            if not cur.take(r'\}'):
                raise Unsupported('in the %s loop: %s' % (var, cur.rest()))
            ctx['loops'].pop()
            if var == 'k':
                ctx['m_is_vjk'] = False
            out.append('%s [%s]' % ('RForJ' if var == 'j' else 'RForK', ';\n        '.join(body)))
            continue
        return out


C_PARTS = {
    1: [r'uint8_t\s*\*\*\s*v\s*=\s*\(\s*uint8_t\s*\*\*\s*\)\s*vv\s*;', r'uint8_t\s*\*\s*p\s*;', r'uint8_t\s*\*\s*pa\s*;',
        r'uint8_t\s+G\s*;', r'uint8_t\s+V\s*;', r'size_t\s+i\s*;', r'\(void\)\s*nr\s*;',
        r'FAST', r'G\s*=\s*A\(\s*ip\[0\]\s*,\s*id\[0\]\s*\)\s*;', r'V\s*=\s*inv\(\s*G\s*\)\s*;',
        r'raid_delta_gen\(\s*1\s*,\s*id\s*,\s*ip\s*,\s*nd\s*,\s*size\s*,\s*vv\s*\)\s*;',
        r'p\s*=\s*v\[\s*nd\s*\+\s*ip\[0\]\s*\]\s*;', r'pa\s*=\s*v\[\s*id\[0\]\s*\]\s*;'],
    2: [r'uint8_t\s*\*\*\s*v\s*=\s*\(\s*uint8_t\s*\*\*\s*\)\s*vv\s*;', r'const\s+int\s+N\s*=\s*2\s*;', r'uint8_t\s*\*\s*p\[N\]\s*;',
        r'uint8_t\s*\*\s*pa\[N\]\s*;', r'uint8_t\s+G\[N\s*\*\s*N\]\s*;', r'uint8_t\s+V\[N\s*\*\s*N\]\s*;', r'size_t\s+i\s*;',
        r'int\s+j\s*,\s*k\s*;', r'\(void\)\s*nr\s*;', 'SETUP'],
    'X': [r'uint8_t\s*\*\*\s*v\s*=\s*\(\s*uint8_t\s*\*\*\s*\)\s*vv\s*;', r'int\s+N\s*=\s*nr\s*;', r'uint8_t\s*\*\s*p\[RAID_PARITY_MAX\]\s*;',
          r'uint8_t\s*\*\s*pa\[RAID_PARITY_MAX\]\s*;', r'uint8_t\s+G\[RAID_PARITY_MAX\s*\*\s*RAID_PARITY_MAX\]\s*;',
          r'uint8_t\s+V\[RAID_PARITY_MAX\s*\*\s*RAID_PARITY_MAX\]\s*;', 'BUFFER', r'size_t\s+i\s*;', r'int\s+j\s*,\s*k\s*;', 'SETUP'],
}
SETUP = [r'for\s*\(\s*j\s*=\s*0\s*;\s*j\s*<\s*N\s*;\s*\+\+j\s*\)\s*for\s*\(\s*k\s*=\s*0\s*;\s*k\s*<\s*N\s*;\s*\+\+k\s*\)\s*'
         r'G\[\s*j\s*\*\s*N\s*\+\s*k\s*\]\s*=\s*A\(\s*ip\[j\]\s*,\s*id\[k\]\s*\)\s*;',
         r'raid_invert\(\s*G\s*,\s*V\s*,\s*N\s*\)\s*;',
         r'raid_delta_gen\(\s*N\s*,\s*id\s*,\s*ip\s*,\s*nd\s*,\s*size\s*,\s*vv\s*\)\s*;',
         r'for\s*\(\s*j\s*=\s*0\s*;\s*j\s*<\s*N\s*;\s*\+\+j\s*\)\s*\{\s*p\[j\]\s*=\s*v\[\s*nd\s*\+\s*ip\[j\]\s*\]\s*;\s*'
         r'pa\[j\]\s*=\s*v\[\s*id\[j\]\s*\]\s*;\s*\}']
FAST = r'if\s*\(\s*ip\[0\]\s*==\s*0\s*\)\s*\{\s*raid_rec1of1\(\s*id\s*,\s*nd\s*,\s*size\s*,\s*vv\s*\)\s*;\s*return\s*;\s*\}'


def translate_function(body, kind, variant, consts, gfmul_is_table, parity_max):
    cur = Cursor(body)
    width = 16 if variant == 'ssse3' else 32
    ctx = {'kind': kind, 'width': width, 'consts': consts, 'loops': [], 'm_is_vjk': False, 'scratch': False,
           'n': {1: 1, 2: 2, 'X': None}[kind], 'gfmul_is_table': gfmul_is_table}
    fast = False
    for part in C_PARTS[kind]:
        if part == 'FAST':
            if not cur.take(FAST):
                raise Unsupported('expected the `ip[0] == 0` delegation to raid_rec1of1 at: ' + cur.rest())
            fast = True
        elif part == 'SETUP':
            for s in SETUP:
                if not cur.take(s):
                    raise Unsupported('C part of the decoder differs from the modelled shape at: ' + cur.rest())
        elif part == 'BUFFER':
            m = cur.take(r'uint8_t\s+buffer\[\s*RAID_PARITY_MAX\s*\*\s*(\d+)\s*\+\s*(\d+)\s*\]\s*;\s*'
                         r'uint8_t\s*\*\s*pd\s*=\s*__align_ptr\(\s*buffer\s*,\s*(\d+)\s*\)\s*;')
            if not m or {int(m.group(1)), int(m.group(2)), int(m.group(3))} != {width} or parity_max != 6:
                raise Unsupported('scratch buffer declaration at: ' + cur.rest())
            ctx['scratch'] = True
        elif not cur.take(part):
            raise Unsupported('C part of the decoder differs from the modelled shape at: ' + cur.rest())
    begin = 'sse' if width == 16 else 'avx'
    if not cur.take(r'raid_%s_begin\(\)\s*;' % begin):
        raise Unsupported('expected raid_%s_begin() at: %s' % (begin, cur.rest()))
    prologue = []
    while True:
        m = cur.take(ASM_RE)
        if not m:
            break
        prologue.append(translate_asm(m.group(1), m.group(2) or None, m.group(3) or None, ctx))
    m = cur.take(r'for\s*\(\s*i\s*=\s*0\s*;\s*i\s*<\s*size\s*;\s*i\s*\+=\s*(\d+)\s*\)\s*\{')
    if not m:
        raise Unsupported('expected the block loop at: ' + cur.rest())
    step = int(m.group(1))
    chunk = stmts(cur, ctx)
    if not cur.take(r'\}'):
        raise Unsupported('in the block loop: ' + cur.rest())
    if not cur.take(r'raid_%s_end\(\)\s*;' % begin) or not cur.eof():
        raise Unsupported('after the block loop: ' + cur.rest())
    return ('{| r_width := %d; r_step := %d; r_n := %s; r_fast1 := %s;\n    r_prologue := [%s];\n    r_chunk := [%s] |}'
            % (width, step, {1: 'Some 1%nat', 2: 'Some 2%nat', 'X': 'None'}[kind], 'true' if fast else 'false',
               ';\n      '.join(prologue), ';\n      '.join(chunk)))


FUNC_RE = re.compile(r'\bvoid\s+(raid_rec(1|2|X)_(ssse3|avx2))\s*\(([^)]*)\)\s*\{')


def translate(snap):
    msgs, progs = [], {}
    try:
        ih = open(os.path.join(snap, 'raid/internal.h')).read()
    except OSError:
        ih = ''
    try:
        rh = open(os.path.join(snap, 'raid/raid.h')).read()
    except OSError:
        rh = ''
    gfmul_is_table = re.search(r'^#define\s+gfmulpshufb\s+raid_gfmulpshufb\s*$', ih, re.M) is not None
    m = re.search(r'^#define\s+RAID_PARITY_MAX\s+(\d+)\s*$', rh, re.M)
    parity_max = int(m.group(1)) if m else None
    try:
        src = strip_comments(open(os.path.join(snap, 'raid/x86.c')).read())
    except OSError:
        src = ''
        msgs.append('UNSUPPORTED raid/x86.c: file missing')
    consts = parse_consts(src)
    for m in FUNC_RE.finditer(src):
        name, kind, variant, params = m.groups()
        kind = {'1': 1, '2': 2, 'X': 'X'}[kind]
        if name in progs:
            msgs.append('UNSUPPORTED %s: defined twice' % name)
            progs[name] = None
            continue
        try:
            if re.sub(r'\s+', ' ', params.strip()) != 'int nr, int *id, int *ip, int nd, size_t size, void **vv':
                raise Unsupported('parameter list %r' % params)
            end = match_brace(src, m.end() - 1)
            progs[name] = translate_function(src[m.end():end - 1], kind, variant, consts, gfmul_is_table, parity_max)
        except Unsupported as e:
            msgs.append('UNSUPPORTED %s: %s' % (name, e))
            progs[name] = None
    for name in EXPECTED:
        if name not in progs:
            msgs.append('UNSUPPORTED %s: function not found in raid/x86.c' % name)
            progs[name] = None
    lines = ["(* GENERATED from raid/x86.c by harness/gen/x86asm_rec.py -- do not edit *)",
             "From Coq Require Import NArith List String.", "From Snap.Simd Require Import SimdDefs RecDefs.",
             "Import ListNotations.", ""]
    for name in EXPECTED:
        if progs[name] is None:
            lines.append("Definition %s : option rprog := None." % name)
        else:
            lines.append("Definition %s : option rprog := Some\n  %s." % (name, progs[name]))
        lines.append("")
    lines.append("Definition all_rec_progs : list (string * option rprog) := [")
    lines.append(";\n".join('  ("%s"%%string, %s)' % (n, n) for n in EXPECTED))
    lines.append("].")
    return "\n".join(lines) + "\n", msgs


def main(snap, outp):
    s, msgs = translate(snap)
    for m in msgs:
        print(m)
    try:
        if open(outp).read() == s:
            return
    except FileNotFoundError:
        pass
    os.makedirs(os.path.dirname(outp), exist_ok=True)
    open(outp, 'w').write(s)


if __name__ == '__main__':
    main(sys.argv[1], sys.argv[2])
