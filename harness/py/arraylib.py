"""Command-level harness: tiny real arrays driven through the real snapraid binary, with independent oracles
(byte/mtime snapshots, a version store, an independent content decoder and an independent parity checker)."""
import os, sys, shutil, subprocess, json, time, stat, hashlib, re
from common import *
import content as cparse
import gfref

BASE_OPTS = ['--test-skip-device', '--test-skip-self', '--no-warnings', '--test-force-order-alpha']
LEVNAME = ['parity', '2-parity', '3-parity', '4-parity', '5-parity', '6-parity']


def build_shim(snap_or_dir):
    out = os.path.join(snap_or_dir, 'vshim.so')
    if not os.path.exists(out):
        r = run(['gcc', '-shared', '-fPIC', '-O1', '-o', out, os.path.join(VERIF, 'harness', 'c', 'shim.c'), '-ldl', '-lpthread'])
        if r.returncode != 0:
            raise BuildError(r.stdout)
    return out


class Array:
    def __init__(self, binary, nd=2, np_=1, blocksize_kib=1, hashsize=None, ncontent=1, zmode=False, splits=1,
                 root=None, extra_conf=(), shim=None, pool=False, parity_order=None):
        self.bin = binary
        self.root = root or mkscratch('arr.')
        self.nd, self.np, self.bs = nd, np_, blocksize_kib * 1024
        self.disks = ['d%d' % (i + 1) for i in range(nd)]
        self.shim = shim
        self.zmode = zmode
        self.store = {}      # (disk, sub) -> list of (bytes, mtime_ns)   every version the harness ever created
        lines = ['blocksize %d' % blocksize_kib]
        if hashsize:
            lines.append('hashsize %d' % hashsize)
        self.parity_files = []
        plines = []
        for l in range(np_):
            fs = [os.path.join(self.root, 'par%d_%d.parity' % (l, s)) for s in range(splits)]
            self.parity_files.append(fs)
            name = 'z-parity' if (zmode and l == 2) else LEVNAME[l]
            plines.append('%s %s' % (name, ','.join(fs)))
        # the order of the parity lines in the configuration must not matter (parity_order: None / 'reversed' / 'rotated')
        if parity_order == 'reversed':
            plines.reverse()
        elif parity_order == 'rotated' and plines:
            plines = plines[-1:] + plines[:-1]
        lines += plines
        self.content_files = [os.path.join(self.root, 'content%d' % i, 'snapraid.content') for i in range(ncontent)]
        for c in self.content_files:
            os.makedirs(os.path.dirname(c), exist_ok=True)
            lines.append('content %s' % c)
        for d in self.disks:
            os.makedirs(os.path.join(self.root, d), exist_ok=True)
            lines.append('disk %s %s/' % (d, os.path.join(self.root, d)))
        if pool:
            os.makedirs(os.path.join(self.root, 'pool'), exist_ok=True)
            lines.append('pool %s' % os.path.join(self.root, 'pool'))
        lines += list(extra_conf)
        self.conf = os.path.join(self.root, 'snapraid.conf')
        open(self.conf, 'w').write('\n'.join(lines) + '\n')
        self.ncmd = 0
        self.history = []

    # ------------------------------------------------------------------ file system operations
    def path(self, disk, sub):
        return os.path.join(self.root, disk, sub)

    def write(self, disk, sub, data, mtime_ns=None):
        p = self.path(disk, sub)
        os.makedirs(os.path.dirname(p), exist_ok=True)
        if os.path.islink(p) or os.path.isdir(p):
            self.remove(disk, sub)
        with open(p, 'wb') as f:
            f.write(data)
        if mtime_ns is not None:
            os.utime(p, ns=(mtime_ns, mtime_ns))
        st = os.stat(p)
        self.store.setdefault((disk, sub), []).append((bytes(data), st.st_mtime_ns))
        self.history.append(('write', disk, sub, len(data)))
        return st

    def remove(self, disk, sub):
        p = self.path(disk, sub)
        if os.path.isdir(p) and not os.path.islink(p):
            shutil.rmtree(p)
        elif os.path.lexists(p):
            os.unlink(p)
        self.history.append(('remove', disk, sub))

    def note_version(self, disk, sub):
        """record the current on-disk content of a file as a version (after cp/mv done by the caller)"""
        p = self.path(disk, sub)
        st = os.stat(p)
        self.store.setdefault((disk, sub), []).append((open(p, 'rb').read(), st.st_mtime_ns))

    # ------------------------------------------------------------------ running the tool
    def run(self, cmd, *opts, env=None, shim_env=None, log=True, timeout=120, stdin=None):
        self.ncmd += 1
        logf = os.path.join(self.root, 'log%d.txt' % self.ncmd)
        args = [self.bin] + BASE_OPTS + ['-c', self.conf] + (['-l', logf] if log else []) + [cmd] + list(opts)
        e = dict(os.environ)
        e.pop('LD_PRELOAD', None)
        if shim_env is not None:
            e['LD_PRELOAD'] = self.shim
            e['VSHIM_ROOT'] = self.root
            e.update({k: str(v) for k, v in shim_env.items()})
        if env:
            e.update(env)
        try:
            r = subprocess.run(args, stdout=subprocess.PIPE, stderr=subprocess.PIPE, env=e, timeout=timeout, cwd=self.root)
            rc, out, err = r.returncode, r.stdout.decode('latin1'), r.stderr.decode('latin1')
        except subprocess.TimeoutExpired as ex:
            rc, out, err = -999, (ex.stdout or b'').decode('latin1'), 'TIMEOUT'
        tags = []
        if log and os.path.exists(logf):
            tags = open(logf, 'rb').read().decode('latin1').split('\n')
        self.history.append(('cmd', cmd) + tuple(opts) + (rc,))
        return Result(rc, out, err, tags, logf)

    # ------------------------------------------------------------------ observation
    def content(self, i=0):
        return cparse.parse(open(self.content_files[i], 'rb').read())

    def content_bytes(self):
        return [open(c, 'rb').read() if os.path.exists(c) else None for c in self.content_files]

    def parity_bytes(self, level):
        """concatenation of the splits of a level (as found on disk)"""
        b = b''
        for f in self.parity_files[level]:
            if os.path.exists(f):
                b += open(f, 'rb').read()
        return b

    def snapshot_data(self):
        """{(disk, relpath): ('f', bytes, mtime_ns, inode, nlink) | ('l', target) | ('d',)}"""
        snap = {}
        for d in self.disks:
            base = os.path.join(self.root, d)
            for root, dirs, files in os.walk(base):
                for n in dirs:
                    p = os.path.join(root, n)
                    rel = os.path.relpath(p, base)
                    if os.path.islink(p):
                        snap[(d, rel)] = ('l', os.readlink(p))
                    else:
                        snap[(d, rel)] = ('d',)
                for n in files:
                    p = os.path.join(root, n)
                    rel = os.path.relpath(p, base)
                    if os.path.islink(p):
                        snap[(d, rel)] = ('l', os.readlink(p))
                    else:
                        st = os.stat(p)
                        snap[(d, rel)] = ('f', open(p, 'rb').read(), st.st_mtime_ns, st.st_ino, st.st_nlink)
        return snap

    def snapshot_all(self):
        """bytes of everything the tool could touch (data, parity, content), for before/after comparisons"""
        s = {'data': {k: (v[:3] if v[0] == 'f' else v) for k, v in self.snapshot_data().items()}}
        s['parity'] = {f: (open(f, 'rb').read() if os.path.exists(f) else None) for fs in self.parity_files for f in fs}
        s['content'] = {f: (open(f, 'rb').read() if os.path.exists(f) else None) for f in self.content_files}
        return s

    # ------------------------------------------------------------------ independent oracles
    def find_version(self, disk, f):
        """the stored version matching a content-file entry (size and mtime), or None"""
        sub = f['sub'].decode('latin1')
        for data, mt in reversed(self.store.get((disk, sub), [])):
            if len(data) == f['size'] and mt // 10**9 == f['sec'] and (f['nsec'] < 0 or mt % 10**9 == f['nsec']):
                return data
        return None

    def check_map(self, st):
        """map conditions of C06: no two blocks of a disk share a position; every block mapped; positions increase"""
        errs = []
        for d, dd in st['disks'].items():
            seen = {}
            for f in dd['files']:
                nblk = (f['size'] + st['blocksize'] - 1) // st['blocksize']
                if len(f['blocks']) != nblk:
                    errs.append('%s:%s has %d blocks mapped of %d' % (d, f['sub'], len(f['blocks']), nblk))
                last = -1
                for s, pos, h in f['blocks']:
                    if pos in seen:
                        errs.append('%s: position %d shared by %s and %s' % (d, pos, seen[pos], f['sub']))
                    seen[pos] = f['sub']
                    if pos <= last:
                        errs.append('%s:%s positions not increasing at %d' % (d, f['sub'], pos))
                    last = pos
                    if pos >= st['blockmax']:
                        errs.append('%s:%s position %d beyond blockmax %d' % (d, f['sub'], pos, st['blockmax']))
            for pos in dd['deleted']:
                if pos in seen:
                    errs.append('%s: DELETED block at position %d which holds %s' % (d, pos, seen[pos]))
        return errs

    def stripes(self, st):
        """pos -> {disk position index: (state, file entry, block idx)} plus deleted marks"""
        res = {}
        order = {m['name']: m['pos'] for m in st['maps']}
        for d, dd in st['disks'].items():
            for f in dd['files']:
                for i, (s, pos, h) in enumerate(f['blocks']):
                    res.setdefault(pos, {})[order[d]] = (s, d, f, i, h)
            for pos, h in dd['deleted'].items():
                res.setdefault(pos, {})[order[d]] = ('DEL', d, None, None, h)
        return res, order

    def check_parity(self, st=None, levels=None):
        """independent parity checker: every stripe all of whose allocated blocks are BLK must have, in every level,
        parity = generator(applied to the recorded versions, zero padded, each disk at its recorded position);
        parity files must be large enough.  Returns (errors, stripes_checked)."""
        st = st or self.content()
        bs = st['blocksize']
        stripes, order = self.stripes(st)
        ndpos = max(order.values()) + 1 if order else 0
        errs = []
        checked = 0
        par = [self.parity_bytes(l) for l in range(self.np)]
        mode = 'c'
        for pos, blocks in sorted(stripes.items()):
            if not blocks or any(b[0] != 'BLK' for b in blocks.values()):
                continue
            data = [bytes(bs)] * ndpos
            ok = True
            for dp, (s, d, f, i, h) in blocks.items():
                v = self.find_version(d, f)
                if v is None:
                    errs.append('stripe %d: no stored version matches the recorded file %s:%s (size %d)' % (pos, d, f['sub'], f['size']))
                    ok = False
                    break
                blk = v[i * bs:(i + 1) * bs]
                data[dp] = blk + bytes(bs - len(blk))
            if not ok:
                continue
            checked += 1
            exp_c = gfref.gen('c', self.np, data)
            exp_z = gfref.gen('z', min(self.np, 3), data) if self.zmode else None
            for l in range(self.np):
                if levels is not None and l not in levels:
                    continue
                got = par[l][pos * bs:(pos + 1) * bs]
                exp = exp_z[l] if (self.zmode and l < 3) else exp_c[l]
                if len(got) < bs:
                    errs.append('stripe %d level %d: parity file too small (%d bytes)' % (pos, l, len(par[l])))
                elif got != exp:
                    errs.append('stripe %d level %d: parity block differs from generator(synced data)' % (pos, l))
        return errs, checked


class Result:
    def __init__(self, rc, out, err, tags, logf):
        self.rc, self.out, self.err, self.tags, self.logf = rc, out, err, tags, logf

    def tag(self, prefix):
        return [t for t in self.tags if t.startswith(prefix)]

    def summary(self):
        d = {}
        for t in self.tags:
            if t.startswith('summary:'):
                p = t.split(':')
                if len(p) >= 3:
                    d[p[1]] = p[2]
                elif len(p) == 2:
                    d[p[1]] = True
        return d

    def __repr__(self):
        return 'Result(rc=%d, out=%r, err=%r)' % (self.rc, self.out[-300:], self.err[-300:])
