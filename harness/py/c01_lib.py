"""Shared pieces of the C01 / C04 / C05 checks (fix / check / scrub on tiny real arrays).

   * generators of file trees (boundary sizes, nested dirs, symlinks, hard links, empty dirs, zero-size files,
     files sharing size+mtime),
   * an exact restore of a snapshot (data, parity, content) so that every trial starts from the same bytes,
   * damage operations on devices (a data disk directory, a parity level) and on single blocks,
   * the independent oracle "equals the snapshot taken after the sync" with the mtime rule of file_post,
   * the bridge to the extracted fix/check model (ocaml/C01/driver.ml)."""
import os, sys, shutil, stat, itertools, random
from common import *
from arraylib import *
from modelbridge import Bridge
import content as cparse
import gfref

SIZES = [0, 1, 100, 1023, 1024, 1025, 2047, 2048, 2049, 3000, 4096, 5000]
NOISE = ('msg:', 'conf:', 'version:', 'unixtime:', 'time:', 'command:', 'argv:', 'memory:', 'resolve:', 'statfs:',
         'blocksize:', 'data:', 'mode:', 'parity:0:', 'content:', 'split:', 'thermal:', 'pool:', 'share:', 'smartctl:')
for _l in range(6):
    NOISE = NOISE + ('%s:%d:/' % (LEVNAME[_l], 0),)


def levname(arr, l):
    return 'z-parity' if (arr.zmode and l == 2) else LEVNAME[l]


# ------------------------------------------------------------------------------------------------ trees
def populate(arr, rng, nfiles, links=True, same_stamp=True, base_ns=None):
    """create a file tree; returns the recipe (list of tuples) for the replay objects"""
    names = ['a', 'b', 'c', 'k', 'sub/x', 'sub/y', 'sub/deep/z', 'm', 'n', 'q', 'r s', 't\udce9', 'u', 'v', 'w', 'sub2/p', 'sub2/q', 'zz', 'y1', 'y2']
    recipe = []
    base_ns = base_ns or (1700000000 * 10**9 + rng.randrange(10**9))
    used = set()
    for i in range(nfiles):
        d = rng.choice(arr.disks)
        n = rng.choice(names)
        if (d, n) in used:
            continue
        used.add((d, n))
        size = rng.choice(SIZES)
        mt = base_ns + rng.randrange(0, 5) * 10**9 + rng.choice([0, 0, 1, 500000000, 999999999])
        if same_stamp and rng.random() < 0.25:
            # a twin with the same size and time-stamp on the same disk (the collide rule of file_post)
            n2 = n + '.twin'
            arr.write(d, n2, rng.randbytes(size), mtime_ns=mt)
            used.add((d, n2))
            recipe.append(('file', d, n2, size, mt))
        arr.write(d, n, rng.randbytes(size), mtime_ns=mt)
        recipe.append(('file', d, n, size, mt))
    if links:
        files = sorted(used)
        for k in range(rng.randint(0, 3)):
            d, n = rng.choice(files)
            ln = 'l%d' % k if rng.random() < 0.6 else 'sub/l%d' % k
            p = arr.path(d, ln)
            os.makedirs(os.path.dirname(p), exist_ok=True)
            if not os.path.lexists(p):
                os.symlink(rng.choice([n, '../' + n, '/nonexistent/target', 'dangling']), p)
                recipe.append(('symlink', d, ln))
        for k in range(rng.randint(0, 2)):
            d, n = rng.choice(files)
            ln = 'h%d' % k if rng.random() < 0.6 else 'sub/h%d' % k
            p = arr.path(d, ln)
            os.makedirs(os.path.dirname(p), exist_ok=True)
            if not os.path.lexists(p):
                os.link(arr.path(d, n), p)
                arr.note_version(d, ln)
                used.add((d, ln))
                recipe.append(('hardlink', d, ln, n))
        for k in range(rng.randint(0, 2)):
            d = rng.choice(arr.disks)
            dn = rng.choice(['ed%d' % k, 'sub/ed%d' % k, 'e1/e2/ed%d' % k])
            os.makedirs(arr.path(d, dn), exist_ok=True)
            recipe.append(('emptydir', d, dn))
    # arraylib looks versions up by the latin1 decoding of the recorded name: alias arbitrary-byte names
    for (d, n) in list(arr.store):
        arr.store[(d, os.fsencode(n).decode('latin1'))] = arr.store[(d, n)]
    return recipe


def sub2rel(sub):
    return os.fsdecode(sub)


def rel2sub(rel):
    return os.fsencode(rel)


class Saved:
    """everything needed to put an array back to a given moment, byte for byte (inodes excepted)"""

    def __init__(self, arr):
        self.data = arr.snapshot_data()
        self.parity = {f: (open(f, 'rb').read() if os.path.exists(f) else None) for fs in arr.parity_files for f in fs}
        self.content = {f: (open(f, 'rb').read() if os.path.exists(f) else None) for f in arr.content_files}


def wipe_disk(arr, d):
    base = os.path.join(arr.root, d)
    for n in os.listdir(base):
        p = os.path.join(base, n)
        if os.path.isdir(p) and not os.path.islink(p):
            shutil.rmtree(p)
        else:
            os.unlink(p)


def restore(arr, sv, what=('data', 'parity', 'content')):
    if 'data' in what:
        for d in arr.disks:
            wipe_disk(arr, d)
        byino = {}
        items = sorted(sv.data.items(), key=lambda kv: (kv[0][0], kv[0][1].count('/'), kv[0][1]))
        for (d, rel), v in items:
            p = arr.path(d, rel)
            if v[0] == 'd':
                os.makedirs(p, exist_ok=True)
        for (d, rel), v in items:
            p = arr.path(d, rel)
            os.makedirs(os.path.dirname(p), exist_ok=True)
            if v[0] == 'f':
                key = (d, v[3])
                if v[4] > 1 and key in byino:
                    os.link(byino[key], p)
                else:
                    with open(p, 'wb') as f:
                        f.write(v[1])
                    os.utime(p, ns=(v[2], v[2]))
                    byino[key] = p
            elif v[0] == 'l':
                os.symlink(v[1], p)
    if 'parity' in what:
        for f, b in sv.parity.items():
            if b is None:
                if os.path.exists(f):
                    os.unlink(f)
            else:
                open(f, 'wb').write(b)
    if 'content' in what:
        for f, b in sv.content.items():
            if b is None:
                if os.path.exists(f):
                    os.unlink(f)
            else:
                open(f, 'wb').write(b)


# ------------------------------------------------------------------------------------------------ damage
def corrupt_bytes(rng, blk, shape):
    """a different block of the same length"""
    b = bytearray(blk)
    if not b:
        return bytes(b)
    if shape == 'bit':
        i = rng.randrange(len(b)); b[i] ^= 1 << rng.randrange(8)
    elif shape == 'byte':
        i = rng.randrange(len(b)); b[i] = (b[i] + rng.randrange(1, 256)) & 255
    elif shape == 'block':
        nb = bytearray(rng.randbytes(len(b)))
        if nb == b:
            nb[0] ^= 1
        b = nb
    elif shape == 'zero':
        if any(b):
            b = bytearray(len(b))
        else:
            b[0] = 1
    elif shape == 'lastbyte':
        b[-1] ^= 0x80
    elif shape == 'firstbyte':
        b[0] ^= 1
    return bytes(b)


SHAPES = ['bit', 'byte', 'block', 'zero', 'lastbyte', 'firstbyte']


def rewrite_keep_stamp(p, data):
    st = os.stat(p)
    with open(p, 'r+b') as f:
        f.seek(0); f.write(data); f.truncate(len(data))
    os.utime(p, ns=(st.st_atime_ns, st.st_mtime_ns))


def damage_file_block(arr, d, rel, idx, rng, shape):
    p = arr.path(d, rel)
    data = open(p, 'rb').read()
    bs = arr.bs
    blk = data[idx * bs:(idx + 1) * bs]
    nb = corrupt_bytes(rng, blk, shape)
    rewrite_keep_stamp(p, data[:idx * bs] + nb + data[(idx + 1) * bs:])


def damage_parity_block(arr, level, pos, rng, shape):
    # single split only (the callers use splits=1 when they damage by block)
    f = arr.parity_files[level][0]
    data = open(f, 'rb').read()
    bs = arr.bs
    blk = data[pos * bs:(pos + 1) * bs]
    nb = corrupt_bytes(rng, blk, shape)
    open(f, 'wb').write(data[:pos * bs] + nb + data[(pos + 1) * bs:])


DATA_KINDS = ['wipe', 'rmfiles', 'truncate', 'flip', 'mixed', 'rmlinks', 'grow', 'objects']
PAR_KINDS = ['delete', 'garbage', 'truncate', 'flipblocks', 'zero']


def damage_data_disk(arr, d, kind, rng):
    """returns a description of what was done"""
    base = os.path.join(arr.root, d)
    done = []
    if kind == 'wipe':
        wipe_disk(arr, d)
        return ['wipe ' + d]
    ents = []
    for root, dirs, files in os.walk(base):
        for n in files + dirs:
            ents.append(os.path.join(root, n))
    ents.sort()
    seen_ino = set()
    for p in ents:
        rel = os.path.relpath(p, base)
        if os.path.islink(p):
            if kind in ('rmfiles', 'mixed', 'rmlinks') and rng.random() < 0.6:
                if rng.random() < 0.5:
                    os.unlink(p); done.append('rm-symlink ' + rel)
                else:
                    os.unlink(p); os.symlink('elsewhere', p); done.append('retarget-symlink ' + rel)
            continue
        if os.path.isdir(p):
            if kind in ('rmfiles', 'mixed', 'rmlinks') and not os.listdir(p) and rng.random() < 0.6:
                os.rmdir(p); done.append('rmdir ' + rel)
            continue
        if not os.path.exists(p):
            continue
        st = os.stat(p)
        k = kind if kind != 'mixed' else rng.choice(['rmfiles', 'truncate', 'flip', 'keep', 'grow'])
        if kind == 'rmlinks':
            if st.st_nlink > 1 and rng.random() < 0.7:
                os.unlink(p); done.append('rm-one-hardlink-name ' + rel)
            continue
        if kind == 'objects':
            # the entries checked after the stripes (state_check: empty files, hard links): an empty file that is no longer empty,
            # a hard link name that became an independent copy (same bytes and time-stamp, another inode)
            if st.st_size == 0 and st.st_nlink == 1 and rng.random() < 0.9:
                rewrite_keep_stamp(p, b'junk!') if rng.random() < 0.5 else open(p, 'wb').write(b'junk!')
                done.append('fill-empty-file ' + rel)
            elif st.st_nlink > 1 and st.st_ino in seen_ino:
                data = open(p, 'rb').read()
                os.unlink(p)
                with open(p, 'wb') as fh:
                    fh.write(data)
                os.utime(p, ns=(st.st_mtime_ns, st.st_mtime_ns))
                done.append('unlink-hardlink-into-copy ' + rel)
            seen_ino.add(st.st_ino)
            continue
        if k == 'rmfiles' and rng.random() < 0.7:
            os.unlink(p); done.append('rm ' + rel)
        elif k == 'truncate' and rng.random() < 0.7 and st.st_size > 0 and st.st_ino not in seen_ino:
            n = rng.choice([0, st.st_size // 2, max(0, st.st_size - 1), (st.st_size // arr.bs) * arr.bs, rng.randrange(st.st_size)])
            n = min(n, st.st_size - 1)
            data = open(p, 'rb').read()[:n]
            if rng.random() < 0.5:
                rewrite_keep_stamp(p, data)
            else:
                open(p, 'wb').write(data)
            done.append('truncate %s to %d' % (rel, n))
        elif k == 'grow' and rng.random() < 0.7 and st.st_size > 0 and st.st_nlink == 1:
            # the file grew behind the tool's back, by a few bytes or by whole blocks, time-stamp kept or not (fix cuts it back,
            # reports it recovered and restores the time-stamp since 993feac)
            n = rng.choice([1, 4, arr.bs - 1, arr.bs, 2 * arr.bs + 3])
            data = open(p, 'rb').read() + rng.randbytes(n)
            if rng.random() < 0.5:
                rewrite_keep_stamp(p, data)
            else:
                open(p, 'wb').write(data)
            done.append('grow %s by %d' % (rel, n))
        elif k == 'flip' and rng.random() < 0.7 and st.st_size > 0 and st.st_ino not in seen_ino:
            nblk = (st.st_size + arr.bs - 1) // arr.bs
            for idx in range(nblk):
                if rng.random() < 0.6:
                    sh = rng.choice(SHAPES)
                    damage_file_block(arr, d, rel, idx, rng, sh)
                    done.append('%s block %d of %s' % (sh, idx, rel))
        seen_ino.add(st.st_ino)
    return done


def damage_parity(arr, l, kind, rng):
    done = []
    for f in arr.parity_files[l]:
        if not os.path.exists(f):
            continue
        data = open(f, 'rb').read()
        if kind == 'delete':
            os.unlink(f)
        elif kind == 'garbage':
            # independent random bytes: a corruption correlated between levels (same constant xored into two levels, two levels
            # zero-filled) can be mutually consistent and is then not detectable by anything
            open(f, 'wb').write(rng.randbytes(len(data)))
        elif kind == 'zero':
            open(f, 'wb').write(bytes(len(data)))
        elif kind == 'truncate':
            # block aligned: an unaligned single-file parity is refused outright by parity_create ("Error in preallocated
            # size"), see check_C01.unaligned_parity_scenario
            n = rng.choice([0, len(data) // 2, max(0, len(data) - arr.bs), rng.randrange(len(data) + 1)]) // arr.bs * arr.bs
            open(f, 'wb').write(data[:n])
            done.append('to %d' % n)
        elif kind == 'flipblocks':
            b = bytearray(data)
            for pos in range(len(data) // arr.bs):
                if rng.random() < 0.6:
                    blk = corrupt_bytes(rng, bytes(b[pos * arr.bs:(pos + 1) * arr.bs]), rng.choice(SHAPES))
                    b[pos * arr.bs:(pos + 1) * arr.bs] = blk
                    done.append(str(pos))
            open(f, 'wb').write(bytes(b))
    return ['%s %s %s' % (kind, levname(arr, l), ' '.join(done))]


def devices(arr):
    return [('d', d) for d in arr.disks] + [('p', l) for l in range(arr.np)]


# ------------------------------------------------------------------------------------------------ the C01 oracle
def compare_with_saved(arr, sv, st):
    """every file, link and dir of the snapshot must be back: bytes, mtime (unless the collide rule applies), link targets,
    hard link identity, directories.  Returns a list of discrepancy strings."""
    now = arr.snapshot_data()
    errs = []
    recorded = {}
    for dname, dd in st['disks'].items():
        for f in dd['files']:
            recorded.setdefault(dname, []).append(f)
    for k, v in sorted(sv.data.items()):
        d, rel = k
        if k not in now:
            errs.append('%s:%s (%s) is missing after fix' % (d, rel, v[0]))
            continue
        w = now[k]
        if v[0] != w[0]:
            errs.append('%s:%s changed type %s -> %s' % (d, rel, v[0], w[0]))
            continue
        if v[0] == 'l' and v[1] != w[1]:
            errs.append('%s:%s symlink target %r instead of %r' % (d, rel, w[1], v[1]))
        if v[0] == 'f':
            if v[1] != w[1]:
                nb = [i for i in range(0, max(len(v[1]), len(w[1])), arr.bs) if v[1][i:i + arr.bs] != w[1][i:i + arr.bs]]
                errs.append('%s:%s has other bytes than the synced ones (size %d vs %d, differing blocks %s)' % (d, rel, len(w[1]), len(v[1]), [i // arr.bs for i in nb][:8]))
            if v[2] != w[2]:
                relb = rel2sub(rel)
                twins = [f for f in recorded.get(d, []) if f['sub'] != relb and f['size'] == len(v[1]) and f['sec'] == v[2] // 10**9 and f['nsec'] == v[2] % 10**9]
                # hard links: the recorded FILE may be another name of the same inode
                if not twins and v[4] > 1:
                    twins = [1]
                if not twins:
                    errs.append('%s:%s mtime %d instead of %d and no other recorded file of the disk has the same size and time-stamp' % (d, rel, w[2], v[2]))
    # hard links still hard links
    groups = {}
    for (d, rel), v in sv.data.items():
        if v[0] == 'f' and v[4] > 1:
            groups.setdefault((d, v[3]), []).append(rel)
    for (d, ino), rels in groups.items():
        inos = set(now[(d, r)][3] for r in rels if (d, r) in now and now[(d, r)][0] == 'f')
        if len(inos) > 1:
            errs.append('%s: hard links %s are no longer the same file' % (d, rels))
    for k in now:
        if k not in sv.data:
            errs.append('%s:%s appeared (%s)' % (k[0], k[1], now[k][0]))
    return errs


def interesting(tags):
    return [t for t in tags if t and not t.startswith(NOISE)]


# ------------------------------------------------------------------------------------------------ model bridge
class Bridge01(Bridge):
    """Bridge with hash tokens for any hash size, link/dir serialisation and the fix/check requests"""

    def hval(self, h):
        if h == b'\xff' * len(h):
            return 'Z'
        if h == b'\x00' * len(h):
            return 'I'
        if h not in self.hids:
            self.hids[h] = len(self.hids) + 1
        return str(self.hids[h])

    def parity_from_oracle(self, st, saved_store=None):
        """model parity of a cleanly synced array: every stripe whose allocated blocks are all BLK encodes the recorded
        data (the independent parity checker must have validated this first); anything else present is junk"""
        a = self.arr
        stripes, order = a.stripes(st)
        ndpos = max(a.nd, (max(order.values()) + 1) if order else 0)
        self.ndpos = ndpos
        par = []
        for l in range(a.np):
            real = a.parity_bytes(l)
            npos = len(real) // a.bs
            lv = []
            for pos in range(npos):
                blocks = stripes.get(pos, {})
                e = None
                if blocks and all(b[0] == 'BLK' for b in blocks.values()):
                    vec = [0] * ndpos
                    ok = True
                    for dp, (s, d, f, i, h) in blocks.items():
                        v = a.find_version(d, f)
                        if v is None:
                            ok = False
                            break
                        vec[dp] = self.bid(v[i * a.bs:(i + 1) * a.bs])
                    if ok:
                        e = ['E%d' % ndpos] + list(map(str, vec))
                lv.append(e or ['J%d' % (1000 + l * 100000 + pos)])
            par.append(lv)
        self.parity = par
        return par

    def encodes(self, l, ids, got):
        """does the real parity block `got` of level l equal the generator applied to the blocks `ids`?"""
        acc = bytes(self.bs)
        for k, x in enumerate(ids):
            if x:
                acc = xor_blocks(acc, gfmul_block(parity_coeff(self.arr, l, k), self.blocks[x]))
        return acc == got

    def refresh_parity_view(self):
        """after damage: keep an `E` entry only where the real bytes still are what it says; otherwise junk / none"""
        a = self.arr
        self.junk = getattr(self, 'junk', 5000000)
        if not hasattr(self, 'validated'):
            self.validated = {}       # (level, pos) -> bytes known to be the encoding of the E entry
        newp = []
        for l in range(a.np):
            real = a.parity_bytes(l)
            lv = []
            old = self.parity[l]
            npos = max(len(old), (len(real) + a.bs - 1) // a.bs)
            for pos in range(npos):
                got = real[pos * a.bs:(pos + 1) * a.bs]
                if len(got) < a.bs:
                    lv.append(['N'])
                    continue
                e = old[pos] if pos < len(old) else ['J0']
                if e[0][0] == 'E':
                    if self.validated.get((l, pos)) == got:
                        lv.append(e)
                        continue
                    if self.encodes(l, [int(x) for x in e[1:]], got):
                        self.validated[(l, pos)] = got
                        lv.append(e)
                        continue
                self.junk += 1
                lv.append(['J%d' % self.junk])
            newp.append(lv)
        return newp


# ------------------------------------------------------------------------------------------------ independent hash
def _rotl(x, r):
    return ((x << r) | (x >> (32 - r))) & 0xFFFFFFFF


def _fmix(h):
    h ^= h >> 16; h = (h * 0x85ebca6b) & 0xFFFFFFFF
    h ^= h >> 13; h = (h * 0xc2b2ae35) & 0xFFFFFFFF
    h ^= h >> 16
    return h


def murmur3_x86_128(data, seed):
    """MurmurHash3_x86_128 with a 16-byte seed (four little-endian words), written from the public algorithm description"""
    import struct
    M = 0xFFFFFFFF
    c1, c2, c3, c4 = 0x239b961b, 0xab0e9789, 0x38b34ae5, 0xa1e38b93
    h1, h2, h3, h4 = struct.unpack('<4I', seed)
    n = len(data)
    nb = n // 16
    if nb:
        for k1, k2, k3, k4 in struct.iter_unpack('<4I', data[:nb * 16]):
            k1 = (k1 * c1) & M; k1 = _rotl(k1, 15); k1 = (k1 * c2) & M; h1 ^= k1
            h1 = _rotl(h1, 19); h1 = (h1 + h2) & M; h1 = (h1 * 5 + 0x561ccd1b) & M
            k2 = (k2 * c2) & M; k2 = _rotl(k2, 16); k2 = (k2 * c3) & M; h2 ^= k2
            h2 = _rotl(h2, 17); h2 = (h2 + h3) & M; h2 = (h2 * 5 + 0x0bcaa747) & M
            k3 = (k3 * c3) & M; k3 = _rotl(k3, 17); k3 = (k3 * c4) & M; h3 ^= k3
            h3 = _rotl(h3, 15); h3 = (h3 + h4) & M; h3 = (h3 * 5 + 0x96cd1c35) & M
            k4 = (k4 * c4) & M; k4 = _rotl(k4, 18); k4 = (k4 * c1) & M; h4 ^= k4
            h4 = _rotl(h4, 13); h4 = (h4 + h1) & M; h4 = (h4 * 5 + 0x32ac3b17) & M
    tail = data[nb * 16:]
    r = len(tail)
    if r:
        t = tail + bytes(16 - r)
        k1, k2, k3, k4 = struct.unpack('<4I', t)
        if r > 12:
            k4 = (k4 * c4) & M; k4 = _rotl(k4, 18); k4 = (k4 * c1) & M; h4 ^= k4
        if r > 8:
            k3 = (k3 * c3) & M; k3 = _rotl(k3, 17); k3 = (k3 * c4) & M; h3 ^= k3
        if r > 4:
            k2 = (k2 * c2) & M; k2 = _rotl(k2, 16); k2 = (k2 * c3) & M; h2 ^= k2
        k1 = (k1 * c1) & M; k1 = _rotl(k1, 15); k1 = (k1 * c2) & M; h1 ^= k1
    h1 ^= n; h2 ^= n; h3 ^= n; h4 ^= n
    h1 = (h1 + h2 + h3 + h4) & M
    h2 = (h2 + h1) & M; h3 = (h3 + h1) & M; h4 = (h4 + h1) & M
    h1, h2, h3, h4 = _fmix(h1), _fmix(h2), _fmix(h3), _fmix(h4)
    h1 = (h1 + h2 + h3 + h4) & M
    h2 = (h2 + h1) & M; h3 = (h3 + h1) & M; h4 = (h4 + h1) & M
    return struct.pack('<4I', h1, h2, h3, h4)


# ------------------------------------------------------------------------------------------------ what parity encodes
_TR = {}


def gfmul_block(c, blk):
    if c == 0:
        return bytes(len(blk))
    if c == 1:
        return blk
    t = _TR.get(c)
    if t is None:
        t = _TR[c] = bytes(gfref.MUL[c])
    return blk.translate(t)


def xor_blocks(a, b):
    return (int.from_bytes(a, 'little') ^ int.from_bytes(b, 'little')).to_bytes(len(a), 'little')


def parity_coeff(arr, l, i):
    mode = 'z' if (arr.zmode and l < 3) else 'c'
    return gfref.matrix(mode)(l, i)


def decode_parity_block(arr, l, real, cands):
    """find the data vector (one block per disk position, chosen among cands[i]) that the real parity block of level l
    encodes; returns the list of blocks or None.  cands: list (by disk position) of lists of padded blocks"""
    n = len(cands)
    # meet in the middle is not needed: the candidate lists are tiny (blocks ever recorded at this position + zero)
    partial = [(bytes(len(real)), [])]
    for i in range(n):
        c = parity_coeff(arr, l, i)
        nxt = []
        for acc, chosen in partial:
            for b in cands[i]:
                nxt.append((xor_blocks(acc, gfmul_block(c, b)), chosen + [b]))
        partial = nxt
        if len(partial) > 20000:
            return None
    for acc, chosen in partial:
        if acc == real:
            return chosen
    return None


# ---------------------------------------------------------------------------------------------------------------------
# files larger than 4 GiB: every byte offset that fix computes must be 64-bit
def sparse_diff(path, size, marks):
    """compare a (possibly sparse) file with the version `marks` = {offset: bytes} over zeros, `size` bytes long, reading only the
    extents that hold data (SEEK_DATA / SEEK_HOLE); returns None when equal, else a short description of the first difference"""
    try:
        st = os.stat(path)
    except OSError:
        return 'missing'
    if st.st_size != size:
        return 'size %d instead of %d' % (st.st_size, size)
    regs = sorted(marks.items())
    fd = os.open(path, os.O_RDONLY)
    try:
        for off, b in regs:                       # the marked regions themselves
            got = os.pread(fd, len(b), off)
            if got != b:
                k = next(i for i in range(len(b)) if i >= len(got) or got[i] != b[i])
                return 'bytes at offset %d differ' % (off + k)
        pos = 0
        CH = 8 << 20
        while pos < size:                          # everything else must read as zeros: only the data extents can be non-zero
            try:
                d = os.lseek(fd, pos, os.SEEK_DATA)
            except OSError:
                break
            h = os.lseek(fd, d, os.SEEK_HOLE)
            p = d
            while p < h:
                n = min(CH, h - p)
                chunk = os.pread(fd, n, p)
                if chunk.count(0) != len(chunk):
                    ba = bytearray(chunk)
                    for off, b in regs:
                        lo, hi = max(off, p), min(off + len(b), p + len(chunk))
                        if lo < hi:
                            ba[lo - p:hi - p] = bytes(hi - lo)
                    if ba.count(0) != len(ba):
                        k = next(i for i, x in enumerate(ba) if x)
                        return 'non-zero byte at offset %d outside the written regions' % (p + k)
                p += n
            pos = h
    finally:
        os.close(fd)
    return None


def large_fix_trial(chk, binary, rng, variant, with_check=True, label='large_fix'):
    """one data file of 4 GiB + 2 blocks (SPARSE: three small regions carry bytes; 16 MiB blocks, so block 256 starts exactly at 2^32
    bytes), one parity.  variant 'damage': a byte flipped (size and time-stamp kept) in a block beyond 4 GiB and in one below;
    variant 'lost': the file deleted.  After fix the WHOLE file must be the synced version (sparse-aware streaming comparison),
    fix must say recovered and exit 0, and check must be quiet.  Returns a dict for the evidence."""
    import time
    bsk = 16384
    a = Array(binary, nd=2, np_=1, blocksize_kib=bsk)
    out = {'variant': variant}
    t0 = time.time()
    try:
        bs = a.bs
        nblk = (1 << 32) // bs + 2
        size = (nblk - 1) * bs + 1007 + 7
        p = a.path('d1', 'big')
        marks = {0 * bs + 7: rng.randbytes(4096), 255 * bs + 100: rng.randbytes(3000), 256 * bs + 7: rng.randbytes(4096), 257 * bs + 7: rng.randbytes(1000)}
        with open(p, 'wb') as f:
            for off, b in marks.items():
                f.seek(off)
                f.write(b)
            f.truncate(size)
        if os.stat(p).st_blocks * 512 > (64 << 20):
            out['skipped'] = 'the file system does not keep the file sparse'
            return out
        mt = 1700000000 * 10**9 + 12345
        os.utime(p, ns=(mt, mt))
        a.write('d2', 'small', rng.randbytes(3 * 1024))
        r = a.run('sync', timeout=900)
        if r.rc != 0:
            chk.violation(label + '_sync', 'sync of a sparse file of 4 GiB + 2 blocks (16 MiB blocks) exits %d: %s' % (r.rc, r.err[-300:]), {'kind': label}, no_input=True)
            return out
        if variant == 'damage':
            with open(p, 'r+b') as f:
                for off in (256 * bs + 7 + 10, 0 * bs + 7 + 20):
                    f.seek(off); x = f.read(1)
                    f.seek(off); f.write(bytes([x[0] ^ 0x5a]))
            os.utime(p, ns=(mt, mt))
            desc = 'one byte flipped in block 256 (offset 2^32 + 17) and one in block 0, size and time-stamp kept'
        else:
            os.unlink(p)
            desc = 'the file deleted'
        r = a.run('fix', timeout=900)
        out['fix_seconds'] = round(time.time() - t0, 1)
        bad = []
        if r.rc != 0:
            bad.append('fix exits %d (%s)' % (r.rc, (r.err.strip().splitlines() or [''])[-1][:120]))
        if not any(t == 'status:recovered:d1:big' for t in r.tags):
            bad.append('fix does not report d1/big recovered')
        d = sparse_diff(p, size, marks)
        if d is not None:
            bad.append('after fix d1/big is not the synced version: %s' % d)
        elif os.stat(p).st_mtime_ns != mt:
            bad.append('after fix d1/big has mtime %d instead of %d' % (os.stat(p).st_mtime_ns, mt))
        if with_check and not bad:
            r2 = a.run('check', timeout=900)
            t2 = [t for t in interesting(r2.tags) if not t.startswith('summary:')]
            if r2.rc != 0 or t2:
                bad.append('check after fix exits %d and reports %s' % (r2.rc, t2[:2]))
        out['seconds'] = round(time.time() - t0, 1)
        for b_ in bad[:2]:
            chk.violation(label, 'file of 4 GiB + 2 blocks of 16 MiB on d1, one parity, %s: %s' % (desc, b_), {'kind': label, 'variant': variant, 'problems': bad, 'fix_tags': interesting(r.tags)[:20]})
        out['ok'] = not bad
        return out
    finally:
        shutil.rmtree(a.root, ignore_errors=True)
