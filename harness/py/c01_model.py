"""Python side of the extracted check / fix / scrub model (coq/Fix/FixModel.v, coq/Fix/ScrubStep.v, ocaml/C01/driver.ml):
serialisation of the real pre-state, parsing of the prediction, comparison with the real run.

The pre-state given to the model is built from independent knowledge only: the content file decoded by content.py, the
bytes on the data disks, what each parity block encodes (found by decode_parity_block among the blocks ever recorded at
that position, validated with gfref), and hashes computed by the python murmur3 of c01_lib."""
import os, re
from c01_lib import *

TRUSTED = ['Coq 8.16.1 kernel',
           'hand model coq/Fix/FixModel.v of cmdline/check.c (repair, repair_step, state_check_process, file_post, block_is_enabled) and state.c state_filter, over coq/Array/ArrayDefs.v',
           'abstraction of coq/Array/ArrayDefs.v: blocks are ids, a parity block is what it encodes, reconstruction = C03 theorem, hashes a parameter',
           'extraction + ocaml/C01/driver.ml', 'harness/py/{arraylib,modelbridge,content,gfref,c01_lib,c01_model}.py (independent decoder, parity decoder/checker, murmur3, snapshot oracle)']
ASSUMPTIONS = ['hash collision-freedom on the finite set of blocks involved (recorded blocks, damaged blocks, candidate reconstructions)',
               'import directories (-i), hash migration in progress (rehash) and split parity are not in the fix model (split is C17\'s refinement)',
               'I/O errors other than missing/short files and lost/short parity are not modelled here (C08)',
               'state_search_fetch: the model reads a same-stamp candidate as it is when the search looks (FixModel.search_view); a candidate that became SHORTER than the block to read is approximated by the end of its block list',
               'parity corruption correlated between levels (e.g. two levels zero-filled, the same constant xored into two levels) can be mutually consistent and is outside "detectable damage"']
NOW = -7
JBASE = 4294967296

K = {'ERR_OPEN': 1, 'ERR_READ': 2, 'ERR_DATA': 3, 'ERR_SIZE': 4, 'FIXED_SIZE': 5, 'PAR_READ': 6, 'PAR_DATA': 7, 'PAR_TRY': 8, 'UNREC': 9,
     'UNREC_UNSYNC': 10, 'FIXED': 11, 'PAR_FIXED': 12, 'ST_RECOVERED': 13, 'ST_UNREC': 14, 'ST_RECOVERABLE': 15, 'ST_DAMAGED': 16, 'COLLISION': 17,
     'EMPTY_ERR': 20, 'EMPTY_FIXED': 21, 'HARD_ERR': 22, 'HARD_FIXED': 23, 'SYM_ERR': 24, 'SYM_FIXED': 25, 'DIR_ERR': 26, 'DIR_FIXED': 27, 'HASH_UNKNOWN': 30,
     'SC_OPEN': 40, 'SC_READ': 41, 'SC_DATA': 42, 'SC_PAR_READ': 43, 'SC_PAR_DATA': 44}
KN = {v: k for k, v in K.items()}


class ModelSide:
    def __init__(self, arr, st, model, history=False, cand_hist=None):
        self.arr, self.st, self.model = arr, st, model
        self.br = Bridge01(arr)
        self.bs = arr.bs
        self.hs = st['hashsize']
        self.seed = st['seed']
        self.hash_ok = st['hash'] == 'murmur3'
        self.hcache = {}
        self.order = {m['name']: m['pos'] for m in st['maps']}
        self.ndpos = max([arr.nd] + [p + 1 for p in self.order.values()])
        self.bypos = {p: n for n, p in self.order.items()}
        self.history = history
        self.cand_hist = cand_hist      # (disk, pos) -> set of padded blocks ever recorded there (C05 histories)
        self.rec = {}                   # (disk, sub) -> file entry
        for d, dd in st['disks'].items():
            for f in dd['files']:
                self.rec[(d, f['sub'])] = f
        self.stripes, _ = arr.stripes(st)
        if not history:
            self.br.parity_from_oracle(st)

    # --------------------------------------------------------------------------------------------- hashes
    def htok(self, bid, ln):
        k = (bid, ln)
        if k not in self.hcache:
            blk = self.br.blocks[bid]
            self.hcache[k] = self.br.hval(murmur3_x86_128(blk[:ln], self.seed)[:self.hs])
        return self.hcache[k]

    # --------------------------------------------------------------------------------------------- fs
    def ser_fs(self):
        a, br, bs = self.arr, self.br, self.bs
        toks = ['FS', str(self.ndpos)]
        self.fsblocks = {}
        for p in range(self.ndpos):
            d = self.bypos.get(p)
            if d is None:
                toks.append('X-')
                continue
            base = os.path.join(a.root, d)
            files = []
            for root, dirs, fs in os.walk(base):
                for n in fs:
                    path = os.path.join(root, n)
                    if os.path.islink(path):
                        continue
                    sub = os.fsencode(os.path.relpath(path, base))
                    st = os.stat(path)
                    data = open(path, 'rb').read()
                    f = self.rec.get((d, sub))
                    ids = []
                    if f is not None:
                        rs = f['size']
                        for idx in range((rs + bs - 1) // bs):
                            lo = idx * bs
                            if lo >= len(data):
                                break
                            ids.append(br.bid(data[lo:min(lo + bs, rs)]))
                    else:
                        ids = [br.bid(data[k:k + bs]) for k in range(0, len(data), bs)]
                    self.fsblocks[(d, sub)] = ids
                    files.append([str(br.name(d, sub)), str(len(data)), str(st.st_mtime_ns // 10**9), str(st.st_mtime_ns % 10**9), str(st.st_ino), str(len(ids))] + list(map(str, ids)))
            toks += ['X', str(len(files))]
            for f in files:
                toks += f
        return toks

    # --------------------------------------------------------------------------------------------- parity
    def parity_view(self):
        a, br = self.arr, self.br
        if not self.history:
            return br.refresh_parity_view()
        # histories: decode every block among the blocks ever recorded at that position (+ zero).  Short blocks make a
        # single level ambiguous (a 1-byte block has 256 values), so a candidate vector is preferred when it explains
        # MORE levels at once; the levels it does not explain are decoded again among the rest.
        import itertools
        self.junk = getattr(self, 'junk', 7000000)
        zero = bytes(a.bs)
        reals = [a.parity_bytes(l) for l in range(a.np)]
        npos = max([(len(r) + a.bs - 1) // a.bs for r in reals] + [0])
        par = [[] for _ in range(a.np)]
        for pos in range(npos):
            got = [r[pos * a.bs:(pos + 1) * a.bs] for r in reals]
            cands = []
            for p in range(self.ndpos):
                d = self.bypos.get(p)
                cs = []
                # the block the content file records there NOW comes first: with tiny blocks (a 1-byte block has 256 values)
                # several candidate vectors can explain one parity block; the current one is preferred, then zero, then the past
                cur = self.stripes.get(pos, {}).get(p)
                if cur is not None and cur[2] is not None:
                    v = a.find_version(cur[1], cur[2])
                    if v is not None:
                        b = v[cur[3] * a.bs:(cur[3] + 1) * a.bs]
                        cs.append(b + bytes(a.bs - len(b)))
                if zero not in cs:
                    cs.append(zero)
                if d is not None and self.cand_hist is not None:
                    cs += sorted(b for b in self.cand_hist.get((d, pos), ()) if b not in cs)
                cands.append(cs)
            todo = [l for l in range(a.np) if len(got[l]) == a.bs]
            found = {}
            ncomb = 1
            for cs in cands:
                ncomb *= len(cs)
            if ncomb <= 5000 and todo:
                # per level: the multiplied candidates, then all combinations once
                mul = {l: [[gfmul_block(parity_coeff(a, l, i), b) for b in cs] for i, cs in enumerate(cands)] for l in todo}
                expl = []
                for combo in itertools.product(*[range(len(cs)) for cs in cands]):
                    ls = []
                    for l in todo:
                        acc = zero
                        for i, k in enumerate(combo):
                            if cands[i][k] != zero:
                                acc = xor_blocks(acc, mul[l][i][k])
                        if acc == got[l]:
                            ls.append(l)
                    if ls:
                        expl.append((len(ls), combo, ls))
                expl.sort(key=lambda x: (-x[0], x[1]))
                for n, combo, ls in expl:
                    for l in ls:
                        if l not in found:
                            found[l] = combo
            for l in range(a.np):
                if len(got[l]) < a.bs:
                    if pos * a.bs < len(reals[l]) or pos < npos:
                        par[l].append(['N'])
                    continue
                if l in found:
                    par[l].append(['E%d' % self.ndpos] + [str(br.bid(cands[i][k])) for i, k in enumerate(found[l])])
                else:
                    self.junk += 1
                    par[l].append(['J%d' % self.junk])
        return par

    # --------------------------------------------------------------------------------------------- request
    def capture(self, cmd, opts):
        """everything the model needs, taken BEFORE the real command runs (except the inodes of created files)"""
        a, br, st, bs = self.arr, self.br, self.st, self.bs
        c_toks = br.ser_content(st)
        fs_toks = self.ser_fs()
        par = self.parity_view()
        self.par_before = par
        p_toks = ['P', str(a.np)]
        for lv in par:
            p_toks.append(str(len(lv)))
            for e in lv:
                p_toks += e
        # pairs (block, length) whose hash / padding the model may look at
        pairs = set()
        for pos, blocks in self.stripes.items():
            for dp, (s, d, f, i, h) in blocks.items():
                if f is None:
                    continue
                ln = min(bs, f['size'] - i * bs)
                ids = set()
                fb = self.fsblocks.get((d, f['sub']))
                if fb is not None and i < len(fb):
                    ids.add(fb[i])
                for lv in par:
                    # every block of the vectors encoded at this stripe: with plain xor parity a block that was MOVED inside
                    # the stripe can be rebuilt at another disk position (FixModel.reconstruct, xor1)
                    if pos < len(lv) and lv[pos][0][0] == 'E':
                        ids.update(int(x) for x in lv[pos][1:])
                # twins for state_search_fetch: any file with the same size and time-stamp
                for (d2, sub2), ids2 in self.fsblocks.items():
                    if i < len(ids2) and (d2, sub2) != (d, f['sub']):
                        try:
                            s2 = os.stat(os.path.join(a.root, d2, os.fsdecode(sub2)))
                        except OSError:
                            continue
                        if s2.st_size == f['size'] and s2.st_mtime_ns // 10**9 == f['sec'] and s2.st_mtime_ns % 10**9 == f['nsec']:
                            ids.add(ids2[i])
                for b in ids:
                    pairs.add((b, ln))
        h_toks, pz, tr = [], [], []
        for (b, ln) in sorted(pairs):
            if self.hash_ok:
                h_toks += [str(b), str(ln), self.htok(b, ln)]
            if ln < bs and any(br.blocks[b][ln:]):
                pz += [str(b), str(ln), '0']
                tr += [str(b), str(ln), str(br.bid(br.blocks[b][:ln]))]
        h_toks = ['H', str(len(h_toks) // 3)] + h_toks
        pz = ['PZ', str(len(pz) // 3)] + pz
        tr = ['TR', str(len(tr) // 3)] + tr
        # filters
        fd, fn, fm, fe = '-', '-', 0, 0
        fdl, fnl = [], []
        i = 0
        opts = list(opts)
        audit = 0
        bstart, bcount = 0, 0
        while i < len(opts):
            o = opts[i]
            if o == '-d':
                fdl.append(self.order.get(opts[i + 1], 999)); i += 2
            elif o == '-f':
                pat = opts[i + 1]
                for (d, sub), f in self.rec.items():
                    if os.fsdecode(sub).split('/')[-1] == pat:
                        fnl.append((self.order[d], br.name(d, sub)))
                fn = 'set'; i += 2
            elif o == '-m':
                fm = 1; i += 1
            elif o == '-e':
                fe = 1; i += 1
            elif o == '-a':
                audit = 1; i += 1
            elif o == '-S':
                bstart = int(opts[i + 1]); i += 2
            elif o == '-B':
                bcount = int(opts[i + 1]); i += 2
            else:
                i += 1
        fl = ['FL']
        fl += ['-'] if not fdl else [str(len(fdl))] + list(map(str, fdl))
        fl += ['-'] if fn == '-' else [str(len(fnl))] + [str(x) for k in fnl for x in k]
        fl += [str(fm), str(fe)]
        filt_par = bool(fdl) or fm or fn != '-'
        fix = cmd == 'fix'
        po = ['PO', str(a.np)]
        for l in range(a.np):
            exists = os.path.exists(a.parity_files[l][0])
            if audit:
                po.append('0')
            elif fix and not filt_par:
                po.append('1')
            else:
                po.append('1' if exists else '0')
        # objects
        objs = []
        for p in range(self.ndpos):
            d = self.bypos.get(p)
            if d is None:
                continue
            dd = st['disks'][d]

            def excl(sub, isdir=False):
                rel = os.fsdecode(sub)
                if fdl and p not in fdl:
                    return 1
                if fn != '-' and rel.split('/')[-1] != [opts[k + 1] for k in range(len(opts)) if opts[k] == '-f'][0]:
                    return 1
                if fm and os.path.lexists(os.path.join(a.root, d, rel)):
                    return 1
                return 0
            for f in dd['files']:
                if f['size'] == 0:
                    ex = 1 if (p, br.name(d, f['sub'])) in [] else 0
                    objs += [str(p), 'E', str(br.name(d, f['sub'])), '0', '1', 'X%d' % br.name(d, f['sub'])]
            for lk in dd['links']:
                path = os.path.join(a.root, d, os.fsdecode(lk['sub']))
                if lk['hard']:
                    objs += [str(p), 'H', str(br.name(d, lk['sub'])), str(br.name(d, lk['to'])), '1', str(excl(lk['sub']))]
                else:
                    try:
                        ok = os.readlink(path) == os.fsdecode(lk['to'])
                    except OSError:
                        ok = False
                    objs += [str(p), 'S', str(br.name(d, lk['sub'])), '0', '1' if ok else '0', str(excl(lk['sub']))]
            for dr in dd['dirs']:
                path = os.path.join(a.root, d, os.fsdecode(dr))
                objs += [str(p), 'D', str(br.name(d, dr)), '0', '1' if (os.path.isdir(path)) else '0', str(excl(dr, True))]
        self._objs = objs
        # state_check: blocks blockstart .. min(blockmax, blockstart + blockcount) - 1 (-S / -B); a start beyond the end is fatal
        bmax = st['blockmax']
        if bcount != 0 and bstart + bcount < bmax:
            bmax = bstart + bcount
        rng_ = list(range(min(bstart, bmax), bmax))
        pos = ['POS', str(len(rng_))] + list(map(str, rng_))
        head = ['run', cmd, str(bs), str(a.np), '1' if self.hs != 16 else '0', str(NOW), str(audit), str(fe), str(fe), str(audit)]
        return {'head': head, 'mid': h_toks + pz + tr + c_toks + p_toks + fs_toks + fl + po, 'pos': pos, 'cmd': cmd, 'opts': opts, 'audit': audit}

    def predict(self, cmd, opts):
        if cmd == 'scrub':
            a, br, st = self.arr, self.br, self.st
            c_toks = br.ser_content(st)
            fs_toks = self.ser_fs()
            par = self.parity_view()
            p_toks = ['P', str(a.np)]
            for lv in par:
                p_toks.append(str(len(lv)))
                for e in lv:
                    p_toks += e
            pairs = set()
            for pos, blocks in self.stripes.items():
                for dp, (s, d, f, i, h) in blocks.items():
                    if f is None:
                        continue
                    fb = self.fsblocks.get((d, f['sub']))
                    if fb is not None and i < len(fb):
                        pairs.add((fb[i], min(self.bs, f['size'] - i * self.bs)))
            h = []
            for (b, ln) in sorted(pairs):
                h += [str(b), str(ln), self.htok(b, ln)]
            sel = [p for p, i in enumerate(st['info']) if i is not None]
            req = ['scrub', str(self.bs), str(a.np), '100', 'H', str(len(h) // 3)] + h + c_toks + p_toks + fs_toks + ['POS', str(len(sel))] + list(map(str, sel))
            return {'cmd': 'scrub', 'req': req, 'opts': list(opts)}
        return self.capture(cmd, opts)

    def run_model(self, cap):
        a, br = self.arr, self.br
        if cap['cmd'] == 'scrub':
            out = run_lines(self.model, [' '.join(cap['req'])], shards=1)[0]
            return out
        # the excluded flag of empty files follows the file filters: the model computes it itself for files, here we only pass
        # the object list; empty files use ob_excl = is the file excluded -> ask through a marker resolved below
        objs = list(self._objs)
        ni = []
        for (d, sub), f in self.rec.items():
            p = os.path.join(a.root, d, os.fsdecode(sub))
            if os.path.isfile(p) and not os.path.islink(p):
                ni += [str(self.order[d]), str(br.name(d, sub)), str(os.stat(p).st_ino)]
            elif os.path.isfile(p + '.unrecoverable'):
                ni += [str(self.order[d]), str(br.name(d, sub)), str(os.stat(p + '.unrecoverable').st_ino)]
        excl_files = self.excluded_files(cap)
        fixed_objs = []
        for k in range(0, len(objs), 6):
            o = objs[k:k + 6]
            if o[5].startswith('X'):
                o[5] = '1' if (int(o[0]), int(o[5][1:])) in excl_files else '0'
            fixed_objs += o
        req = cap['head'] + cap['mid'] + ['OBJ', str(len(fixed_objs) // 6)] + fixed_objs + cap['pos'] + ['NI', str(len(ni) // 3)] + ni
        self.last_req = ' '.join(req)
        return run_lines(self.model, [self.last_req], shards=1)[0]

    def excluded_files(self, cap):
        """(disk position, name id) of the data files the filters exclude (mirror of what the harness already knows)"""
        opts = cap['opts']
        out = set()
        st = self.st
        for (d, sub), f in self.rec.items():
            rel = os.fsdecode(sub)
            ex = False
            i = 0
            while i < len(opts):
                o = opts[i]
                if o == '-d':
                    ex = ex or d != opts[i + 1]; i += 2
                elif o == '-f':
                    ex = ex or rel.split('/')[-1] != opts[i + 1]; i += 2
                elif o == '-m':
                    ex = ex or (d, sub) in self.fsblocks; i += 1
                elif o == '-e':
                    ex = ex or not any(st['info'][pos] and st['info'][pos]['bad'] for s, pos, h in f['blocks'] if pos < len(st['info'])); i += 1
                else:
                    i += 1
            if ex:
                out.add((self.order[d], self.br.name(d, sub)))
        return out

    # --------------------------------------------------------------------------------------------- comparison
    def real_tags(self, r, cmd):
        """the real log lines of the kinds the model emits, as (kind, args) tuples"""
        br = self.br
        names = {}
        out = []
        lev = {n: i for i, n in enumerate(LEVNAME)}

        def nm(d, s):
            return br.name(d, s.encode('latin1'))
        for t in r.tags:
            m = re.match(r'^error:(\d+):([^:]+):(.*): (Open error|Read error|Data error) at position (\d+)', t, re.S)
            if m:
                k = {'Open error': 'ERR_OPEN', 'Read error': 'ERR_READ', 'Data error': 'ERR_DATA'}[m.group(4)]
                if cmd == 'scrub':
                    k = {'ERR_READ': 'SC_READ', 'ERR_DATA': 'SC_DATA', 'ERR_OPEN': 'SC_OPEN'}[k]
                out.append((K[k], (int(m.group(1)), self.order[m.group(2)], nm(m.group(2), m.group(3)), int(m.group(5)))))
                continue
            m = re.match(r'^error:(\d+):([^:]+):(.*): Open error\. ', t, re.S)
            if m and cmd == 'scrub':
                out.append((K['SC_OPEN'], (int(m.group(1)), self.order[m.group(2)], nm(m.group(2), m.group(3)))))
                continue
            m = re.match(r'^error:(\d+):([^:]+):(.*): Size error', t, re.S)
            if m:
                out.append((K['ERR_SIZE'], (int(m.group(1)), self.order[m.group(2)], nm(m.group(2), m.group(3)))))
                continue
            m = re.match(r'^fixed:(\d+):([^:]+):(.*): Fixed size', t, re.S)
            if m:
                out.append((K['FIXED_SIZE'], (int(m.group(1)), self.order[m.group(2)], nm(m.group(2), m.group(3)))))
                continue
            m = re.match(r'^fixed:(\d+):([^:]+):(.*): Fixed data error at position (\d+)', t, re.S)
            if m:
                out.append((K['FIXED'], (int(m.group(1)), self.order[m.group(2)], nm(m.group(2), m.group(3)), int(m.group(4)))))
                continue
            m = re.match(r'^unrecoverable:(\d+):([^:]+):(.*): Unrecoverable (unsynced )?error at position (\d+)', t, re.S)
            if m:
                out.append((K['UNREC_UNSYNC' if m.group(4) else 'UNREC'], (int(m.group(1)), self.order[m.group(2)], nm(m.group(2), m.group(3)), int(m.group(5)))))
                continue
            m = re.match(r'^parity_error:(\d+):([^:]+): (Read error|Data error)', t)
            if m:
                if cmd == 'scrub':
                    out.append((K['SC_PAR_READ' if m.group(3) == 'Read error' else 'SC_PAR_DATA'], (int(m.group(1)), lev[m.group(2)])))
                else:
                    out.append((K['PAR_READ' if m.group(3) == 'Read error' else 'PAR_DATA'], (int(m.group(1)), lev[m.group(2)])))
                continue
            m = re.match(r'^parity_error:(\d+):([^:]+):(hash|parity): ', t)
            if m:
                out.append((K['PAR_TRY'], (int(m.group(1)), 1 if m.group(3) == 'hash' else 0) + tuple(lev[x] for x in m.group(2).split('/'))))
                continue
            m = re.match(r'^parity_fixed:(\d+):([^:]+): ', t)
            if m:
                out.append((K['PAR_FIXED'], (int(m.group(1)), lev[m.group(2)])))
                continue
            m = re.match(r'^status:(recovered|unrecoverable|recoverable|damaged):([^:]+):(.*)$', t, re.S)
            if m:
                k = {'recovered': 'ST_RECOVERED', 'unrecoverable': 'ST_UNREC', 'recoverable': 'ST_RECOVERABLE', 'damaged': 'ST_DAMAGED'}[m.group(1)]
                out.append((K[k], (self.order[m.group(2)], nm(m.group(2), m.group(3)))))
                continue
            m = re.match(r'^collision:([^:]+):(.*):(.*): Not setting', t, re.S)
            if m:
                out.append((K['COLLISION'], (self.order[m.group(1)], nm(m.group(1), m.group(2)), nm(m.group(1), m.group(3)))))
                continue
            m = re.match(r'^error:([^:0-9][^:]*):(.*): Empty file', t, re.S)
            if m:
                out.append((K['EMPTY_ERR'], (self.order[m.group(1)], nm(m.group(1), m.group(2)))))
                continue
            m = re.match(r'^fixed:([^:0-9][^:]*):(.*): Fixed empty file', t, re.S)
            if m:
                out.append((K['EMPTY_FIXED'], (self.order[m.group(1)], nm(m.group(1), m.group(2)))))
                continue
            m = re.match(r'^hardlink_error:([^:]+):(.*):(.*): Hardlink', t, re.S)
            if m:
                out.append((K['HARD_ERR'], (self.order[m.group(1)], nm(m.group(1), m.group(2)))))
                continue
            m = re.match(r'^(hardlink|symlink|dir)_fixed:([^:]+):(.*): Fixed', t, re.S)
            if m:
                out.append((K[{'hardlink': 'HARD_FIXED', 'symlink': 'SYM_FIXED', 'dir': 'DIR_FIXED'}[m.group(1)]], (self.order[m.group(2)], nm(m.group(2), m.group(3)))))
                continue
            m = re.match(r'^symlink_error:([^:]+):(.*): Symlink', t, re.S)
            if m:
                out.append((K['SYM_ERR'], (self.order[m.group(1)], nm(m.group(1), m.group(2)))))
                continue
            m = re.match(r'^dir_error:([^:]+):(.*): Dir', t, re.S)
            if m:
                out.append((K['DIR_ERR'], (self.order[m.group(1)], nm(m.group(1), m.group(2)))))
                continue
        return out

    def parse_tags(self, toks, i):
        assert toks[i] == 'TAGS'
        n = int(toks[i + 1]); i += 2
        out = []
        for _ in range(n):
            k = int(toks[i]); na = int(toks[i + 1]); i += 2
            out.append((k, tuple(int(x) for x in toks[i:i + na]))); i += na
        return out, i

    def compare(self, cap, r, cmd, opts=()):
        """run the model on the captured pre-state and compare with the real run; returns list of differences"""
        if cap is None:
            return []
        out = self.run_model(cap)
        if not out.startswith('ok '):
            return ['model failed: %s' % out[:200]]
        toks = out.split()
        diffs = []
        desc = lambda t: '%s%s' % (KN.get(t[0], t[0]), t[1])
        if cmd == 'scrub':
            fail, bailed = int(toks[1]), int(toks[2])
            i = 3
            assert toks[i] == 'BAD'
            nb = int(toks[i + 1]); bad = [int(x) for x in toks[i + 2:i + 2 + nb]]; i += 2 + nb
            assert toks[i] == 'REF'
            nr = int(toks[i + 1]); ref = [int(x) for x in toks[i + 2:i + 2 + nr]]; i += 2 + nr
            assert toks[i] == 'CNT'
            cnt = [int(x) for x in toks[i + 1:i + 4]]; i += 4
            mt, i = self.parse_tags(toks, i)
            rt = self.real_tags(r, 'scrub')
            if sorted(mt) != sorted(rt):
                diffs.append('scrub tags: model %s, real %s' % (sorted(set(map(desc, mt)) - set(map(desc, rt))), sorted(set(map(desc, rt)) - set(map(desc, mt)))))
            if bool(fail) != (r.rc != 0):
                diffs.append('scrub exit: model fail=%d real rc=%d' % (fail, r.rc))
            sm = r.summary()
            realcnt = [int(sm.get('error_file', -1)), int(sm.get('error_data', -1)), int(sm.get('error_io', -1))]
            if realcnt != cnt:
                diffs.append('scrub counters (file, data, io): model %s real %s' % (cnt, realcnt))
            try:
                st2 = self.arr.content()
                before = [p for p, x in enumerate(self.st['info']) if x and x['bad']]
                exp = sorted((set(before) - set(ref)) | set(bad))
                marked = [p for p, x in enumerate(st2['info']) if x and x['bad']]
                if marked != exp:
                    diffs.append('bad marks after scrub: model %s real %s' % (exp, marked))
            except Exception as e:
                diffs.append('content after scrub unreadable: %s' % e)
            return diffs
        fail, err, rec, unrec = int(toks[1]), int(toks[2]), int(toks[3]), int(toks[4])
        mt, i = self.parse_tags(toks, 5)
        mt = [t for t in mt if t[0] != K['HASH_UNKNOWN']]
        rt = self.real_tags(r, cmd)
        if sorted(mt) != sorted(rt):
            from collections import Counter
            cm, cr = Counter(mt), Counter(rt)
            diffs.append('tags only in the model: %s; only in the real run: %s' % (sorted(map(desc, (cm - cr).elements()))[:6], sorted(map(desc, (cr - cm).elements()))[:6]))
        if bool(fail) != (r.rc != 0):
            diffs.append('exit status: model fail=%d real rc=%d' % (fail, r.rc))
        sm = r.summary()
        if int(sm.get('error', -1)) != err:
            diffs.append('summary:error model %d real %s' % (err, sm.get('error')))
        if cmd == 'fix' and int(sm.get('error_recovered', -1)) != rec:
            diffs.append('summary:error_recovered model %d real %s' % (rec, sm.get('error_recovered')))
        if not cap.get('audit') and int(sm.get('error_unrecoverable', -1)) != unrec:
            diffs.append('summary:error_unrecoverable model %d real %s' % (unrec, sm.get('error_unrecoverable')))
        if cmd == 'fix':
            diffs += self.compare_fs(toks, i)
        return diffs

    def compare_fs(self, toks, i):
        """the data files after the real fix vs the model's file system (recorded files only)"""
        a, br, bs = self.arr, self.br, self.bs
        diffs = []
        assert toks[i] == 'FS'
        nd = int(toks[i + 1]); i += 2
        model = {}
        for p in range(nd):
            if toks[i] == 'X-':
                i += 1
                continue
            nf = int(toks[i + 1]); i += 2
            for _ in range(nf):
                name, size, mt, ns, ino, nb = (int(x) for x in toks[i:i + 6]); i += 6
                model[(p, name)] = (size, mt, ns, [int(x) for x in toks[i:i + nb]]); i += nb
        self.model_par_index = i
        for (d, sub), f in self.rec.items():
            key = (self.order[d], br.name(d, sub))
            path = os.path.join(a.root, d, os.fsdecode(sub))
            m = model.get(key)
            real = open(path, 'rb').read() if (os.path.isfile(path) and not os.path.islink(path)) else None
            if (m is None) != (real is None):
                diffs.append('%s:%s after fix: model says %s, real %s' % (d, os.fsdecode(sub), 'absent' if m is None else 'present', 'absent' if real is None else 'present'))
                continue
            if m is None:
                continue
            if m[0] != len(real):
                diffs.append('%s:%s size after fix: model %d real %d' % (d, os.fsdecode(sub), m[0], len(real)))
                continue
            rs = f['size']
            for idx, b in enumerate(m[3]):
                lo = idx * bs
                chunk = real[lo:min(lo + bs, max(rs, lo))] if lo < rs else real[lo:lo + bs]
                if b >= JBASE:
                    continue
                if br.bid(chunk) != b:
                    diffs.append('%s:%s block %d after fix differs from the model' % (d, os.fsdecode(sub), idx))
                    break
            rst = os.stat(path)
            restored_real = (rst.st_mtime_ns // 10**9 == f['sec'] and rst.st_mtime_ns % 10**9 == f['nsec'])
            restored_model = (m[1] == f['sec'] and m[2] == f['nsec'])
            if restored_real != restored_model:
                diffs.append('%s:%s mtime after fix: model %s, real %s' % (d, os.fsdecode(sub), 'recorded' if restored_model else 'not recorded', 'recorded' if restored_real else 'not recorded'))
        # parity after fix
        toksp = toks[self.model_par_index:]
        if toksp and toksp[0] == 'P':
            mp, _ = br.parse_parity(toksp, 0)
            for l in range(min(a.np, len(mp))):
                realp = a.parity_bytes(l)
                for pos, e in enumerate(mp[l]):
                    got = realp[pos * bs:(pos + 1) * bs]
                    if e[0][0] == 'E':
                        ids = [int(x) for x in e[1:]]
                        if any(x >= JBASE for x in ids):
                            continue
                        v = [br.blocks[x] for x in ids]
                        mode = 'z' if (a.zmode and l < 3) else 'c'
                        acc = bytes(bs)
                        for k, blk in enumerate(v):
                            acc = xor_blocks(acc, gfmul_block(parity_coeff(a, l, k), blk))
                        if len(got) == bs and got != acc:
                            diffs.append('parity level %d pos %d after fix is not what the model says it encodes' % (l, pos))
                            break
        return diffs
