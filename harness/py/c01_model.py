"""Python side of the extracted fix/check/scrub model (coq/Fix/FixModel.v, ocaml/C01/driver.ml): serialisation of the
real pre-state, parsing of the prediction, comparison with the real run."""
import os
from c01_lib import *

TRUSTED = ['Coq 8.16.1 kernel',
           'hand model coq/Fix/FixModel.v of cmdline/check.c (repair, repair_step, state_check_process, file_post) over coq/Array/ArrayDefs.v',
           'abstraction of coq/Array/ArrayDefs.v: blocks are ids, a parity block is what it encodes, reconstruction = C03 theorem, hashes a parameter',
           'extraction + ocaml/C01/driver.ml', 'harness/py/{arraylib,modelbridge,content,gfref,c01_lib,c01_model}.py (independent decoder, parity checker, snapshot oracle)']
ASSUMPTIONS = ['hash collision-freedom on the finite set of blocks involved (recorded blocks, damaged blocks, candidate reconstructions)',
               'import directories (-i), hash migration in progress (rehash) and split parity are not in the fix model (split is C17\'s refinement)',
               'I/O errors other than missing/short files and lost/short parity are not modelled here (C08)']


class ModelSide:
    def __init__(self, arr, st, model):
        self.arr, self.st, self.model = arr, st, model

    def predict(self, cmd, opts):
        return None

    def compare(self, pred, r, cmd):
        return []
