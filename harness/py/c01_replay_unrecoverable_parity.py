#!/usr/bin/env python3
"""Replay on the real binary of the model witness C04_unrecoverable_stripe_parity_error_not_reported_witness
(coq/Props/Properties_C04_run.v, coq/Fix/RunExamples.v rx_unrecoverable_stripe_no_parity_error).

Array: 2 data disks, 2 parity levels, 1 KiB blocks; d1/a = 2560 bytes (stripes 0-2), d2/b = 2048 bytes (stripes 0-1).
Damage: block 0 of a silently corrupted, b deleted, the 2-parity block of stripe 0 overwritten: stripe 0 has two damaged data
blocks and one intact level, so it is unrecoverable.  Expected (= what the model computes): the two data errors of stripe 0,
`unrecoverable` for both, the Open error of b at stripe 1, exit 1 -- and NO `parity_error:0:2-parity: Data error` line: check
compares the parity only with data it could repair.  This is why `recoverable` is a hypothesis of C04_check_run_exact.
Usage: python3 harness/py/c01_replay_unrecoverable_parity.py   (exit 0 = the binary agrees with the model)"""
import sys, os
sys.path.insert(0, os.path.dirname(os.path.abspath(__file__)))
from common import *
from arraylib import Array

def main():
    snap = snapshot_repo()
    tool = build_tool(snap, hooks=False)
    a = Array(tool, nd=2, np_=2, blocksize_kib=1)
    A = bytes([1]) * 1024 + bytes([2]) * 1024 + bytes([3]) * 512
    B = bytes([4]) * 1024 + bytes([5]) * 1024
    a.write('d1', 'a', A, mtime_ns=100 * 10**9)
    a.write('d2', 'b', B, mtime_ns=100 * 10**9)
    assert a.run('sync').rc == 0
    a.write('d1', 'a', bytes([9]) * 1024 + A[1024:], mtime_ns=100 * 10**9)
    a.remove('d2', 'b')
    with open(a.parity_files[1][0], 'r+b') as f:
        f.seek(0)
        f.write(bytes([0x5a]) * 1024)
    r = a.run('check')
    lines = [t for t in r.tags if t.startswith(('error:', 'parity_error:', 'unrecoverable:'))]
    for t in lines:
        print(' ', t)
    located = [t.split(' ')[0] + ' ' + ' '.join(t.split(' ')[1:3]) for t in lines if t.startswith('error:') or (t.startswith('parity_error:') and 'Data error' in t)]
    want = ['error:0:d1:a: Data error', 'error:0:d2:b: Open error', 'error:1:d2:b: Open error']
    ok = r.rc == 1 and located == want and sum(t.startswith('unrecoverable:0:') for t in lines) == 2
    print('located:', located)
    print('PASS' if ok else 'MISMATCH with the model witness')
    return 0 if ok else 1

if __name__ == '__main__':
    sys.exit(main())
