"""C02 extension -- the PORTABLE generators of raid/int.c, raid/intz.c (and the word helpers of raid/gf.h) tied to the
specification by TRANSLATION.

run(chk, snap, drv) is called by check_C02.py before check_obligations('C02'):
  (i)   harness/gen/intc.py regenerates coq/Gen/IntProgs.v from the snapshot (rewritten only when it changes);
  (ii)  coq/Props/Properties_C02_int.vo is built (checker = true for every generated program, gen_int_correct);
        the lead's check_obligations('C02') re-checks the same file through the Properties_C02_*.v glob;
  (iii) the extracted interpreter IntSem.exec_prog runs every generated program against the real function (through
        harness/c/raid_drv.c, command `gen`) and the independent reference harness/py/gfref.py;
  verdicts: C differs from the reference -> violation with the input; interpreter differs from C while C is right ->
  MODEL-DRIFT (translator / word semantics no longer describe the compiled code); the checker rejects a function or the
  translator does not recognise it -> the harness searches a larger family of stripes for one where the real function
  differs from the reference and reports it as the replay; when none exists -> violation (no input) naming the
  function, the theorem and what the abstract interpreter saw.
chk.cov['int'] records which functions were translated / proved / rejected / untranslated."""
import os, sys, time, io, contextlib
from common import *
import gfref

sys.path.insert(0, os.path.join(VERIF, 'harness', 'gen'))
import intc

NDS = [1, 2, 3, 32, 33, 250, 251]
PROP_VO = 'Props/Properties_C02_int.vo'
# (function, np, mode): gen3_int8 reads raid_gfgen, so it also exists in z mode (3 Vandermonde-style rows)
VARIANTS = [('gen1_int32', 1, 'c'), ('gen1_int64', 1, 'c'), ('gen2_int32', 2, 'c'), ('gen2_int64', 2, 'c'),
            ('gen3_int8', 3, 'c'), ('gen3_int8', 3, 'z'), ('gen4_int8', 4, 'c'), ('gen5_int8', 5, 'c'), ('gen6_int8', 6, 'c'),
            ('genz_int32', 3, 'z'), ('genz_int64', 3, 'z')]


def refmode(np_, mode):
    return mode if np_ >= 3 else 'c'


def pattern(nd, size, kind, rng):
    if kind == 'basis':      # every disk sees every byte value, at a different place for every disk
        return [bytes(((c + 37 * i) & 255) for c in range(size)) for i in range(nd)]
    if kind == 'basis2':     # values permuted so that each value meets other lanes of the 32/64-bit words
        return [bytes((((c * 9 + (c >> 5)) ^ (i * 11)) & 255) for c in range(size)) for i in range(nd)]
    if kind == 'ones':
        return [b'\xff' * size for i in range(nd)]
    if kind == 'onehot':     # a single non-zero disk holding every byte value
        k = rng.randrange(nd)
        return [bytes(c & 255 for c in range(size)) if i == k else bytes(size) for i in range(nd)]
    if kind == 'first':      # only disk 0 / only the last disk non-zero: the two ends of the disk loop
        return [bytes((c * 7 + 1) & 255 for c in range(size)) if i == 0 else bytes(size) for i in range(nd)]
    if kind == 'last':
        return [bytes((c * 5 + 3) & 255 for c in range(size)) if i == nd - 1 else bytes(size) for i in range(nd)]
    if kind == 'lanes':      # distinct values in the 8 lanes of a word, high bits set (carries of the SWAR trick)
        return [bytes(((0x80 >> (c % 8)) | ((c // 8 + i) & 0x7f) | (0x01 if (c + i) % 3 == 0 else 0)) & 255 for c in range(size)) for i in range(nd)]
    return [bytes(rng.getrandbits(8) for _ in range(size)) for i in range(nd)]


def case_line(fn, mode, nd, np_, data):
    return 'gen %s %s %d %d %d %s' % (fn, mode, nd, np_, len(data[0]), b''.join(data).hex())


def regen_progs(snap):
    """(i) run the translator; returns its messages"""
    outp = os.path.join(COQ, 'Gen', 'IntProgs.v')
    buf = io.StringIO()
    with CoqLock():
        with contextlib.redirect_stdout(buf):
            intc.main(snap, outp)
    return [l for l in buf.getvalue().splitlines() if l.strip()]


def search_failing(chk, drv, fn, np_, mode):
    """a larger family of stripes for one function: returns (line, got, expected, nd, kind) of the first one where the
    real function differs from the reference, or None"""
    rng = chk.rng
    cases = []
    for nd in [1, 2, 3, 4, 5, 8, 16, 32, 33, 64, 128, 250, 251]:
        for kind in ('first', 'last', 'lanes', 'basis', 'basis2', 'ones', 'onehot', 'random'):
            size = 256 if kind.startswith('basis') or kind == 'onehot' else 64
            if nd > 64:
                size = 64
            data = pattern(nd, size, kind, rng)
            cases.append((nd, kind, data, case_line(fn, mode, nd, np_, data)))
    outs = run_lines(drv, [c[3] for c in cases])
    for (nd, kind, data, line), a in zip(cases, outs):
        if a == 'skip':
            return None
        ref = 'ok ' + b''.join(gfref.gen(refmode(np_, mode), np_, data)).hex()
        if a != ref:
            return (line, a, ref, nd, kind)
    return None


def run(chk, snap, drv):
    t0 = time.time()
    info = {'translated': [], 'proved': [], 'rejected': [], 'untranslated': []}
    chk.cov['int'] = info
    # ---- (i) translation
    try:
        msgs = regen_progs(snap)
    except Exception as e:      # the translator itself broke: nothing below is meaningful
        chk.violation('int_translator', 'harness/gen/intc.py failed on raid/int.c, raid/intz.c, raid/gf.h: %r' % (e,), {'error': repr(e)}, no_input=True)
        return
    info['translator_messages'] = msgs
    # ---- extracted interpreter + checker (compiles IntDefs/IntSem/IntCheck and the generated file)
    try:
        model = build_model('Extract/Extract_C02int.vo', 'ocaml/C02int', 'c02int_ext', 'driver.ml', 'model')
    except BuildError as e:
        chk.violation('int_model', 'the programs generated from raid/int.c, raid/intz.c do not build: ' + str(e)[-400:],
                      {'error': str(e)[-3000:], 'translator': msgs}, no_input=True)
        return
    verdict = dict(x.split('=') for x in run_lines(model, ['check'], shards=1)[0].split())
    for name, v in verdict.items():
        if v == 'UNTRANSLATED':
            info['untranslated'].append(name)
        else:
            info['translated'].append(name)
            info['proved' if v == 'proved' else 'rejected'].append(name)
    # ---- (ii) the obligations
    ok, log = coq_make([PROP_VO])
    ok = ok and os.path.exists(os.path.join(COQ, PROP_VO))
    info['obligations_file'] = 'coq/' + PROP_VO[:-1]
    info['obligations_ok'] = ok
    if not ok:
        info['proved'] = []
    # ---- (iii) interpreter vs compiled C vs reference
    rng = chk.rng
    nds = NDS + [rng.randrange(4, 32), rng.randrange(34, 250)]
    kinds = ['basis', 'lanes', 'random'] if chk.tier == 'quick' else ['basis', 'basis2', 'lanes', 'first', 'last', 'ones', 'onehot', 'random']
    cases = []
    for nd in nds:
        for kind in kinds:
            size = 256 if kind.startswith('basis') and nd <= 33 else rng.choice([64, 128, 192]) if nd <= 33 else 64
            data = pattern(nd, size, kind, rng)
            for fn, np_, mode in VARIANTS:
                cases.append((fn, np_, mode, nd, kind, data, case_line(fn, mode, nd, np_, data)))
    lines = [c[6] for c in cases]
    co = run_lines(drv, lines)
    mo = run_lines(model, lines)
    refcache = {}
    c_bad = {}
    reproduced = {}
    drift = {}
    ran = 0
    for (fn, np_, mode, nd, kind, data, line), a, b in zip(cases, co, mo):
        if a == 'skip':
            continue
        ran += 1
        key = (refmode(np_, mode), np_, id(data))
        if key not in refcache:
            refcache[key] = 'ok ' + b''.join(gfref.gen(key[0], np_, data)).hex()
        ref = refcache[key]
        if a != ref:
            c_bad.setdefault(fn, []).append((nd, kind, mode, line, a, ref))
            reproduced[fn] = reproduced.get(fn, True) and (b == a)
        elif b != a and b != 'skip':
            drift.setdefault(fn, []).append((nd, kind, mode, line, a, b))
    notproved = set(n[5:] for n in info['rejected'] + info['untranslated'])
    for fn, l in list(c_bad.items())[:6]:
        nd, kind, mode, line, a, ref = l[0]
        chk.violation('int_gen_%s_nd%d' % (fn, nd),
                      'raid_%s (mode %s, nd=%d, %s data) does not compute the GF(2^8) matrix product: got %s...%s' %
                      (fn, mode, nd, kind, a[:40], ' [its proof obligation C02_int_%s (checker = true) also fails]' % fn if fn in notproved else ''),
                      {'driver': 'harness/c/raid_drv.c', 'case_line': line, 'got': a, 'expected': ref, 'failing_cases': len(l)})
    for fn, l in list(drift.items())[:6]:
        nd, kind, mode, line, a, b = l[0]
        chk.violation('int_drift_%s_nd%d' % (fn, nd),
                      'MODEL-DRIFT: the program translated from raid_%s, run by the extracted word-level interpreter, disagrees with the '
                      'compiled function on nd=%d (%s data) although the compiled function matches the reference' % (fn, nd, kind),
                      {'case_line': line, 'c': a, 'interpreter': b, 'failing_cases': len(l)}, no_input=True)
    # ---- a rejected / untranslated function whose standard cases all passed: search for a failing stripe
    searched = {}
    for n in info['rejected'] + info['untranslated']:
        fn = n[5:]
        if fn in c_bad:
            continue
        why = run_lines(model, ['why ' + n], shards=1)[0]
        hit = None
        for f2, np_, mode in VARIANTS:
            if f2 == fn and hit is None:
                hit = search_failing(chk, drv, fn, np_, mode)
                if hit:
                    hit = hit + (mode,)
        searched[fn] = bool(hit)
        what = ('the translator does not recognise %s (%s)' % (n, why) if n in info['untranslated'] else
                'the checker of gen_int_correct rejects the program translated from %s' % n)
        if hit:
            line, a, ref, nd, kind, mode = hit
            chk.violation('int_gen_%s_nd%d' % (fn, nd),
                          'raid_%s (mode %s, nd=%d, %s data) does not compute the GF(2^8) matrix product: got %s... '
                          '[found by the search started because %s; theorem C02_int_%s of coq/%s]' %
                          (fn, mode, nd, kind, a[:40], what, fn, PROP_VO[:-1]),
                          {'driver': 'harness/c/raid_drv.c', 'case_line': line, 'got': a, 'expected': ref, 'abstract_state': why})
        else:
            chk.violation('int_obligation_' + n,
                          'proof obligation broken: %s (coq/%s, theorem C02_int_%s); the real function matches the reference on every '
                          'stripe tried (%d standard + the extended search). %s' %
                          (what, PROP_VO[:-1], fn, sum(1 for c in cases if c[0] == fn),
                           '' if n in info['untranslated'] else 'Abstract interpretation saw: ' + why[:1500]),
                          {'theorem_file': 'coq/' + PROP_VO[:-1], 'function': n, 'abstract_state': why, 'log_tail': log[-1500:]}, no_input=True)
    if not ok and not info['rejected'] and not info['untranslated']:
        chk.violation('int_obligation', 'proof obligations of coq/%s no longer check: %s' % (PROP_VO[:-1], log[-600:]),
                      {'theorem_file': 'coq/' + PROP_VO[:-1], 'log_tail': log[-3000:]}, no_input=True)
    info.update({'interpreter_vs_c_cases': ran, 'c_vs_reference_mismatching_functions': sorted(c_bad),
                 'interpreter_drift_functions': sorted(drift),
                 'interpreter_reproduces_the_wrong_output_of': sorted(f for f, v in reproduced.items() if v),
                 'failing_stripe_search': searched, 'nds': nds, 'kinds': kinds, 'wall_s': round(time.time() - t0, 2),
                 'rule': 'every translated portable generator (gen3_int8 in both table modes) x nd in %s x contents %s' % (nds, kinds)})
    chk.assumptions += ['portable generators raid_gen*_int*: tied by translation (harness/gen/intc.py: a parser for the C subset they are '
                        'written in, helpers x2/d2 translated from gf.h) + word semantics coq/IntC/IntSem.v (little-endian, unsigned '
                        'wrap-around), both validated against the compiled functions on every run; unaligned/aliased buffers, '
                        'size %% step != 0 (overrun) and integer types other than the recognised declarations are outside the model']


if __name__ == '__main__':      # stand-alone trial (no evidence file is written)
    tier = sys.argv[1] if len(sys.argv) > 1 else 'quick'
    c = Check('C02', tier, 'proof')
    s = snapshot_repo()
    regen(s)          # also records the snapshot: every coq_make re-generates coq/Gen/*.v from it under the lock
    d = build_driver(s, 'raid_drv.c', RAID_SRCS, 'raid_drv')
    t = time.time()
    run(c, s, d)
    import json
    print(json.dumps(c.cov['int'], indent=1)[:3000])
    for what, p, noinp in c.violations:
        print('VIOLATION%s: %s' % (' (no input)' if noinp else '', what[:900]))
        os.remove(p)
    print('wall %.1f s' % (time.time() - t))
