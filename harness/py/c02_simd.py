"""C02 extension -- the SIMD generators of raid/x86.c, raid/x86z.c tied to the specification by TRANSLATION.

run(chk, snap, drv) is called by check_C02.py before check_obligations('C02'):
  (i)   harness/gen/x86asm.py regenerates coq/Gen/X86Progs.v from the snapshot (rewritten only when it changes);
  (ii)  coq/Props/Properties_C02_simd.vo is built (checker = true for every generated program, gen_simd_correct);
        the lead's check_obligations('C02') re-checks the same file through the Properties_C02_*.v glob;
  (iii) the extracted interpreter SimdSem.exec_prog runs every generated program against the real function (through
        harness/c/raid_drv.c) and the independent reference harness/py/gfref.py on the complete per-disk byte basis;
  verdicts: C differs from the reference -> violation with the input; interpreter differs from C while C is right ->
  MODEL-DRIFT (translator / SIMD semantics no longer describe the silicon); a proof obligation broke and no failing
  input exists -> violation naming the function and what the abstract interpreter saw.
chk.cov['simd'] records which functions were translated / proved / rejected / fell back to correspondence only."""
import os, sys, time, io, contextlib
from common import *
import gfref

sys.path.insert(0, os.path.join(VERIF, 'harness', 'gen'))
import x86asm

NDS = [1, 2, 3, 4, 31, 32, 250, 251]
PROP_VO = 'Props/Properties_C02_simd.vo'


def np_of(fn):
    return {'1': 1, '2': 2, 'z': 3, '3': 3, '4': 4, '5': 5, '6': 6}[fn[3]]


def mode_of(fn):
    return 'z' if fn.startswith('genz') else 'c'


def basis(nd, size):
    """every disk sees every byte value, at a different place for every disk"""
    return [bytes(((c + 37 * i) & 255) for c in range(size)) for i in range(nd)]


def basis2(nd, size):
    """every byte value again, meeting other lanes and other neighbours in the 16-bit words"""
    return [bytes((((c * 9 + (c >> 5)) ^ (i * 11)) & 255) for c in range(size)) for i in range(nd)]


def lane_basis(nd):
    """size 8192: each of the 256 values in all 32 lanes of the widest register, for every disk"""
    return [bytes(((c // 32 + 37 * i) & 255) for c in range(8192)) for i in range(nd)]


def regen_progs(snap):
    """(i) run the translator; returns its messages"""
    outp = os.path.join(COQ, 'Gen', 'X86Progs.v')
    buf = io.StringIO()
    with CoqLock():
        with contextlib.redirect_stdout(buf):
            x86asm.main(snap, outp)
    return [l for l in buf.getvalue().splitlines() if l.strip()]


def run(chk, snap, drv):
    t0 = time.time()
    simd = {'translated': [], 'proved': [], 'rejected': [], 'fallback_correspondence_only': [], 'decoders_correspondence_only': []}
    chk.cov['simd'] = simd
    # ---- (i) translation
    try:
        msgs = regen_progs(snap)
    except Exception as e:      # the translator itself broke: nothing below is meaningful
        chk.violation('simd_translator', 'harness/gen/x86asm.py failed on raid/x86.c, raid/x86z.c: %r' % (e,), {'error': repr(e)}, no_input=True)
        return
    simd['translator_messages'] = msgs
    # ---- extracted interpreter + checker (compiles SimdDefs/SimdSem/SimdCheck and the generated file)
    try:
        model = build_model('Extract/Extract_C02simd.vo', 'ocaml/C02simd', 'c02simd_ext', 'driver.ml', 'model')
    except BuildError as e:
        chk.violation('simd_model', 'the programs generated from raid/x86.c, raid/x86z.c do not build: ' + str(e)[-400:],
                      {'error': str(e)[-3000:], 'translator': msgs}, no_input=True)
        return
    verdict = dict(x.split('=') for x in run_lines(model, ['check'], shards=1)[0].split())
    simd['decoders_correspondence_only'] = run_lines(model, ['decoders'], shards=1)[0].split()
    for name, v in verdict.items():
        if v == 'fallback':
            simd['fallback_correspondence_only'].append(name)
        else:
            simd['translated'].append(name)
            simd['proved' if v == 'proved' else 'rejected'].append(name)
    # ---- (ii) the obligations
    ok, log = coq_make([PROP_VO])
    ok = ok and os.path.exists(os.path.join(COQ, PROP_VO))
    simd['obligations_file'] = 'coq/' + PROP_VO[:-1]
    simd['obligations_ok'] = ok
    if not ok:
        simd['proved'] = []
    # ---- (iii) interpreter vs silicon vs reference
    fns = [n[5:] for n in simd['translated']]
    cases = []
    for nd in NDS:
        pats = [('basis', basis(nd, 256))]
        if chk.tier != 'quick' or nd <= 32:
            pats.append(('basis2', basis2(nd, 256)))
        if nd in (2, 3) or (chk.tier != 'quick' and nd in (4, 32)):
            pats.append(('lanes', lane_basis(nd)))
        if chk.tier != 'quick':
            pats.append(('random', [bytes(chk.rng.getrandbits(8) for _ in range(320)) for _ in range(nd)]))
        for kind, data in pats:
            hx = b''.join(data).hex()
            for fn in fns:
                cases.append((fn, nd, kind, data, 'gen %s %s %d %d %d %s' % (fn, mode_of(fn), nd, np_of(fn), len(data[0]), hx)))
    lines = [c[4] for c in cases]
    co = run_lines(drv, lines)
    mo = run_lines(model, lines)
    refcache = {}
    c_bad = {}
    reproduced = {}
    drift = {}
    skipped = set()
    ran = 0
    for (fn, nd, kind, data, line), a, b in zip(cases, co, mo):
        if a == 'skip':
            skipped.add(fn)
            continue
        ran += 1
        key = (mode_of(fn), np_of(fn), id(data))
        if key not in refcache:
            refcache[key] = 'ok ' + b''.join(gfref.gen(key[0], key[1], data)).hex()
        ref = refcache[key]
        if a != ref:
            c_bad.setdefault(fn, []).append((nd, kind, line, a, ref))
            reproduced[fn] = reproduced.get(fn, True) and (b == a)
        elif b != a:
            drift.setdefault(fn, []).append((nd, kind, line, a, b))
    for fn, l in list(c_bad.items())[:4]:
        nd, kind, line, a, ref = l[0]
        chk.violation('simd_gen_%s_nd%d' % (fn, nd),
                      'raid_%s (nd=%d, %s data) does not compute the GF(2^8) matrix product: got %s...%s' %
                      (fn, nd, kind, a[:40], ' [its proof obligation checker=true also fails]' if 'raid_' + fn in simd['rejected'] else ''),
                      {'driver': 'harness/c/raid_drv.c', 'case_line': line, 'got': a, 'expected': ref, 'failing_cases': len(l)})
    for fn, l in list(drift.items())[:4]:
        nd, kind, line, a, b = l[0]
        chk.violation('simd_drift_%s_nd%d' % (fn, nd),
                      'MODEL-DRIFT: the program translated from raid_%s, run by the extracted byte-lane interpreter, disagrees with the '
                      'real function on nd=%d (%s data) although the real function matches the reference' % (fn, nd, kind),
                      {'case_line': line, 'c': a, 'interpreter': b, 'failing_cases': len(l)}, no_input=True)
    # ---- a broken obligation without a failing input
    if not ok:
        culprits = [n for n in simd['rejected'] if n[5:] not in c_bad]
        for n in culprits:
            why = run_lines(model, ['why ' + n], shards=1)[0]
            chk.violation('simd_obligation_' + n,
                          'proof obligation broken: the checker of gen_simd_correct rejects the program translated from %s '
                          '(coq/%s, theorem C02_simd_%s); the real function still matches the reference on the %d basis inputs tried. '
                          'Abstract interpretation saw: %s' % (n, PROP_VO[:-1], n[5:], sum(1 for c in cases if c[0] == n[5:]), why[:1500]),
                          {'theorem_file': 'coq/' + PROP_VO[:-1], 'function': n, 'abstract_state': why, 'log_tail': log[-1500:]}, no_input=True)
        if not simd['rejected']:
            chk.violation('simd_obligation', 'proof obligations of coq/%s no longer check: %s' % (PROP_VO[:-1], log[-600:]),
                          {'theorem_file': 'coq/' + PROP_VO[:-1], 'log_tail': log[-3000:]}, no_input=True)
    simd.update({'interpreter_vs_c_cases': ran, 'c_vs_reference_mismatching_functions': sorted(c_bad),
                 'interpreter_drift_functions': sorted(drift),
                 'interpreter_reproduces_the_wrong_output_of': sorted(f for f, v in reproduced.items() if v), 'skipped_by_cpu': sorted(skipped),
                 'nds': NDS, 'wall_s': round(time.time() - t0, 2),
                 'rule': 'every translated generator x nd in %s x per-disk byte basis (two lane arrangements; all 32 lanes for small nd)' % NDS})
    chk.assumptions += ['SIMD generators: tied by translation (harness/gen/x86asm.py) + byte-lane semantics coq/Simd/SimdSem.v, both '
                        'validated against the CPU on every run; alignment, movntdq ordering, sfence, register clobbers and the '
                        'size % step != 0 overrun are outside the model',
                        'SIMD decoders raid_rec*_ssse3/avx2 are not translated: unit correspondence only']
    if simd['fallback_correspondence_only']:
        chk.notes.append('SIMD functions outside the translated shape (correspondence only): ' + ', '.join(simd['fallback_correspondence_only']))


if __name__ == '__main__':      # stand-alone trial (no evidence file is written)
    tier = sys.argv[1] if len(sys.argv) > 1 else 'quick'
    c = Check('C02', tier, 'proof')
    s = snapshot_repo()
    d = build_driver(s, 'raid_drv.c', RAID_SRCS, 'raid_drv')
    t = time.time()
    run(c, s, d)
    import json
    print(json.dumps(c.cov['simd'], indent=1)[:3000])
    for what, p, noinp in c.violations:
        print('VIOLATION%s: %s' % (' (no input)' if noinp else '', what[:700]))
        os.remove(p)
    print('wall %.1f s' % (time.time() - t))
