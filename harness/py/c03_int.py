"""C03 extension -- the PORTABLE decoders raid_rec1_int8, raid_rec2_int8, raid_recX_int8 (raid/int.c), raid_rec2of2_int8
(raid/raid.c) tied to the recovery theorems by TRANSLATION of their byte loop; raid_rec1of1, raid_delta_gen and the gf.h
helpers inv/pow2/table/A recognised token for token.

run(chk, snap, drv) is called by check_C03.py before check_obligations('C03'):
  (i)   harness/gen/intc_rec.py regenerates coq/Gen/IntRecProgs.v from the snapshot (rewritten only when it changes);
  (ii)  coq/Props/Properties_C03_int.vo is built (checker = true and the right kind for every generated decoder,
        rec_int_correct and its composition with the proofs about raid_invert / raid_delta_gen / the fast paths);
  (iii) the composed model (hand model of the C part + extracted interpreter of the generated loops) is run against the
        real raid_rec / raid_data with the int8 function pointers (harness/c/raid_drv.c `rec int8 ...`, `data int8 ...`)
        and against the expectation "the original stripe comes back" (stripes built with the independent gfref.py);
  verdicts: C does not restore the stripe -> violation with the input; model differs from C while C is right -> MODEL-DRIFT;
  the checker rejects a decoder / the translator does not recognise a function -> the harness searches a larger family of
  stripes that reach this function for one that the real code does not restore and reports it as the replay; when none
  exists -> violation (no input) naming the function, the theorem and what the abstract interpreter saw.
chk.cov['int_rec'] records which functions were translated / proved / rejected / untranslated."""
import os, sys, time, io, contextlib, itertools
from common import *
import gfref

sys.path.insert(0, os.path.join(VERIF, 'harness', 'gen'))
import intc_rec

PROP_VO = 'Props/Properties_C03_int.vo'
THEOREM = {'raid_rec1_int8': 'C03_int_rec1_int8', 'raid_rec2_int8': 'C03_int_rec2_int8', 'raid_recX_int8': 'C03_int_recX_int8',
           'raid_rec2of2_int8': 'C03_int_rec2of2_int8', 'raid_rec1of1': 'C03_int_rec1of1_recognised', 'raid_delta_gen': 'C03_int_delta_gen_recognised'}


def regen_progs(snap):
    outp = os.path.join(COQ, 'Gen', 'IntRecProgs.v')
    buf = io.StringIO()
    with CoqLock():
        with contextlib.redirect_stdout(buf):
            intc_rec.main(snap, outp)
    return [l for l in buf.getvalue().splitlines() if l.strip()]


def stripe(nd, np_, size, mode='c', salt=0):
    """every disk sees every byte value (size 256) at different places"""
    data = [bytes(((c * 5 + 37 * i + salt) & 255) for c in range(size)) for i in range(nd)]
    return data, gfref.gen(mode, np_, data)


def garble(b):
    return bytes(((x ^ 0x5a) + k) & 255 if (((x ^ 0x5a) + k) & 255) != x else x ^ 0xff for k, x in enumerate(b))


def reaches(id_, ip):
    """the functions whose code a data recovery (id, ip) runs through"""
    nr = len(id_)
    if nr == 1:
        return ['raid_rec1_int8', 'raid_rec1of1'] if ip == [0] else ['raid_rec1_int8', 'raid_delta_gen']
    if nr == 2:
        return ['raid_rec2_int8', 'raid_rec2of2_int8', 'raid_delta_gen'] if ip == [0, 1] else ['raid_rec2_int8', 'raid_delta_gen']
    return ['raid_recX_int8', 'raid_delta_gen']


def data_case(mode, nd, np_, size, id_, ip, salt=0):
    data, par = stripe(nd, np_, size, mode, salt)
    good = data + par
    bufs = [garble(b) if i in id_ else b for i, b in enumerate(good)]
    # parities that are not used may hold garbage: raid_data must neither look at them nor touch them
    bufs = [garble(b) if (i >= nd and (i - nd) not in ip and (i + salt) % 2 == 0) else b for i, b in enumerate(bufs)]
    exp = [good[i] if i in id_ else b for i, b in enumerate(bufs)]
    line = 'data int8 %s %d %d %d %d %s %s %s' % (mode, nd, np_, size, len(id_), ' '.join(map(str, id_)), ' '.join(map(str, ip)), b''.join(bufs).hex())
    return {'line': line, 'exp': 'ok ' + b''.join(exp).hex(), 'reach': reaches(id_, ip), 'desc': 'raid_data nd=%d np=%d id=%s ip=%s mode=%s' % (nd, np_, id_, ip, mode)}


def rec_case(mode, nd, np_, size, ir, salt=0):
    data, par = stripe(nd, np_, size, mode, salt)
    good = data + par
    bufs = [garble(b) if i in ir else b for i, b in enumerate(good)]
    id_ = [i for i in ir if i < nd]
    fp = [i - nd for i in ir if i >= nd]
    ip = [p for p in range(np_) if p not in fp][:len(id_)]
    exp = list(bufs)
    for i in id_:
        exp[i] = good[i]
    if fp:
        for p in range(max(fp) + 1):
            exp[nd + p] = good[nd + p]
    line = 'rec int8 %s %d %d %d %d %s %s' % (mode, nd, np_, size, len(ir), ' '.join(map(str, ir)), b''.join(bufs).hex())
    return {'line': line, 'exp': 'ok ' + b''.join(exp).hex(), 'reach': reaches(id_, ip) if id_ else [],
            'desc': 'raid_rec nd=%d np=%d failed=%s mode=%s' % (nd, np_, ir, mode)}


def standard_cases(rng, tier):
    cases = []
    geos = [(2, 1), (2, 2), (3, 3), (4, 4), (6, 6), (8, 5), (33, 6), (251, 6)] if tier == 'quick' else \
           [(1, 1), (2, 1), (2, 2), (3, 2), (3, 3), (4, 4), (5, 5), (6, 6), (8, 3), (8, 5), (8, 6), (32, 6), (33, 6), (250, 6), (251, 6), (251, 3)]
    for nd, np_ in geos:
        size = 256 if nd <= 40 else 64
        pool = sorted(set([0, 1, 2, nd // 2, nd - 2, nd - 1]) & set(range(nd)))
        for nr in range(1, min(np_, nd) + 1):
            ids = [sorted(rng.sample(pool, nr))] if nr <= len(pool) else []
            if nd <= 8:
                ids += [list(c) for c in itertools.islice(itertools.combinations(range(nd), nr), 2)]
            for id_ in ids:
                cases.append(rec_case('c', nd, np_, size, id_))
                for k in range(1, np_ - nr + 1):                 # lose the first k parities too: ip shifts up
                    cases.append(rec_case('c', nd, np_, size, id_ + [nd + p for p in range(k)]))
                # raid_data with every / some choices of the parities
                combos = list(itertools.combinations(range(np_), nr))
                if len(combos) > 6:
                    combos = combos[:2] + rng.sample(combos[2:], 4 if tier == 'quick' else 8)
                for ip in combos:
                    cases.append(data_case('c', nd, np_, size, id_, list(ip)))
    for nd in (3, 8):                                            # the three rows of the Vandermonde-style matrix
        for id_, ip in (([1], [0]), ([1], [2]), ([0, 2], [0, 1]), ([0, 2], [1, 2]), ([0, 1, 2], [0, 1, 2])):
            cases.append(data_case('z', nd, 3, 256, id_, ip))
        cases.append(rec_case('z', nd, 3, 256, [0, nd]))
    return cases


def search_cases(fn, rng):
    """a larger family of stripes that run through function fn"""
    cases = []
    for salt in (1, 77):
        for nd, np_ in ((2, 2), (3, 3), (5, 6), (9, 6), (64, 6), (250, 6)):
            size = 256 if nd <= 16 else 64
            for nr in range(1, min(np_, nd, 6) + 1):
                idsets = [list(c) for c in itertools.islice(itertools.combinations(range(nd), nr), 4)] + [list(range(nd - nr, nd))]
                for id_ in idsets:
                    for ip in itertools.islice(itertools.combinations(range(np_), nr), 40):
                        if fn in reaches(id_, list(ip)):
                            cases.append(data_case('c', nd, np_, size, id_, list(ip), salt))
    return cases[:1500]


def run(chk, snap, drv):
    t0 = time.time()
    info = {'translated': [], 'proved': [], 'rejected': [], 'untranslated': []}
    chk.cov['int_rec'] = info
    try:
        msgs = regen_progs(snap)
    except Exception as e:
        chk.violation('int_rec_translator', 'harness/gen/intc_rec.py failed on raid/int.c, raid/raid.c, raid/gf.h: %r' % (e,), {'error': repr(e)}, no_input=True)
        return
    info['translator_messages'] = msgs
    try:
        model = build_model('Extract/Extract_C03int.vo', 'ocaml/C03int', 'c03int_ext', 'driver.ml', 'model')
    except BuildError as e:
        chk.violation('int_rec_model', 'the decoder programs generated from raid/int.c, raid/raid.c do not build: ' + str(e)[-400:],
                      {'error': str(e)[-3000:], 'translator': msgs}, no_input=True)
        return
    verdict = dict(x.split('=') for x in run_lines(model, ['check'], shards=1)[0].split())
    for name, v in verdict.items():
        if v == 'UNTRANSLATED':
            info['untranslated'].append(name)
        else:
            info['translated'].append(name)
            info['proved' if v in ('proved', 'recognised') else 'rejected'].append(name)
    ok, log = coq_make([PROP_VO])
    ok = ok and os.path.exists(os.path.join(COQ, PROP_VO))
    info['obligations_file'] = 'coq/' + PROP_VO[:-1]
    info['obligations_ok'] = ok
    if not ok:
        info['proved'] = []
    # ---- composed model vs real raid_rec / raid_data vs "the stripe comes back"
    cases = standard_cases(chk.rng, chk.tier)
    lines = [c['line'] for c in cases]
    co = run_lines(drv, lines)
    model_ok = not [n for n in info['untranslated'] if n.endswith('_int8')]
    mo = run_lines(model, lines) if model_ok else ['-'] * len(lines)
    c_bad, drift, ran = {}, [], 0
    for c, a, b in zip(cases, co, mo):
        if a == 'skip':
            continue
        ran += 1
        if a != c['exp']:
            for fn in (c['reach'] or ['raid_rec']):
                c_bad.setdefault(fn, []).append((c, a, b))
        elif model_ok and b != a:
            drift.append((c, a, b))
    notproved = info['rejected'] + info['untranslated']
    # functions that are untranslated only because raid_delta_gen / raid_rec1of1 (reported themselves) lost their known text
    own = [n for n in ('raid_delta_gen', 'raid_rec1of1') if n in info['untranslated']]
    dependents = [n for n in info['untranslated'] if n not in own and own and any(('UNSUPPORTED %s: %s (used by the C part)' % (n, o)) in ' '.join(msgs) for o in own)]
    info['untranslated_as_a_consequence'] = dependents
    notproved = own + [n for n in notproved if n not in own and n not in dependents]
    # a failing stripe is attributed to the not-proved function it runs through, else to the first function on its path
    reported = set()
    blamed = {}
    for fn, l in c_bad.items():
        for c, a, b in l:
            if c['line'] in reported:
                continue
            culprit = next((f for f in c['reach'] if f in notproved), (c['reach'] or ['raid_rec'])[0])
            if culprit in blamed:
                continue
            blamed[culprit] = True
            reported.add(c['line'])
            chk.violation('int_rec_%s' % culprit,
                          '%s with the int8 decoders does not restore the stripe (through %s): got %s...%s' %
                          (c['desc'], ', '.join(c['reach']), a[:40],
                           ' [proof obligation %s of %s also fails]' % (THEOREM.get(culprit), culprit) if culprit in notproved else ''),
                          {'driver': 'harness/c/raid_drv.c', 'case_line': c['line'], 'got': a, 'expected': c['exp'],
                           'model_reproduces_it': b == a, 'failing_cases': len(l)})
            if len(blamed) >= 6:
                break
    for c, a, b in drift[:4]:
        chk.violation('int_rec_drift',
                      'MODEL-DRIFT: hand model of the C part + the loops translated from raid/int.c, run by the extracted interpreter, '
                      'disagree with the real code on %s although the real one restores the stripe' % c['desc'],
                      {'case_line': c['line'], 'c': a, 'model': b, 'failing_cases': len(drift)}, no_input=True)
    # ---- rejected / untranslated functions with no failing standard stripe: search
    searched = {}
    for n in notproved:
        if n in blamed:
            continue
        why = run_lines(model, ['why ' + n], shards=1)[0] if n.endswith('_int8') else 'text differs from the known one'
        sc = search_cases(n, chk.rng)
        so = run_lines(drv, [c['line'] for c in sc])
        hit = next(((c, a) for c, a in zip(sc, so) if a != 'skip' and a != c['exp']), None)
        searched[n] = bool(hit)
        what = ('the translator does not recognise %s (%s)' % (n, why) if n in info['untranslated'] else
                'the checker of rec_int_correct rejects the loop translated from %s' % n)
        if hit:
            c, a = hit
            chk.violation('int_rec_%s' % n,
                          '%s with the int8 decoders does not restore the stripe (through %s): got %s... [found by the search started '
                          'because %s; theorem %s of coq/%s]' % (c['desc'], ', '.join(c['reach']), a[:40], what, THEOREM.get(n), PROP_VO[:-1]),
                          {'driver': 'harness/c/raid_drv.c', 'case_line': c['line'], 'got': a, 'expected': c['exp'], 'abstract_state': why})
        else:
            chk.violation('int_rec_obligation_' + n,
                          'proof obligation broken: %s (coq/%s, theorem %s); the real code restores every stripe tried (%d standard, %d in the '
                          'extended search through this function). %s' %
                          (what, PROP_VO[:-1], THEOREM.get(n), ran, len(sc), '' if n in info['untranslated'] else 'Abstract interpretation saw: ' + why[:1500]),
                          {'theorem_file': 'coq/' + PROP_VO[:-1], 'function': n, 'abstract_state': why, 'log_tail': log[-1500:]}, no_input=True)
    if not ok and not notproved:
        chk.violation('int_rec_obligation', 'proof obligations of coq/%s no longer check: %s' % (PROP_VO[:-1], log[-600:]),
                      {'theorem_file': 'coq/' + PROP_VO[:-1], 'log_tail': log[-3000:]}, no_input=True)
    per_fn = {}
    for c, a in zip(cases, co):
        if a != 'skip':
            for f in c['reach']:
                per_fn[f] = per_fn.get(f, 0) + 1
    info.update({'model_vs_c_cases': ran, 'cases_through_function': per_fn, 'c_not_restoring_through': sorted(c_bad), 'model_drift_cases': len(drift),
                 'failing_stripe_search': searched, 'wall_s': round(time.time() - t0, 2),
                 'rule': 'raid_rec and raid_data through the int8 decoder pointers x (nd, np) geometries x 1..np lost data disks on boundary '
                         'positions x shifted / arbitrary choices of the parities used, both table modes, per-disk byte basis contents'})
    chk.assumptions += ['portable decoders: the byte loop is tied by translation (harness/gen/intc_rec.py) + per-column semantics '
                        'coq/IntC/IntRecSem.v (every block subscript is exactly [i]); the C part of each decoder (coefficient set-up, raid_invert, '
                        'raid_delta_gen, pointer set-up, fast-path delegations) and raid_rec1of1 / raid_delta_gen themselves are recognised token for '
                        'token by the translator and are the hand model coq/Raid/RecModel.v, tied by the correspondence run; raid_delta_gen relies '
                        '(as its own comment says) on every generator writing the parities in ascending order']


if __name__ == '__main__':      # stand-alone trial (no evidence file is written)
    tier = sys.argv[1] if len(sys.argv) > 1 else 'quick'
    c = Check('C03', tier, 'proof')
    s = snapshot_repo()
    regen(s)          # also records the snapshot: every coq_make re-generates coq/Gen/*.v from it under the lock
    d = build_driver(s, 'raid_drv.c', RAID_SRCS, 'raid_drv')
    t = time.time()
    run(c, s, d)
    import json
    print(json.dumps(c.cov['int_rec'], indent=1)[:3000])
    for what, p, noinp in c.violations:
        print('VIOLATION%s: %s' % (' (no input)' if noinp else '', what[:900]))
        os.remove(p)
    print('wall %.1f s' % (time.time() - t))
