"""C03 extension -- the SIMD decoders raid_rec{1,2,X}_{ssse3,avx2} of raid/x86.c tied to the recovery theorems by
TRANSLATION of their asm loop.

run(chk, snap, drv) is called by check_C03.py before check_obligations('C03'):
  (i)   harness/gen/x86asm_rec.py regenerates coq/Gen/X86RecProgs.v from the snapshot (rewritten only when it changes);
  (ii)  coq/Props/Properties_C03_simd.vo is built (rchecker = true for every generated decoder, rec_simd_correct and its
        composition with the proofs about raid_invert / raid_delta_gen);
  (iii) the composed model (hand model of the C part + extracted byte-lane interpreter of the generated loop) is run
        against the real raid_rec with the ssse3 / avx2 function pointers (harness/c/raid_drv.c `rec <fam> ...`) and
        against the expectation "the original stripe comes back" (stripes built with the independent harness/py/gfref.py);
  verdicts: C does not restore the stripe -> violation with the input; model differs from C while C is right -> MODEL-DRIFT;
  an obligation broke and no failing input exists -> violation naming the function and what the abstract interpreter saw.
chk.cov['simd_rec'] records which decoders were translated / proved / rejected / fell back."""
import os, sys, time, io, contextlib, itertools
from common import *
import gfref

sys.path.insert(0, os.path.join(VERIF, 'harness', 'gen'))
import x86asm_rec

PROP_VO = 'Props/Properties_C03_simd.vo'
FAMS = ['ssse3', 'avx2']


def regen_progs(snap):
    outp = os.path.join(COQ, 'Gen', 'X86RecProgs.v')
    buf = io.StringIO()
    with CoqLock():
        with contextlib.redirect_stdout(buf):
            x86asm_rec.main(snap, outp)
    return [l for l in buf.getvalue().splitlines() if l.strip()]


def stripe(nd, np_, size, mode='c'):
    """every disk sees every byte value (size 256) at different places"""
    data = [bytes(((c * 5 + 37 * i) & 255) for c in range(size)) for i in range(nd)]
    return data, gfref.gen(mode, np_, data)


def failure_sets(rng, nd, np_, tier):
    """data failures of every count 1..np (raid_rec_ptr[0], [1], [2..5]) on boundary disks, with every choice of the
    surviving parities for small cases (so that every row pair of the matrix meets the tables), plus mixed data+parity"""
    out = []
    pool = sorted(set([0, 1, 2, nd // 2, nd - 2, nd - 1]) & set(range(nd)))
    for nr in range(1, min(np_, nd) + 1):
        ids = [sorted(rng.sample(pool, nr))] if nr <= len(pool) else []
        if nd <= 8:
            ids += [list(c) for c in itertools.islice(itertools.combinations(range(nd), nr), 3)]
        for id_ in ids:
            out.append(id_)                                               # all parities available: ip = 0..nr-1
            lost_par = [p for p in range(np_) if p < np_ - nr]
            for k in range(1, min(len(lost_par), np_ - nr) + 1):          # lose the first k parities: ip shifts up
                out.append(id_ + [nd + p for p in range(k)])
            if tier != 'quick' and np_ - nr >= 1:
                out.append(id_ + [nd + rng.randrange(np_)])
    seen, res = set(), []
    for ir in out:
        ir = sorted(set(ir))
        if len(ir) <= np_ and tuple(ir) not in seen:
            seen.add(tuple(ir))
            res.append(ir)
    return res


def run(chk, snap, drv):
    t0 = time.time()
    simd = {'translated': [], 'proved': [], 'rejected': [], 'fallback_correspondence_only': []}
    chk.cov['simd_rec'] = simd
    try:
        msgs = regen_progs(snap)
    except Exception as e:
        chk.violation('simd_rec_translator', 'harness/gen/x86asm_rec.py failed on raid/x86.c: %r' % (e,), {'error': repr(e)}, no_input=True)
        return
    simd['translator_messages'] = msgs
    try:
        model = build_model('Extract/Extract_C03simd.vo', 'ocaml/C03simd', 'c03simd_ext', 'driver.ml', 'model')
    except BuildError as e:
        chk.violation('simd_rec_model', 'the decoder programs generated from raid/x86.c do not build: ' + str(e)[-400:],
                      {'error': str(e)[-3000:], 'translator': msgs}, no_input=True)
        return
    verdict = dict(x.split('=') for x in run_lines(model, ['check'], shards=1)[0].split())
    for name, v in verdict.items():
        if v == 'fallback':
            simd['fallback_correspondence_only'].append(name)
        else:
            simd['translated'].append(name)
            simd['proved' if v == 'proved' else 'rejected'].append(name)
    ok, log = coq_make([PROP_VO])
    ok = ok and os.path.exists(os.path.join(COQ, PROP_VO))
    simd['obligations_file'] = 'coq/' + PROP_VO[:-1]
    simd['obligations_ok'] = ok
    if not ok:
        simd['proved'] = []
    # ---- composed model vs real raid_rec vs "the stripe comes back"
    rng = chk.rng
    geos = [(2, 1), (2, 2), (3, 3), (4, 4), (6, 6), (8, 5), (33, 6), (251, 6)] if chk.tier == 'quick' else \
           [(1, 1), (2, 1), (2, 2), (3, 2), (3, 3), (4, 4), (5, 5), (6, 6), (8, 3), (8, 5), (8, 6), (32, 6), (33, 6), (250, 6), (251, 6), (251, 3)]
    cases = []
    for nd, np_ in geos:
        size = 256 if nd <= 40 else 64
        modes = ['c'] + (['z'] if np_ == 3 and chk.tier != 'quick' else [])
        for mode in modes:
            data, par = stripe(nd, np_, size, mode)
            good = data + par
            for ir in failure_sets(rng, nd, np_, chk.tier):
                bufs = [bytes(((b[k] ^ 0x5a) + k) & 255 if (((b[k] ^ 0x5a) + k) & 255) != b[k] else b[k] ^ 0xff for k in range(size)) if i in ir else b
                        for i, b in enumerate(good)]
                hx = b''.join(bufs).hex()
                exp = 'ok ' + b''.join(good).hex()
                for fam in FAMS:
                    cases.append((fam, mode, nd, np_, ir, 'rec %s %s %d %d %d %d %s %s' % (fam, mode, nd, np_, size, len(ir), ' '.join(map(str, ir)), hx), exp))
    lines = [c[5] for c in cases]
    co = run_lines(drv, lines)
    fams_ok = [f for f in FAMS if all(('raid_rec%s_%s' % (k, f)) in simd['translated'] for k in '12X')]
    mo = run_lines(model, [c[5] if c[0] in fams_ok else 'list' for c in cases])
    c_bad, drift, skipped, reproduced, ran = {}, {}, set(), {}, 0
    for (fam, mode, nd, np_, ir, line, exp), a, b in zip(cases, co, mo):
        if a == 'skip':
            skipped.add(fam)
            continue
        ran += 1
        nrd = sum(1 for i in ir if i < nd)
        fn = 'raid_rec%s_%s' % ('1' if nrd == 1 else '2' if nrd == 2 else 'X', fam)
        if a != exp:
            c_bad.setdefault(fn, []).append((nd, np_, ir, line, a, exp))
            if fam in fams_ok:
                reproduced[fn] = reproduced.get(fn, True) and (b == a)
        elif fam in fams_ok and b != a:
            drift.setdefault(fn, []).append((nd, np_, ir, line, a, b))
    for fn, l in list(c_bad.items())[:4]:
        nd, np_, ir, line, a, exp = l[0]
        chk.violation('simd_rec_%s_nd%d' % (fn, nd),
                      'raid_rec with the %s decoders does not restore the stripe (nd=%d np=%d failed=%s, decoder %s): got %s...%s' %
                      (fn.split('_')[-1], nd, np_, ir, fn, a[:40], ' [its proof obligation rchecker=true also fails]' if fn in simd['rejected'] else ''),
                      {'driver': 'harness/c/raid_drv.c', 'case_line': line, 'got': a, 'expected': exp, 'failing_cases': len(l)})
    for fn, l in list(drift.items())[:4]:
        nd, np_, ir, line, a, b = l[0]
        chk.violation('simd_rec_drift_%s_nd%d' % (fn, nd),
                      'MODEL-DRIFT: hand model of the C part + the loop translated from %s, run by the extracted interpreter, disagrees with the '
                      'real raid_rec (nd=%d np=%d failed=%s) although the real one restores the stripe' % (fn, nd, np_, ir),
                      {'case_line': line, 'c': a, 'model': b, 'failing_cases': len(l)}, no_input=True)
    if not ok:
        culprits = [n for n in simd['rejected'] if n not in c_bad]
        for n in culprits:
            why = run_lines(model, ['why ' + n], shards=1)[0]
            chk.violation('simd_rec_obligation_' + n,
                          'proof obligation broken: the checker of rec_simd_correct rejects the loop translated from %s (coq/%s, theorem '
                          'C03_simd_%s); the real raid_rec still restores every stripe tried. Abstract interpretation saw: %s'
                          % (n, PROP_VO[:-1], n[5:], why[:1500]),
                          {'theorem_file': 'coq/' + PROP_VO[:-1], 'function': n, 'abstract_state': why, 'log_tail': log[-1500:]}, no_input=True)
        if not simd['rejected']:
            chk.violation('simd_rec_obligation', 'proof obligations of coq/%s no longer check: %s' % (PROP_VO[:-1], log[-600:]),
                          {'theorem_file': 'coq/' + PROP_VO[:-1], 'log_tail': log[-3000:]}, no_input=True)
    simd.update({'model_vs_c_cases': ran, 'c_not_restoring_decoders': sorted(c_bad), 'model_drift_decoders': sorted(drift),
                 'model_reproduces_the_wrong_output_of': sorted(f for f, v in reproduced.items() if v), 'skipped_by_cpu': sorted(skipped),
                 'geometries': geos, 'wall_s': round(time.time() - t0, 2),
                 'rule': 'raid_rec through the ssse3 and avx2 decoder pointers x (nd, np) geometries x failure sets with 1..np lost data disks '
                         'and shifted parity choices, per-disk byte basis contents'})
    chk.assumptions += ['SIMD decoders: the asm loop is tied by translation (harness/gen/x86asm_rec.py) + byte-lane semantics '
                        'coq/Simd/RecSem.v; the C part of each decoder (matrix set-up, raid_invert, raid_delta_gen, pointer set-up, '
                        'raid_rec1of1 delegation) is only recognised textually by the translator and is the hand model coq/Raid/RecModel.v, '
                        'tied by the correspondence run']
    if simd['fallback_correspondence_only']:
        chk.notes.append('SIMD decoders outside the translated shape (correspondence only): ' + ', '.join(simd['fallback_correspondence_only']))


if __name__ == '__main__':      # stand-alone trial (no evidence file is written)
    tier = sys.argv[1] if len(sys.argv) > 1 else 'quick'
    c = Check('C03', tier, 'proof')
    s = snapshot_repo()
    d = build_driver(s, 'raid_drv.c', RAID_SRCS, 'raid_drv')
    t = time.time()
    run(c, s, d)
    import json
    print(json.dumps(c.cov['simd_rec'], indent=1)[:3000])
    for what, p, noinp in c.violations:
        print('VIOLATION%s: %s' % (' (no input)' if noinp else '', what[:900]))
        os.remove(p)
    print('wall %.1f s' % (time.time() - t))
