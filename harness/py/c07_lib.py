"""Helpers shared by check_C07.py and check_C08.py: deterministic small arrays (scenarios), the post-scan state trick,
stripe-level observation of a content file, parallel map, and the serialisation of a model request."""
import os, sys, shutil, random, time, subprocess, signal, json
import concurrent.futures as cf
from common import *
from arraylib import *
from modelbridge import Bridge

T0 = 1_600_000_000 * 10**9          # base mtime of generated files (fixed: arrays are reproducible)
BS = 1024


def build_slow(snap):
    out = os.path.join(snap, 'c07_slow.so')
    if not os.path.exists(out):
        r = run(['gcc', '-shared', '-fPIC', '-O1', '-o', out, os.path.join(VERIF, 'harness', 'c', 'c07_slow.c'), '-ldl'])
        if r.returncode != 0:
            raise BuildError(r.stdout)
    return out


def det_bytes(tag, n):
    """deterministic pseudo-random bytes (never all zero blocks)"""
    return random.Random('c07:' + tag).randbytes(n)


# ---------------------------------------------------------------------------------------------------------------
# scenarios: (name, list of phases); a phase is a list of FS operations followed by a clean sync, except the last one
# whose sync is the command under test.

def scenario_ops(name, nd, nblk=8):
    """returns (pre_phases, pending) : lists of ('write', disk, sub, bytes) / ('remove', disk, sub)"""
    disks = ['d%d' % (i + 1) for i in range(nd)]
    if name == 'fresh':
        # adds only on an empty array: disk i has one file of nblk blocks, the last block partial on d2, one block less on d3
        pend = []
        for i, d in enumerate(disks):
            size = nblk * BS - (100 if i == 1 else 0) - (BS if i == 2 else 0)
            pend.append(('write', d, 'f', det_bytes('%s/f' % d, size)))
        return [], pend
    if name == 'adds':
        # adds only over a synced array: d1 holds a synced file `a` of nblk blocks, the other disks a synced `a` of nblk/2
        # blocks; the pending set adds files on the other disks, i.e. in stripes SHARED with the second half of d1/a (so a
        # half-written stripe matters for a previously synced file), and one file beyond the old end of the array
        pre = [[('write', d, 'a', det_bytes('%s/a' % d, (nblk if i == 0 else nblk // 2) * BS - (7 if i == 0 else 0))) for i, d in enumerate(disks)]]
        pend = []
        for i, d in enumerate(disks):
            if i >= 1:
                pend.append(('write', d, 'n', det_bytes('%s/n' % d, (nblk // 2) * BS - 13 * i)))
        pend.append(('write', disks[0], 'sub/m', det_bytes('%s/m' % disks[0], BS + 5)))
        return pre, pend
    if name == 'adds3':
        # adds only, >= 3 data disks: d1 and d2 hold synced files covering every stripe, the LAST disk is empty and gets the new
        # file: in the stripes of the new file its disk index differs from its rank among the blocks fix has to treat
        # (check.c repair, strategy 2), whichever older disk is lost
        pre = [[('write', d, 'a', det_bytes('%s/a3' % d, nblk * BS - 5 * i)) for i, d in enumerate(disks[:-1])]]
        pend = [('write', disks[-1], 'n', det_bytes('%s/n3' % disks[-1], (nblk // 2) * BS + 9))]
        return pre, pend
    if name == 'addsfit':
        # additions only that do NOT change the parity size: d1 holds a synced file over every stripe, the other disks a shorter one;
        # the new files go behind those, inside the existing parity (with a version 3 content file -- split parity, reduced hash
        # size -- nothing but the additions themselves asks for the content save that precedes the sync loop)
        pre = [[('write', d, 'a', det_bytes('%s/af' % d, (nblk if i == 0 else nblk // 2) * BS - (7 if i == 0 else 0))) for i, d in enumerate(disks)]]
        pend = [('write', d, 'n', det_bytes('%s/nf' % d, (nblk // 2) * BS - 13 * i)) for i, d in enumerate(disks) if i >= 1]
        return pre, pend
    if name == 'touchskip':
        # one stripe really changes (a new one-block file on the last disk lands in stripe 0 beside d1/a), all the others only LOOK
        # changed: d1/b is rewritten with the same bytes and a new time stamp, so its stripes are visited by sync but need no
        # parity update (io_write_next is called with skip set)
        bdata = det_bytes('d1/bskip', nblk * BS)
        pre = [[('write', disks[0], 'a', det_bytes('d1/askip', BS)), ('write', disks[0], 'b', bdata)]]
        pend = [('write', disks[0], 'b', bdata), ('write', disks[-1], 'n', det_bytes('dl/nskip', BS - 5))]
        return pre, pend
    if name == 'wipe':
        # EVERY file of the last data disk is removed (needs sync -E / --force-empty): its blocks become DELETED in stripes shared
        # with the synced files of the other disks, whose parity has to be recomputed; nothing else changes
        pre = [[('write', d, 'a', det_bytes('%s/aw' % d, nblk * BS - 9 * i)) for i, d in enumerate(disks[:-1])] +
               [('write', disks[-1], 'a', det_bytes('%s/aw' % disks[-1], (nblk - 2) * BS)), ('write', disks[-1], 'sub/b', det_bytes('%s/bw' % disks[-1], BS + 3))]]
        pend = [('remove', disks[-1], 'a'), ('remove', disks[-1], 'sub')]
        return pre, pend
    if name == 'mixed':
        # adds + deletes + updates
        pre = [[('write', d, 'a', det_bytes('%s/a' % d, (nblk // 2) * BS)) for d in disks] +
               [('write', d, 'b', det_bytes('%s/b' % d, (nblk // 2) * BS - 33)) for d in disks]]
        pend = [('write', disks[0], 'a', det_bytes('%s/a2' % disks[0], (nblk // 2) * BS)),       # update, same size
                ('remove', disks[-1], 'b'),                                                   # delete
                ('write', disks[0], 'c', det_bytes('%s/c' % disks[0], 2 * BS + 1)),              # add
                ('write', disks[-1], 'e', det_bytes('%s/e' % disks[-1], BS))]                    # add over a deleted position
        return pre, pend
    raise ValueError(name)


class Scn:
    """a reproducible array: build() creates it (replaying the phases with clean syncs), pending changes applied"""

    def __init__(self, binary, shim, name, nd, np_, ncontent=1, nblk=8, splits=1, hashsize=None, content_in_disks=False):
        self.content_in_disks = content_in_disks     # content copies INSIDE the data disks (d1/, d2/), a third one outside
        self.binary, self.shim, self.name, self.nd, self.np, self.ncontent, self.nblk = binary, shim, name, nd, np_, ncontent, nblk
        self.splits, self.hashsize = splits, hashsize        # split parity / reduced hash size: version 3 content files
        self.pre, self.pend = scenario_ops(name, nd, nblk)

    def apply(self, a, ops, tbase):
        for k, op in enumerate(ops):
            if op[0] == 'write':
                a.write(op[1], op[2], op[3], mtime_ns=tbase + k * 10**9 + 123456789)
            else:
                a.remove(op[1], op[2])

    def build(self, pending=True):
        a = Array(self.binary, nd=self.nd, np_=self.np, ncontent=self.ncontent, shim=self.shim, splits=self.splits, hashsize=self.hashsize)
        a.splits_, a.hashsize_ = self.splits, self.hashsize
        if self.content_in_disks:
            # the layout the manual recommends: `content /mnt/disk1/snapraid.content`
            cfs = [os.path.join(a.root, d, 'snapraid.content') for d in a.disks[:2]][:self.ncontent]
            cfs += a.content_files[len(cfs):self.ncontent]
            lines = [l for l in open(a.conf).read().split('\n') if l and not l.startswith('content ')]
            open(a.conf, 'w').write('\n'.join(lines + ['content %s' % c for c in cfs]) + '\n')
            a.content_files = cfs
        for i, ph in enumerate(self.pre):
            self.apply(a, ph, T0 + i * 1000 * 10**9)
            r = a.run('sync')
            if r.rc != 0:
                raise RuntimeError('scenario %s: clean sync failed: %r' % (self.name, r))
        if pending:
            self.apply(a, self.pend, T0 + 50000 * 10**9)
        return a

    def describe(self):
        return {'scenario': self.name, 'nd': self.nd, 'np': self.np, 'ncontent': self.ncontent, 'nblk': self.nblk, 'splits': self.splits, 'hashsize': self.hashsize}


def drop(a):
    shutil.rmtree(a.root, ignore_errors=True)


# ---------------------------------------------------------------------------------------------------------------
# observation

def stripe_view(a, st):
    """pos -> {'states': [state per allocated block incl. 'DEL'], 'info': info or None, 'allblk': bool, 'healthy': bool}"""
    stripes, order = a.stripes(st)
    view = {}
    for pos in range(max(list(stripes.keys()) + [-1]) + 1):
        bl = stripes.get(pos, {})
        states = [b[0] for _, b in sorted(bl.items())]
        info = st['info'][pos] if pos < len(st['info']) else None
        hasfile = any(s != 'DEL' for s in states)
        allblk = hasfile and all(s == 'BLK' for s in states)
        view[pos] = {'states': states, 'info': info, 'hasfile': hasfile, 'allblk': allblk,
                     'healthy': allblk and info is not None and not info['bad']}
    return view


def enabled_stripes(a, st, force_full=False):
    """the stripes a sync loop will process (block_is_enabled), from the post-scan content, by the independent decoder"""
    v = stripe_view(a, st)
    return [p for p in sorted(v) if v[p]['hasfile'] and (force_full or any(s != 'BLK' for s in v[p]['states']))]


def file_stripes(a, st, disk, sub):
    for f in st['disks'].get(disk, {'files': []})['files']:
        if f['sub'].decode('latin1') == sub:
            return [pos for (s, pos, h) in f['blocks']]
    return []


def post_scan(a, extra=()):
    """run a sync that is killed just before its first parity write: the post-scan state is saved, parity resized"""
    r = a.run('sync', *extra, shim_env={'VSHIM_KILL_ON': 'pwrite:.parity:1:before'})
    return r


def all_synced(a, st):
    v = stripe_view(a, st)
    bad = [p for p in v if v[p]['states'] and not v[p]['healthy']]
    return bad


def data_equal(s1, s2, ignore_mtime_of=()):
    """compare two snapshot_data() dicts: bytes, mtime, links, dirs (inode/nlink ignored).  Returns list of differences"""
    diffs = []
    for k in sorted(set(s1) | set(s2)):
        a, b = s1.get(k), s2.get(k)
        if a is None or b is None:
            diffs.append('%s:%s %s' % (k[0], k[1], 'missing' if b is None else 'extra'))
            continue
        if a[0] != b[0]:
            diffs.append('%s:%s kind %s -> %s' % (k[0], k[1], a[0], b[0]))
        elif a[0] == 'f':
            if a[1] != b[1]:
                diffs.append('%s:%s bytes differ (%d -> %d bytes)' % (k[0], k[1], len(a[1]), len(b[1])))
            elif a[2] != b[2] and k not in ignore_mtime_of:
                diffs.append('%s:%s mtime %d -> %d' % (k[0], k[1], a[2], b[2]))
        elif a[0] == 'l' and a[1] != b[1]:
            diffs.append('%s:%s link target' % k)
    return diffs


def _merge(parent, base, child):
    """add to `parent` what a worker process changed in its copy `child` of an object that looked like `base` at the fork:
    numbers are summed, lists extended by the new tail, dicts merged key by key"""
    if isinstance(child, dict):
        for k, v in child.items():
            b = base.get(k) if isinstance(base, dict) else None
            if isinstance(v, bool) or v is None or isinstance(v, str):
                if v != b:
                    parent[k] = v
            elif isinstance(v, (int, float)):
                parent[k] = parent.get(k, 0) + (v - (b or 0))
            elif isinstance(v, dict):
                _merge(parent.setdefault(k, {}), b if isinstance(b, dict) else {}, v)
            elif isinstance(v, list):
                parent.setdefault(k, []).extend(v[len(b) if isinstance(b, list) else 0:])
            else:
                parent[k] = v
    elif isinstance(child, list):
        parent.extend(child[len(base) if isinstance(base, list) else 0:])


def pmap(fn, items, workers=None, state=None, chk=None):
    """parallel map over worker PROCESSES (fork).  Threads do not help here: the cases spend their time in fork/exec of the tool and in
    pure Python (content decoding, reference parity), both serialised by the interpreter lock.  What the workers change is brought
    back explicitly: the violations they report (replayed in the parent through chk.violation, in item order of the workers) and
    the counters/lists in `state` (default: the .stats and .samples of the object fn is bound to)."""
    import pickle, copy
    items = list(items)
    if not items:
        return []
    owner = getattr(fn, '__self__', None)
    if state is None:
        state = [getattr(owner, n) for n in ('stats', 'samples') if owner is not None and hasattr(owner, n)]
    if chk is None:
        chk = getattr(owner, 'chk', None)
    W = max(1, min(workers or min(10, max(2, NCPU)), len(items)))
    base = copy.deepcopy(state)
    kids = []
    for w in range(W):
        rfd, wfd = os.pipe()
        sys.stdout.flush(); sys.stderr.flush()
        pid = os.fork()
        if pid == 0:
            code = 1
            try:
                os.close(rfd)
                for k_ in kids:
                    os.close(k_[1])
                rec = []
                if chk is not None:
                    def record(tag, what, replay_obj, no_input=False, finding_key=None, _chk=chk):
                        rec.append((tag, what, replay_obj, no_input, finding_key))
                        known = finding_key is not None and any(k.get('status') == 'open' and k.get('property') == _chk.prop and k.get('key') == finding_key for k in _chk.kf)
                        if not known:
                            _chk.violations.append((what, None, no_input))      # only counted here (early exit of the families)
                    chk.violation = record
                res = []
                err = None
                try:
                    for it in items[w::W]:
                        res.append(fn(it))
                except BaseException as e:
                    import traceback
                    err = '%s\n%s' % (e, traceback.format_exc()[-1500:])
                with os.fdopen(wfd, 'wb') as f:
                    pickle.dump((res, rec, state, err), f)
                code = 0
            finally:
                os._exit(code)
        os.close(wfd)
        kids.append((pid, rfd))
    out = [None] * len(items)
    errors = []
    for w, (pid, rfd) in enumerate(kids):
        with os.fdopen(rfd, 'rb') as f:
            data = f.read()
        os.waitpid(pid, 0)
        if not data:
            errors.append('worker %d died without a result' % w)
            continue
        res, rec, st, err = pickle.loads(data)
        for i, r in zip(range(w, len(items), W), res):
            out[i] = r
        for (tag, what, rep, no_input, key) in rec:
            if len(chk.violations) >= 40 and key is None:
                continue            # enough replay files: every worker stops on its own count only
            chk.violation(tag, what, rep, no_input=no_input, finding_key=key)
        for p_, b_, c_ in zip(state, base, st):
            _merge(p_, b_, c_)
        if err:
            errors.append(err)
    if errors:
        raise RuntimeError('parallel worker failed: ' + errors[0])
    return out


def shim_log(path):
    """[(n, call, path, rest)] of a VSHIM_LOG file"""
    out = []
    if not os.path.exists(path):
        return out
    for l in open(path, errors='replace'):
        p = l.rstrip('\n').split(' ', 3)
        if len(p) >= 3 and p[0].isdigit():
            out.append((int(p[0]), p[1], p[2], p[3] if len(p) > 3 else ''))
    return out
