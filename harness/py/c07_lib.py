"""Helpers shared by check_C07.py and check_C08.py: deterministic small arrays (scenarios), the post-scan state trick,
stripe-level observation of a content file, parallel map, and the serialisation of a model request."""
import os, sys, shutil, random, time, subprocess, signal, json
import concurrent.futures as cf
from common import *
from arraylib import *
from modelbridge import Bridge

T0 = 1_600_000_000 * 10**9          # base mtime of generated files (fixed: arrays are reproducible)
BS = 1024


def build_slow(snap):
    out = os.path.join(snap, 'c07_slow.so')
    if not os.path.exists(out):
        r = run(['gcc', '-shared', '-fPIC', '-O1', '-o', out, os.path.join(VERIF, 'harness', 'c', 'c07_slow.c'), '-ldl'])
        if r.returncode != 0:
            raise BuildError(r.stdout)
    return out


def det_bytes(tag, n):
    """deterministic pseudo-random bytes (never all zero blocks)"""
    return random.Random('c07:' + tag).randbytes(n)


# ---------------------------------------------------------------------------------------------------------------
# scenarios: (name, list of phases); a phase is a list of FS operations followed by a clean sync, except the last one
# whose sync is the command under test.

def scenario_ops(name, nd, nblk=8):
    """returns (pre_phases, pending) : lists of ('write', disk, sub, bytes) / ('remove', disk, sub)"""
    disks = ['d%d' % (i + 1) for i in range(nd)]
    if name == 'fresh':
        # adds only on an empty array: disk i has one file of nblk blocks, the last block partial on d2, one block less on d3
        pend = []
        for i, d in enumerate(disks):
            size = nblk * BS - (100 if i == 1 else 0) - (BS if i == 2 else 0)
            pend.append(('write', d, 'f', det_bytes('%s/f' % d, size)))
        return [], pend
    if name == 'adds':
        # adds only over a synced array: d1 holds a synced file `a` of nblk blocks, the other disks a synced `a` of nblk/2
        # blocks; the pending set adds files on the other disks, i.e. in stripes SHARED with the second half of d1/a (so a
        # half-written stripe matters for a previously synced file), and one file beyond the old end of the array
        pre = [[('write', d, 'a', det_bytes('%s/a' % d, (nblk if i == 0 else nblk // 2) * BS - (7 if i == 0 else 0))) for i, d in enumerate(disks)]]
        pend = []
        for i, d in enumerate(disks):
            if i >= 1:
                pend.append(('write', d, 'n', det_bytes('%s/n' % d, (nblk // 2) * BS - 13 * i)))
        pend.append(('write', disks[0], 'sub/m', det_bytes('%s/m' % disks[0], BS + 5)))
        return pre, pend
    if name == 'adds3':
        # adds only, >= 3 data disks: d1 and d2 hold synced files covering every stripe, the LAST disk is empty and gets the new
        # file: in the stripes of the new file its disk index differs from its rank among the blocks fix has to treat
        # (check.c repair, strategy 2), whichever older disk is lost
        pre = [[('write', d, 'a', det_bytes('%s/a3' % d, nblk * BS - 5 * i)) for i, d in enumerate(disks[:-1])]]
        pend = [('write', disks[-1], 'n', det_bytes('%s/n3' % disks[-1], (nblk // 2) * BS + 9))]
        return pre, pend
    if name == 'addsfit':
        # additions only that do NOT change the parity size: d1 holds a synced file over every stripe, the other disks a shorter one;
        # the new files go behind those, inside the existing parity (with a version 3 content file -- split parity, reduced hash
        # size -- nothing but the additions themselves asks for the content save that precedes the sync loop)
        pre = [[('write', d, 'a', det_bytes('%s/af' % d, (nblk if i == 0 else nblk // 2) * BS - (7 if i == 0 else 0))) for i, d in enumerate(disks)]]
        pend = [('write', d, 'n', det_bytes('%s/nf' % d, (nblk // 2) * BS - 13 * i)) for i, d in enumerate(disks) if i >= 1]
        return pre, pend
    if name == 'touchskip':
        # one stripe really changes (a new one-block file on the last disk lands in stripe 0 beside d1/a), all the others only LOOK
        # changed: d1/b is rewritten with the same bytes and a new time stamp, so its stripes are visited by sync but need no
        # parity update (io_write_next is called with skip set)
        bdata = det_bytes('d1/bskip', nblk * BS)
        pre = [[('write', disks[0], 'a', det_bytes('d1/askip', BS)), ('write', disks[0], 'b', bdata)]]
        pend = [('write', disks[0], 'b', bdata), ('write', disks[-1], 'n', det_bytes('dl/nskip', BS - 5))]
        return pre, pend
    if name == 'wipe':
        # EVERY file of the last data disk is removed (needs sync -E / --force-empty): its blocks become DELETED in stripes shared
        # with the synced files of the other disks, whose parity has to be recomputed; nothing else changes
        pre = [[('write', d, 'a', det_bytes('%s/aw' % d, nblk * BS - 9 * i)) for i, d in enumerate(disks[:-1])] +
               [('write', disks[-1], 'a', det_bytes('%s/aw' % disks[-1], (nblk - 2) * BS)), ('write', disks[-1], 'sub/b', det_bytes('%s/bw' % disks[-1], BS + 3))]]
        pend = [('remove', disks[-1], 'a'), ('remove', disks[-1], 'sub')]
        return pre, pend
    if name == 'mixed':
        # adds + deletes + updates
        pre = [[('write', d, 'a', det_bytes('%s/a' % d, (nblk // 2) * BS)) for d in disks] +
               [('write', d, 'b', det_bytes('%s/b' % d, (nblk // 2) * BS - 33)) for d in disks]]
        pend = [('write', disks[0], 'a', det_bytes('%s/a2' % disks[0], (nblk // 2) * BS)),       # update, same size
                ('remove', disks[-1], 'b'),                                                   # delete
                ('write', disks[0], 'c', det_bytes('%s/c' % disks[0], 2 * BS + 1)),              # add
                ('write', disks[-1], 'e', det_bytes('%s/e' % disks[-1], BS))]                    # add over a deleted position
        return pre, pend
    raise ValueError(name)


class Scn:
    """a reproducible array: build() creates it (replaying the phases with clean syncs), pending changes applied"""

    def __init__(self, binary, shim, name, nd, np_, ncontent=1, nblk=8, splits=1, hashsize=None):
        self.binary, self.shim, self.name, self.nd, self.np, self.ncontent, self.nblk = binary, shim, name, nd, np_, ncontent, nblk
        self.splits, self.hashsize = splits, hashsize        # split parity / reduced hash size: version 3 content files
        self.pre, self.pend = scenario_ops(name, nd, nblk)

    def apply(self, a, ops, tbase):
        for k, op in enumerate(ops):
            if op[0] == 'write':
                a.write(op[1], op[2], op[3], mtime_ns=tbase + k * 10**9 + 123456789)
            else:
                a.remove(op[1], op[2])

    def build(self, pending=True):
        a = Array(self.binary, nd=self.nd, np_=self.np, ncontent=self.ncontent, shim=self.shim, splits=self.splits, hashsize=self.hashsize)
        a.splits_, a.hashsize_ = self.splits, self.hashsize
        for i, ph in enumerate(self.pre):
            self.apply(a, ph, T0 + i * 1000 * 10**9)
            r = a.run('sync')
            if r.rc != 0:
                raise RuntimeError('scenario %s: clean sync failed: %r' % (self.name, r))
        if pending:
            self.apply(a, self.pend, T0 + 50000 * 10**9)
        return a

    def describe(self):
        return {'scenario': self.name, 'nd': self.nd, 'np': self.np, 'ncontent': self.ncontent, 'nblk': self.nblk, 'splits': self.splits, 'hashsize': self.hashsize}


def drop(a):
    shutil.rmtree(a.root, ignore_errors=True)


# ---------------------------------------------------------------------------------------------------------------
# observation

def stripe_view(a, st):
    """pos -> {'states': [state per allocated block incl. 'DEL'], 'info': info or None, 'allblk': bool, 'healthy': bool}"""
    stripes, order = a.stripes(st)
    view = {}
    for pos in range(max(list(stripes.keys()) + [-1]) + 1):
        bl = stripes.get(pos, {})
        states = [b[0] for _, b in sorted(bl.items())]
        info = st['info'][pos] if pos < len(st['info']) else None
        hasfile = any(s != 'DEL' for s in states)
        allblk = hasfile and all(s == 'BLK' for s in states)
        view[pos] = {'states': states, 'info': info, 'hasfile': hasfile, 'allblk': allblk,
                     'healthy': allblk and info is not None and not info['bad']}
    return view


def enabled_stripes(a, st, force_full=False):
    """the stripes a sync loop will process (block_is_enabled), from the post-scan content, by the independent decoder"""
    v = stripe_view(a, st)
    return [p for p in sorted(v) if v[p]['hasfile'] and (force_full or any(s != 'BLK' for s in v[p]['states']))]


def file_stripes(a, st, disk, sub):
    for f in st['disks'].get(disk, {'files': []})['files']:
        if f['sub'].decode('latin1') == sub:
            return [pos for (s, pos, h) in f['blocks']]
    return []


def post_scan(a, extra=()):
    """run a sync that is killed just before its first parity write: the post-scan state is saved, parity resized"""
    r = a.run('sync', *extra, shim_env={'VSHIM_KILL_ON': 'pwrite:.parity:1:before'})
    return r


def all_synced(a, st):
    v = stripe_view(a, st)
    bad = [p for p in v if v[p]['states'] and not v[p]['healthy']]
    return bad


def data_equal(s1, s2, ignore_mtime_of=()):
    """compare two snapshot_data() dicts: bytes, mtime, links, dirs (inode/nlink ignored).  Returns list of differences"""
    diffs = []
    for k in sorted(set(s1) | set(s2)):
        a, b = s1.get(k), s2.get(k)
        if a is None or b is None:
            diffs.append('%s:%s %s' % (k[0], k[1], 'missing' if b is None else 'extra'))
            continue
        if a[0] != b[0]:
            diffs.append('%s:%s kind %s -> %s' % (k[0], k[1], a[0], b[0]))
        elif a[0] == 'f':
            if a[1] != b[1]:
                diffs.append('%s:%s bytes differ (%d -> %d bytes)' % (k[0], k[1], len(a[1]), len(b[1])))
            elif a[2] != b[2] and k not in ignore_mtime_of:
                diffs.append('%s:%s mtime %d -> %d' % (k[0], k[1], a[2], b[2]))
        elif a[0] == 'l' and a[1] != b[1]:
            diffs.append('%s:%s link target' % k)
    return diffs


def pmap(fn, items, workers=None):
    workers = workers or min(16, max(2, NCPU))
    with cf.ThreadPoolExecutor(max_workers=workers) as ex:
        return list(ex.map(fn, items))


def shim_log(path):
    """[(n, call, path, rest)] of a VSHIM_LOG file"""
    out = []
    if not os.path.exists(path):
        return out
    for l in open(path, errors='replace'):
        p = l.rstrip('\n').split(' ', 3)
        if len(p) >= 3 and p[0].isdigit():
            out.append((int(p[0]), p[1], p[2], p[3] if len(p) > 3 else ''))
    return out
