"""C09: length-prefixed string fields of a content file, located by the independent decoder harness/py/content.py (its reader
is wrapped here to record where every sgetbs-style field starts), and the boundary-aimed mutant family built on them:
the length varint of every string field replaced by encodings of lengths around the buffer capacities of the loader
(UUID_MAX = 128, PATH_MAX = 4096), of 2^31 and 2^32-1, and by non-canonical over-long encodings; the bytes that follow are kept,
padded so that enough data follows, or cut so that end-of-file follows."""
import content

SIZES = (128, 4096)


def vb(v):
    out = bytearray()
    while v >= 0x80:
        out.append(v & 0x7f)
        v >>= 7
    out.append(v | 0x80)
    return bytes(out)


def vb_padded(v, nbytes):
    """non-canonical: the same value with zero groups appended (sgetb32 accepts up to 5 bytes)"""
    out = bytearray()
    for _ in range(nbytes - 1):
        out.append(v & 0x7f)
        v >>= 7
    out.append((v & 0x7f) | 0x80)
    return bytes(out)


class _RecR(content.R):
    fields = None

    def bs(self):
        start = self.p
        n = self.b32()
        vend = self.p
        v = self.take(n)
        _RecR.fields.append((start, vend - start, n))
        return v


def string_fields(data):
    """[(offset of the length varint, its size in bytes, string length)] for every string field, in file order"""
    _RecR.fields = []
    saved = content.R
    content.R = _RecR
    try:
        content.parse(data)
    finally:
        content.R = saved
    return list(_RecR.fields)


def length_encodings(n):
    """(label, varint bytes, declared length) to put in place of the length of a string of n bytes"""
    encs = []
    for size in SIZES:
        for L in (size - 2, size - 1, size, size + 1):
            encs.append(('len=%d' % L, vb(L), L))
        encs.append(('len=%d/5bytes' % size, vb_padded(size, 5), size))
    encs.append(('len=2^31', vb(1 << 31), 1 << 31))
    encs.append(('len=2^32-1', vb((1 << 32) - 1), (1 << 32) - 1))
    encs.append(('len=2^32-1/7f7f7f7fff', bytes([0x7f, 0x7f, 0x7f, 0x7f, 0xff]), (1 << 32) - 1))
    encs.append(('same/2bytes', vb_padded(n, 2), n))
    encs.append(('same/5bytes', vb_padded(n, 5), n))
    encs.append(('overlong/6bytes', bytes([0, 0, 0, 0, 0, 0x80 | (n & 0x7f)]), None))
    encs.append(('len=0', vb(0), 0))
    return encs


def boundary_mutants(data, quick=False):
    """list of ('raw', bytes) mutants with a description attached as third element"""
    ms = []
    for (off, vl, n) in string_fields(data):
        pre = data[:off]
        rest = data[off + vl:]          # the old string bytes and everything after
        after = data[off + vl + n:]     # what followed the old string
        for label, enc, L in length_encodings(n):
            variants = [('keep', pre + enc + rest)]
            if L is not None and L <= 8192:
                variants.append(('pad', pre + enc + b'A' * L + after))            # enough data follows
                variants.append(('pad-eof', pre + enc + b'A' * L))                # exactly the string, then end of file
                if L > 0:
                    variants.append(('cut', pre + enc + b'A' * (L - 1)))          # one byte short: end of file inside the string
            variants.append(('eof', pre + enc))
            for vname, b in variants:
                if b != data:
                    ms.append(('raw', b, 'string field at offset %d (length %d): %s, %s' % (off, n, label, vname)))
    if quick:
        # keep every 'pad' (the case that reaches str[len] = 0 with len == capacity) and a third of the others
        ms = [m for i, m in enumerate(ms) if ', pad' in m[2] or i % 3 == 0]
    return ms


def legacy_file(hashkind=b'u', prev=None):
    """a hand-encoded content file in the oldest layout the loader still imports: SNAPCNT1 header, deprecated 'm' map record,
    'P' parity record, a file whose blocks are a deprecated 'n' (NEW, no hash stored) run followed by a 'b' run, murmur3 hash
    record ('c' 'u'), an empty dir and a symlink, an info run without info, 'N' + crc.  No writer of the current tree produces
    'm' / 'n'; the loader must refuse every damaged version of such a file like any other."""
    import struct

    def bs(s):
        return vb(len(s)) + s
    b = b'SNAPCNT1\n\x03\x00\x00'
    b += b'z' + vb(1024) + b'x' + vb(3)
    b += b'c' + hashkind + bytes(range(16))
    if prev:
        b += b'C' + prev + bytes(range(16, 32))
    b += b'm' + bs(b'd1') + vb(0) + bs(b'')
    b += b'P' + vb(0) + vb(1000) + vb(900) + bs(b'')
    b += b'f' + vb(0) + vb(2500) + vb(1600000000) + vb(124) + vb(4242) + bs(b'old')
    b += b'n' + vb(0) + vb(2)
    b += b'b' + vb(2) + vb(1) + bytes(range(100, 116))
    b += b'r' + vb(0) + bs(b'edir')
    b += b's' + vb(0) + bs(b'lnk') + bs(b'old')
    b += b'i' + vb(1600000000) + vb(2) + vb(0) + vb(1) + vb(1) + vb(5)
    b += b'N'
    return b + struct.pack('<I', content.crc32c(b))


def features(data):
    """what a content file contains, by the independent decoder: used to show that every record kind / variant the loader knows is
    present in at least one file that the sweeps damage at every bit and truncate at every length"""
    st = content.parse(data)
    fs = {'format_v%d' % st['version'], 'hashsize_%d' % st['hashsize'], 'hash_%s' % st['hash']}
    if st['prevhash']:
        fs.add('C_prevhash_record')
    for m in st['maps']:
        fs.add('map_with_uuid' if m['uuid'] else 'map_without_uuid')
    for lev, v in st['levels'].items():
        for sp in v['splits']:
            if sp['path'] is None:
                fs.add('P_parity_record')
            else:
                fs.add('Q_split_record')
                if sp['uuid']:
                    fs.add('Q_split_with_uuid')
        if len(v['splits']) > 1:
            fs.add('Q_several_splits')
    for d in st['disks'].values():
        for f in d['files']:
            fs.add('file_record')
            if f['size'] == 0:
                fs.add('zero_size_file')
            if len(f['sub']) > 3000:
                fs.add('name_near_PATH_MAX')
            if f['nsec'] < 0:
                fs.add('file_without_nsec')
            for b in f['blocks']:
                fs.add('block_' + b[0])
        for l in d['links']:
            fs.add('hardlink_record' if l['hard'] else 'symlink_record')
        if d['dirs']:
            fs.add('dir_record')
        if d['deleted']:
            fs.add('hole_record_with_deleted_hashes')
    for i in st['info']:
        if i is None:
            fs.add('info_run_without_info')
        else:
            fs.add('info_run')
            for k in ('bad', 'rehash', 'justsynced'):
                if i[k]:
                    fs.add('info_' + k)
    if len({(None if i is None else (i['time'], i['bad'], i['rehash'], i['justsynced'])) for i in st['info']}) > 1:
        fs.add('several_info_runs')
    if data[:8] == b'SNAPCNT1':
        fs.add('legacy_m_map_and_n_blocks')
    return fs


REQUIRED_FEATURES = ['format_v1', 'format_v2', 'format_v3', 'hashsize_16', 'hashsize_8', 'hashsize_4', 'hash_spooky2', 'hash_murmur3',
                     'C_prevhash_record', 'map_with_uuid', 'map_without_uuid', 'P_parity_record', 'Q_split_record', 'Q_split_with_uuid',
                     'Q_several_splits', 'file_record', 'zero_size_file', 'name_near_PATH_MAX', 'block_BLK', 'block_CHG', 'block_REP',
                     'hardlink_record', 'symlink_record', 'dir_record', 'hole_record_with_deleted_hashes', 'info_run', 'info_run_without_info',
                     'info_bad', 'info_rehash', 'info_justsynced', 'several_info_runs', 'legacy_m_map_and_n_blocks']


def add_split_uuids(data):
    """a valid variant of a v3 file whose 'Q' records carry a uuid for every split (the tool only writes them on file systems that
    report one): the empty uuid string after every split path is replaced and the file is re-sealed"""
    import struct
    fs = string_fields(data)
    out = bytearray()
    last = 0
    n = 0
    for k, (off, vl, ln) in enumerate(fs):
        if ln == 0 and k > 0 and data[fs[k - 1][0] + fs[k - 1][1]:][:5] == b'./par':
            out += data[last:off] + vb(11) + b'par-uuid-%02d' % n
            last = off + vl
            n += 1
    out += data[last:]
    body = bytes(out[:-4])
    return body + struct.pack('<I', content.crc32c(body))
