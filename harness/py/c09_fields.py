"""C09: length-prefixed string fields of a content file, located by the independent decoder harness/py/content.py (its reader
is wrapped here to record where every sgetbs-style field starts), and the boundary-aimed mutant family built on them:
the length varint of every string field replaced by encodings of lengths around the buffer capacities of the loader
(UUID_MAX = 128, PATH_MAX = 4096), of 2^31 and 2^32-1, and by non-canonical over-long encodings; the bytes that follow are kept,
padded so that enough data follows, or cut so that end-of-file follows."""
import content

SIZES = (128, 4096)


def vb(v):
    out = bytearray()
    while v >= 0x80:
        out.append(v & 0x7f)
        v >>= 7
    out.append(v | 0x80)
    return bytes(out)


def vb_padded(v, nbytes):
    """non-canonical: the same value with zero groups appended (sgetb32 accepts up to 5 bytes)"""
    out = bytearray()
    for _ in range(nbytes - 1):
        out.append(v & 0x7f)
        v >>= 7
    out.append((v & 0x7f) | 0x80)
    return bytes(out)


class _RecR(content.R):
    fields = None

    def bs(self):
        start = self.p
        n = self.b32()
        vend = self.p
        v = self.take(n)
        _RecR.fields.append((start, vend - start, n))
        return v


def string_fields(data):
    """[(offset of the length varint, its size in bytes, string length)] for every string field, in file order"""
    _RecR.fields = []
    saved = content.R
    content.R = _RecR
    try:
        content.parse(data)
    finally:
        content.R = saved
    return list(_RecR.fields)


def length_encodings(n):
    """(label, varint bytes, declared length) to put in place of the length of a string of n bytes"""
    encs = []
    for size in SIZES:
        for L in (size - 2, size - 1, size, size + 1):
            encs.append(('len=%d' % L, vb(L), L))
        encs.append(('len=%d/5bytes' % size, vb_padded(size, 5), size))
    encs.append(('len=2^31', vb(1 << 31), 1 << 31))
    encs.append(('len=2^32-1', vb((1 << 32) - 1), (1 << 32) - 1))
    encs.append(('len=2^32-1/7f7f7f7fff', bytes([0x7f, 0x7f, 0x7f, 0x7f, 0xff]), (1 << 32) - 1))
    encs.append(('same/2bytes', vb_padded(n, 2), n))
    encs.append(('same/5bytes', vb_padded(n, 5), n))
    encs.append(('overlong/6bytes', bytes([0, 0, 0, 0, 0, 0x80 | (n & 0x7f)]), None))
    encs.append(('len=0', vb(0), 0))
    return encs


def boundary_mutants(data, quick=False):
    """list of ('raw', bytes) mutants with a description attached as third element"""
    ms = []
    for (off, vl, n) in string_fields(data):
        pre = data[:off]
        rest = data[off + vl:]          # the old string bytes and everything after
        after = data[off + vl + n:]     # what followed the old string
        for label, enc, L in length_encodings(n):
            variants = [('keep', pre + enc + rest)]
            if L is not None and L <= 8192:
                variants.append(('pad', pre + enc + b'A' * L + after))            # enough data follows
                variants.append(('pad-eof', pre + enc + b'A' * L))                # exactly the string, then end of file
                if L > 0:
                    variants.append(('cut', pre + enc + b'A' * (L - 1)))          # one byte short: end of file inside the string
            variants.append(('eof', pre + enc))
            for vname, b in variants:
                if b != data:
                    ms.append(('raw', b, 'string field at offset %d (length %d): %s, %s' % (off, n, label, vname)))
    if quick:
        # keep every 'pad' (the case that reaches str[len] = 0 with len == capacity) and a third of the others
        ms = [m for i, m in enumerate(ms) if ', pad' in m[2] or i % 3 == 0]
    return ms
