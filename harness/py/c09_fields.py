"""C09: length-prefixed string fields of a content file, located by the independent decoder harness/py/content.py (its reader
is wrapped here to record where every sgetbs-style field starts), and the boundary-aimed mutant family built on them:
the length varint of every string field replaced by encodings of lengths around the buffer capacities of the loader
(UUID_MAX = 128, PATH_MAX = 4096), of 2^31 and 2^32-1, and by non-canonical over-long encodings; the bytes that follow are kept,
padded so that enough data follows, or cut so that end-of-file follows."""
import content

SIZES = (128, 4096)


def vb(v):
    out = bytearray()
    while v >= 0x80:
        out.append(v & 0x7f)
        v >>= 7
    out.append(v | 0x80)
    return bytes(out)


def vb_padded(v, nbytes):
    """non-canonical: the same value with zero groups appended (sgetb32 accepts up to 5 bytes)"""
    out = bytearray()
    for _ in range(nbytes - 1):
        out.append(v & 0x7f)
        v >>= 7
    out.append((v & 0x7f) | 0x80)
    return bytes(out)


_BaseR = content.R


class _RecR(_BaseR):
    fields = None
    ints = None          # every packed-integer field: (offset, size in bytes, value, 32 | 64, is a string length)
    _in_bs = False

    def b32(self):
        start = self.p
        v = _BaseR.b32(self)
        if _RecR.ints is not None:
            _RecR.ints.append((start, self.p - start, v, 32, _RecR._in_bs))
        return v

    def b64(self):
        start = self.p
        v = _BaseR.b64(self)
        if _RecR.ints is not None:
            _RecR.ints.append((start, self.p - start, v, 64, False))
        return v

    def bs(self):
        start = self.p
        _RecR._in_bs = True
        try:
            n = self.b32()
        finally:
            _RecR._in_bs = False
        vend = self.p
        v = self.take(n)
        _RecR.fields.append((start, vend - start, n))
        return v


def int_fields(data):
    """[(offset, size, value, width, is_string_length)] for every packed integer the grammar reads: mapping indexes, sizes, times,
    inodes, block-run positions and counts, hole / info run counts and flags, map positions, parity totals, split counts, ..."""
    _RecR.fields = []
    _RecR.ints = []
    saved = content.R
    content.R = _RecR
    try:
        content.parse(data)
    finally:
        content.R = saved
    r = list(_RecR.ints)
    _RecR.ints = None
    return r


def vb5(v):
    """v mod 2^35 as exactly five bytes (sgetb32 drops what is shifted above bit 31)"""
    return bytes([(v >> (7 * i)) & 0x7f for i in range(4)] + [0x80 | ((v >> 28) & 0x7f)])


def int_encodings(width):
    encs = [('0', vb(0)), ('1', vb(1)), ('0x7FFFFFFF', vb(0x7FFFFFFF)), ('0xFFFFFFFE', vb(0xFFFFFFFE)), ('0xFFFFFFFF', vb(0xFFFFFFFF)),
            ('0xFFFFFFFF/7f7f7f7f8f', bytes([0x7f, 0x7f, 0x7f, 0x7f, 0x8f])), ('2^32 in 5 bytes', vb5(1 << 32)), ('2^32+1 in 5 bytes', vb5((1 << 32) + 1))]
    if width == 64:
        encs += [('2^63-1', vb((1 << 63) - 1)), ('2^63', vb(1 << 63)), ('2^64-1', vb((1 << 64) - 1))]
    return encs


def int_field_mutants(data, strings_too=False):
    """structure-aware multi-byte damage: every packed-integer field of the file replaced by boundary encodings, (a) spliced in place of
    the old encoding (the bytes that follow keep their meaning) and (b) written over the bytes at the field's offset (same file length:
    the bytes that follow are eaten, as in an in-place overwrite)"""
    ms = []
    for (off, sz, val, width, is_len) in int_fields(data):
        if is_len and not strings_too:
            continue            # string lengths have their own family (boundary_mutants)
        for label, enc in int_encodings(width):
            a = data[:off] + enc + data[off + sz:]
            b = (data[:off] + enc + data[off + len(enc):])[:max(len(data), off + len(enc))]
            for how, m in (('spliced', a), ('overwritten', b)):
                if m != data:
                    ms.append(('raw', m, 'integer field at offset %d (%d-bit, value %d): %s, %s' % (off, width, val, label, how)))
    return ms


def string_fields(data):
    """[(offset of the length varint, its size in bytes, string length)] for every string field, in file order"""
    _RecR.fields = []
    saved = content.R
    content.R = _RecR
    try:
        content.parse(data)
    finally:
        content.R = saved
    return list(_RecR.fields)


def length_encodings(n):
    """(label, varint bytes, declared length) to put in place of the length of a string of n bytes"""
    encs = []
    for size in SIZES:
        for L in (size - 2, size - 1, size, size + 1):
            encs.append(('len=%d' % L, vb(L), L))
        encs.append(('len=%d/5bytes' % size, vb_padded(size, 5), size))
    encs.append(('len=2^31', vb(1 << 31), 1 << 31))
    encs.append(('len=2^32-1', vb((1 << 32) - 1), (1 << 32) - 1))
    encs.append(('len=2^32-1/7f7f7f7fff', bytes([0x7f, 0x7f, 0x7f, 0x7f, 0xff]), (1 << 32) - 1))
    encs.append(('same/2bytes', vb_padded(n, 2), n))
    encs.append(('same/5bytes', vb_padded(n, 5), n))
    encs.append(('overlong/6bytes', bytes([0, 0, 0, 0, 0, 0x80 | (n & 0x7f)]), None))
    encs.append(('len=0', vb(0), 0))
    return encs


def boundary_mutants(data, quick=False):
    """list of ('raw', bytes) mutants with a description attached as third element"""
    ms = []
    for (off, vl, n) in string_fields(data):
        pre = data[:off]
        rest = data[off + vl:]          # the old string bytes and everything after
        after = data[off + vl + n:]     # what followed the old string
        for label, enc, L in length_encodings(n):
            variants = [('keep', pre + enc + rest)]
            if L is not None and L <= 8192:
                variants.append(('pad', pre + enc + b'A' * L + after))            # enough data follows
                variants.append(('pad-eof', pre + enc + b'A' * L))                # exactly the string, then end of file
                if L > 0:
                    variants.append(('cut', pre + enc + b'A' * (L - 1)))          # one byte short: end of file inside the string
            variants.append(('eof', pre + enc))
            for vname, b in variants:
                if b != data:
                    ms.append(('raw', b, 'string field at offset %d (length %d): %s, %s' % (off, n, label, vname)))
    if quick:
        # keep every 'pad' (the case that reaches str[len] = 0 with len == capacity) and a third of the others
        ms = [m for i, m in enumerate(ms) if ', pad' in m[2] or i % 3 == 0]
    return ms


def legacy_file(hashkind=b'u', prev=None):
    """a hand-encoded content file in the oldest layout the loader still imports: SNAPCNT1 header, deprecated 'm' map record,
    'P' parity record, a file whose blocks are a deprecated 'n' (NEW, no hash stored) run followed by a 'b' run, murmur3 hash
    record ('c' 'u'), an empty dir and a symlink, an info run without info, 'N' + crc.  No writer of the current tree produces
    'm' / 'n'; the loader must refuse every damaged version of such a file like any other."""
    import struct

    def bs(s):
        return vb(len(s)) + s
    b = b'SNAPCNT1\n\x03\x00\x00'
    b += b'z' + vb(1024) + b'x' + vb(3)
    b += b'c' + hashkind + bytes(range(16))
    if prev:
        b += b'C' + prev + bytes(range(16, 32))
    b += b'm' + bs(b'd1') + vb(0) + bs(b'')
    b += b'P' + vb(0) + vb(1000) + vb(900) + bs(b'')
    b += b'f' + vb(0) + vb(2500) + vb(1600000000) + vb(124) + vb(4242) + bs(b'old')
    b += b'n' + vb(0) + vb(2)
    b += b'b' + vb(2) + vb(1) + bytes(range(100, 116))
    b += b'r' + vb(0) + bs(b'edir')
    b += b's' + vb(0) + bs(b'lnk') + bs(b'old')
    b += b'i' + vb(1600000000) + vb(2) + vb(0) + vb(1) + vb(1) + vb(5)
    b += b'N'
    return b + struct.pack('<I', content.crc32c(b))


def features(data):
    """what a content file contains, by the independent decoder: used to show that every record kind / variant the loader knows is
    present in at least one file that the sweeps damage at every bit and truncate at every length"""
    st = content.parse(data)
    fs = {'format_v%d' % st['version'], 'hashsize_%d' % st['hashsize'], 'hash_%s' % st['hash']}
    if st['prevhash']:
        fs.add('C_prevhash_record')
    for m in st['maps']:
        fs.add('map_with_uuid' if m['uuid'] else 'map_without_uuid')
    for lev, v in st['levels'].items():
        for sp in v['splits']:
            if sp['path'] is None:
                fs.add('P_parity_record')
            else:
                fs.add('Q_split_record')
                if sp['uuid']:
                    fs.add('Q_split_with_uuid')
        if len(v['splits']) > 1:
            fs.add('Q_several_splits')
    for d in st['disks'].values():
        for f in d['files']:
            fs.add('file_record')
            if f['size'] == 0:
                fs.add('zero_size_file')
            if len(f['sub']) > 3000:
                fs.add('name_near_PATH_MAX')
            if f['nsec'] < 0:
                fs.add('file_without_nsec')
            for b in f['blocks']:
                fs.add('block_' + b[0])
        for l in d['links']:
            fs.add('hardlink_record' if l['hard'] else 'symlink_record')
        if d['dirs']:
            fs.add('dir_record')
        if d['deleted']:
            fs.add('hole_record_with_deleted_hashes')
    for i in st['info']:
        if i is None:
            fs.add('info_run_without_info')
        else:
            fs.add('info_run')
            for k in ('bad', 'rehash', 'justsynced'):
                if i[k]:
                    fs.add('info_' + k)
    if len({(None if i is None else (i['time'], i['bad'], i['rehash'], i['justsynced'])) for i in st['info']}) > 1:
        fs.add('several_info_runs')
    for d in st['disks'].values():
        for f in d['files']:
            pos = [b[1] for b in f['blocks']]
            if any(pos[i + 1] != pos[i] + 1 for i in range(len(pos) - 1)):
                fs.add('file_in_several_block_runs')
    if data[:8] == b'SNAPCNT1':
        fs.add('legacy_m_map_and_n_blocks')
    return fs


REQUIRED_FEATURES = ['format_v1', 'format_v2', 'format_v3', 'hashsize_16', 'hashsize_8', 'hashsize_4', 'hash_spooky2', 'hash_murmur3',
                     'C_prevhash_record', 'map_with_uuid', 'map_without_uuid', 'P_parity_record', 'Q_split_record', 'Q_split_with_uuid',
                     'Q_several_splits', 'file_record', 'zero_size_file', 'name_near_PATH_MAX', 'block_BLK', 'block_CHG', 'block_REP',
                     'hardlink_record', 'symlink_record', 'dir_record', 'hole_record_with_deleted_hashes', 'info_run', 'info_run_without_info',
                     'info_bad', 'info_rehash', 'info_justsynced', 'several_info_runs', 'legacy_m_map_and_n_blocks', 'file_in_several_block_runs']


def add_split_uuids(data):
    """a valid variant of a v3 file whose 'Q' records carry a uuid for every split (the tool only writes them on file systems that
    report one): the empty uuid string after every split path is replaced and the file is re-sealed"""
    import struct
    fs = string_fields(data)
    out = bytearray()
    last = 0
    n = 0
    for k, (off, vl, ln) in enumerate(fs):
        if ln == 0 and k > 0 and data[fs[k - 1][0] + fs[k - 1][1]:][:5] == b'./par':
            out += data[last:off] + vb(11) + b'par-uuid-%02d' % n
            last = off + vl
            n += 1
    out += data[last:]
    body = bytes(out[:-4])
    return body + struct.pack('<I', content.crc32c(body))
