"""C09 part B: atomic replacement of the content copies on the real binary, by killing it at every state-changing
system call of the save-verify-rename sequence (LD_PRELOAD shim harness/c/c09_shim.c) and looking at what is on disk."""
import os, shutil, re
from concurrent.futures import ThreadPoolExecutor
import c09_lib as L

MATCH = '/content'
T0 = 1700000000
T1 = 1700000777


def parse_log(path):
    ev = []
    try:
        lines = open(path, errors='replace').read().splitlines()
    except FileNotFoundError:
        return ev
    for l in lines:
        m = re.match(r'^(\d+) (\w+) (\S+)(?: (\S+))?(?: (.*?))? = (-?\d+)(.*)$', l)
        if m:
            n, op, p1, p2, detail, res, tail = m.groups()
            if op != 'rename' and p2 is not None:
                detail = (p2 + ' ' + (detail or '')).strip()
                p2 = None
            ev.append(dict(n=int(n), op=op, path=p1, path2=p2, detail=detail or '', res=int(res), tail=tail))
        elif l.startswith('KILL') or 'SHORT' in l:
            ev.append(dict(n=-1, op='KILL', path=l, path2=None, detail='', res=0, tail=''))
    return ev


def rounds_of(ev, ncopies):
    """a save round ends with the ncopies-th rename; returns [(first_n, last_n)] of the numbered calls of each round"""
    rounds = []
    start = None
    cnt = 0
    for e in ev:
        if e['n'] <= 0:
            continue
        if start is None:
            start = e['n']
        if e['op'] == 'rename':
            cnt += 1
            if cnt == ncopies:
                rounds.append((start, e['n']))
                start = None
                cnt = 0
    return rounds


def check_protocol(ev, contents):
    """independent statement of the save protocol, checked on the system-call log of an un-killed run:
    nothing but rename ever touches content_i; every rename is tmp_i -> content_i; and when the first rename of a round happens,
    EVERY tmp_j of that round has been created with O_CREAT|O_EXCL, written, fsync'ed after its last write, closed, re-opened
    read-only and read up to end-of-file (the verification), with no write after that."""
    probs = []
    cset = set(contents)
    tmps = {c + '.tmp': c for c in contents}
    st = {t: dict(created=False, written=0, synced=False, closed=False, reopened=False, eof=False, rclosed=False) for t in tmps}
    renamed = set()
    for e in ev:
        op, p = e['op'], e['path']
        if op == 'KILL':
            continue
        if p in cset and op != 'rename':
            if op in ('open',) and 'RDONLY' in e['detail'] and 'CREAT' not in e['detail'] and 'TRUNC' not in e['detail']:
                continue
            if op in ('read', 'close') and e['n'] == 0:
                continue
            probs.append('content copy %s touched directly by %s %s (call %d)' % (p, op, e['detail'], e['n']))
            continue
        if op == 'rename':
            src, dst = p, e['path2']
            if src not in tmps or tmps[src] != dst:
                probs.append('rename %s -> %s is not tmp_i -> content_i' % (src, dst))
                continue
            if e['res'] != 0:
                probs.append('rename %s failed' % src)
            if not renamed:
                for t, s in st.items():
                    missing = [k for k in ('created', 'synced', 'closed', 'reopened', 'eof') if not s[k]] + ([] if s['written'] else ['written'])
                    if missing:
                        probs.append('first rename (call %d) happens while %s is not yet %s' % (e['n'], t, '/'.join(missing)))
            renamed.add(src)
            if len(renamed) == len(tmps):
                renamed = set()
                for s in st.values():
                    s.update(created=False, written=0, synced=False, closed=False, reopened=False, eof=False, rclosed=False)
            continue
        if p in st:
            s = st[p]
            if op == 'unlink':
                if s['created'] and not renamed:
                    probs.append('%s unlinked after creation' % p)
            elif op == 'open':
                if 'RDONLY' in e['detail'] and 'CREAT' not in e['detail']:
                    if not (s['closed'] and s['synced']):
                        probs.append('%s re-opened for verification before fsync+close' % p)
                    s['reopened'] = True
                else:
                    if 'CREAT' not in e['detail'] or 'EXCL' not in e['detail']:
                        probs.append('%s opened for writing without O_CREAT|O_EXCL (%s)' % (p, e['detail']))
                    if e['res'] < 0:
                        probs.append('%s could not be created' % p)
                    s['created'] = True
            elif op in ('write', 'pwrite'):
                if s['closed'] or s['reopened']:
                    probs.append('%s written after close/verification' % p)
                s['written'] += 1
                s['synced'] = False
            elif op in ('fsync', 'fdatasync'):
                s['synced'] = True
            elif op == 'close':
                if e['n'] > 0:
                    s['closed'] = True
                else:
                    s['rclosed'] = True
            elif op == 'read':
                if e['res'] == 0 and s['reopened']:
                    s['eof'] = True
            elif op in ('ftruncate', 'truncate'):
                probs.append('%s truncated' % p)
    return probs


def log_calls(ev, contents, rnd):
    """the numbered calls of one save round of the log in the model's vocabulary (call:copy:bytes); the read-only verification
    traffic of each temporary (threads, any interleaving) is collapsed to one verify:<i>:0 placed, in copy order, where the model
    puts it: after the last close, before the first rename"""
    a, b = rnd
    idx = {}
    for i, c in enumerate(contents):
        idx[c] = i
        idx[c + '.tmp'] = i
    out = []
    verified = set()
    sizes = []
    inside = False
    pending = {}
    for e in ev:
        if e['n'] == a:
            inside = True
        if not inside or e['op'] == 'KILL' or e['path'] not in idx:
            continue
        i = idx[e['path']]
        if e['n'] > 0:
            if e['op'] == 'rename' and verified is not None:
                out += ['verify:%d:0' % k for k in sorted(verified)]
                verified = None
            if e['op'] == 'unlink':
                out.append('unlink:%d:0' % i)
            elif e['op'] == 'open':
                out.append(('openexcl:%d:0' if ('CREAT' in e['detail'] and 'EXCL' in e['detail']) else 'open?:%d:0') % i)
            elif e['op'] in ('write', 'pwrite'):
                out.append('write:%d:%d' % (i, e['res']))
                if i == 0:
                    sizes.append(e['res'])
            elif e['op'] in ('fsync', 'fdatasync'):
                out.append('fsync:%d:0' % i)
            elif e['op'] == 'close':
                out.append('close:%d:0' % i)
            elif e['op'] == 'rename':
                out.append('rename:%d:0' % i)
            else:
                out.append('%s:%d:0' % (e['op'], i))
        elif e['path'].endswith('.tmp'):
            if e['op'] == 'open':
                pending[i] = 'open'
            elif e['op'] == 'read' and e['res'] == 0 and pending.get(i) == 'open':
                pending[i] = 'eof'
            elif e['op'] == 'close' and pending.get(i) == 'eof' and verified is not None:
                verified.add(i)
        if e['n'] == b:
            break
    return out, sizes


class KillScenario:
    def __init__(self, tool, shim, root, ncopies, rng, big=False, spec=None):
        self.tool, self.shim, self.root, self.nc = tool, shim, root, ncopies
        self.spec = dict(spec or dict(name='kill%d' % ncopies, ndisk=2, npar=1, split=False, hashsize=16, history='plain', rich=True))
        self.spec['dataroot'] = '../data'
        self.contents = ['./c%d/content' % (i + 1) for i in range(ncopies)]
        self.rng = rng
        self.big = big
        self.stats = dict(kills=0, not_killed=0, left_tmp=0, mixed=0, all_old=0, all_new=0, resync_equal_new=0, rounds=0, calls=0)

    def env(self, t, log=None, kill=None, fault=None):
        e = {'LD_PRELOAD': self.shim, 'C09_FAKE_TIME': str(t), 'C09_MATCH': MATCH}
        if fault:
            e['C09_FAULT_AT'] = str(fault[0])
            e['C09_FAULT_MODE'] = fault[1]
        if log:
            e['C09_LOG'] = log
        if kill:
            e['C09_KILL_AT'] = str(kill[0])
            e['C09_KILL_MODE'] = kill[1]
        env = L.tool_env()
        env.update(e)
        return env

    def read_copies(self, wd):
        res = []
        for c in self.contents:
            try:
                with open(os.path.join(wd, c), 'rb') as f:
                    res.append(f.read())
            except FileNotFoundError:
                res.append(None)
        return res

    def clone(self, name):
        wd = os.path.join(self.root, name)
        shutil.copytree(os.path.join(self.root, 'base'), wd, symlinks=True)
        return wd

    def prepare(self):
        """base array synced at T0, then a pending change; twin runs give the versions V_0 (old) .. V_R (final) and the call log"""
        data = os.path.join(self.root, 'data')
        base = os.path.join(self.root, 'base')
        os.makedirs(base)
        L.populate(data, self.spec, self.rng)
        if self.big:
            bd = os.path.join(data, 'd1', 'many')
            os.makedirs(bd)
            for i in range(2600):
                open(os.path.join(bd, 'empty_file_number_%05d' % i), 'wb').close()
        for c in self.contents:
            os.makedirs(os.path.dirname(os.path.join(base, c)))
        with open(os.path.join(base, 'conf'), 'w') as f:
            f.write(L.conf_text(self.spec, self.contents))
        rc, out = L.run_tool(self.tool, ['-c', 'conf', 'sync'], base, self.env(T0))
        if rc != 0:
            raise L.ArrayError('kill scenario: first sync failed: %r' % out[-300:])
        L._wfile(os.path.join(data, 'd2', 'added_file'), bytes(self.rng.getrandbits(8) for _ in range(1300)), 1600000900 * 10**9)
        if os.path.exists(os.path.join(data, 'd1', 'sub/b')):
            os.unlink(os.path.join(data, 'd1', 'sub/b'))
        else:
            os.unlink(os.path.join(data, 'd1', 'f1'))
        self.data_snap = L.snapshot_tree(data)
        self.versions = [self.read_copies(base)[0]]
        # un-killed twin
        wd = self.clone('twin')
        log = os.path.join(self.root, 'twin.log')
        rc, out = L.run_tool(self.tool, ['-c', 'conf', 'sync'], wd, self.env(T1, log))
        if rc != 0:
            raise L.ArrayError('kill scenario: twin sync failed: %r' % out[-300:])
        self.twin_ev = parse_log(log)
        self.rounds = rounds_of(self.twin_ev, self.nc)
        self.final = self.read_copies(wd)
        self.ncalls = max([e['n'] for e in self.twin_ev] + [0])
        self.kinds = {e['n']: e['op'] for e in self.twin_ev if e['n'] > 0}
        # intermediate versions: twin killed right after the last rename of every round but the last
        for (a, b) in self.rounds[:-1]:
            wd2 = self.clone('twin_r%d' % b)
            rc, out = L.run_tool(self.tool, ['-c', 'conf', 'sync'], wd2, self.env(T1, None, (b, 'after')))
            cp = self.read_copies(wd2)
            self.versions.append(cp[0])
            self.mid_copies = cp
            shutil.rmtree(wd2, ignore_errors=True)
        self.versions.append(self.final[0])
        # reproducibility of the frozen clock: a second twin writes the same bytes
        wd3 = self.clone('twin2')
        L.run_tool(self.tool, ['-c', 'conf', 'sync'], wd3, self.env(T1))
        self.twin2 = self.read_copies(wd3)
        shutil.rmtree(wd3, ignore_errors=True)
        self.stats['rounds'] = len(self.rounds)
        self.stats['calls'] = self.ncalls
        self.stats['sizes'] = [len(v) for v in self.versions if v is not None]
        self.stats['writes_per_copy_last_round'] = sum(1 for e in self.twin_ev if e['op'] == 'write' and e['path'] == self.contents[0] + '.tmp' and self.rounds and e['n'] >= self.rounds[-1][0])

    def problems_of_twin_basic(self):
        probs = []
        if any(c != self.final[0] for c in self.final) or not L.seal_ok(self.final[0] or b''):
            probs.append(('after a successful sync the content copies are not byte-identical valid files', dict(copies=self.nc)))
        return probs

    def problems_of_twin(self):
        probs = []
        if not self.rounds:
            return ['the un-killed sync did not rename any content copy (log empty?)']
        if any(c != self.final[0] for c in self.final):
            probs.append('after a successful sync the content copies are not byte-identical')
        if self.final[0] == self.versions[0]:
            probs.append('the sync did not change the content file (scenario is vacuous)')
        if not L.seal_ok(self.final[0] or b''):
            probs.append('the new content file does not end with N + crc32c of what precedes')
        if self.twin2 != self.final:
            probs.append('two un-killed runs under the frozen clock wrote different bytes: old/new classification unreliable')
        probs += check_protocol(self.twin_ev, self.contents)
        return probs

    def kill_points(self, quick):
        pts = []
        ks = list(range(1, self.ncalls + 1))
        if quick and len(ks) > 40:
            # every call of the last round near its renames, a stride elsewhere
            keep = set(ks[::max(1, len(ks) // 24)])
            for (a, b) in self.rounds:
                keep.update(range(max(a, b - 2 * self.nc - 1), b + 1))
                keep.update(range(a, a + 3))
            ks = sorted(keep)
        for k in ks:
            pts.append((k, 'after'))
            if not quick or k % 3 == 1 or self.kinds.get(k) == 'rename':
                pts.append((k, 'before'))
            if self.kinds.get(k) in ('write', 'pwrite'):
                pts.append((k, 'short'))
        return pts

    def run_kill(self, pt):
        """returns list of (what, replay) problems"""
        k, mode = pt
        name = 'k%d_%s' % (k, mode)
        wd = self.clone(name)
        log = os.path.join(self.root, name + '.log')
        probs = []
        try:
            rc, out = L.run_tool(self.tool, ['-c', 'conf', 'sync'], wd, self.env(T1, log, (k, mode)))
            rep = dict(copies=self.nc, kill_at=k, mode=mode, call=self.kinds.get(k), rc=rc, big=self.big)
            if rc != -9:
                self.stats['not_killed'] += 1
                return [('kill point %d/%s: the process was not killed (rc=%r)' % (k, mode, rc), rep)] if rc != 0 else []
            self.stats['kills'] += 1
            # which round does the kill fall in
            r = 0
            for i, (a, b) in enumerate(self.rounds):
                if k >= a:
                    r = i
            old, new = self.versions[r], self.versions[r + 1]
            cp = self.read_copies(wd)
            cls = []
            for i, c in enumerate(cp):
                if c == new:
                    cls.append('new')
                elif c == old:
                    cls.append('old')
                else:
                    cls.append('OTHER')
                    probs.append(('after a kill %s call %d (%s) content copy %s is neither the complete old (%d bytes) nor the complete new (%d bytes) file: %s' % (
                        mode, k, self.kinds.get(k), self.contents[i], len(old or b''), len(new or b''),
                        'missing' if c is None else '%d bytes, common prefix with new %d' % (len(c), len(os.path.commonprefix([c, new or b''])))),
                        dict(rep, copy=i, got=(c or b'').hex()[:4000], old_len=len(old or b''), new_len=len(new or b''))))
            rep['classes'] = cls
            if 'OTHER' not in cls:
                if 'new' in cls and 'old' in cls:
                    self.stats['mixed'] += 1
                    if cls != sorted(cls):      # 'new' < 'old': renames go in order, so new copies form a prefix
                        probs.append(('after a kill the new copies are not a prefix of the content list: %r' % cls, rep))
                elif 'new' in cls:
                    self.stats['all_new'] += 1
                else:
                    self.stats['all_old'] += 1
            tmps = [c for c in self.contents if os.path.exists(os.path.join(wd, c + '.tmp'))]
            if tmps:
                self.stats['left_tmp'] += 1
            rep['stale_tmp'] = tmps
            # the next run must load, and a following sync must succeed and leave identical, sealed copies and no tmp
            rc2, out2 = L.run_tool(self.tool, ['-c', 'conf', 'status'], wd, self.env(T1))
            if rc2 != 0:
                probs.append(('after a kill %s call %d the next `status` does not load (rc=%r): %s' % (mode, k, rc2, out2[-300:].decode(errors='replace')), rep))
            rc3, out3 = L.run_tool(self.tool, ['-c', 'conf', 'sync'], wd, self.env(T1))
            cp3 = self.read_copies(wd)
            if rc3 != 0:
                probs.append(('after a kill %s call %d (stale tmp: %r) the next `sync` fails (rc=%r): %s' % (mode, k, tmps, rc3, out3[-300:].decode(errors='replace')), rep))
            else:
                if any(c != cp3[0] for c in cp3) or not L.seal_ok(cp3[0] or b''):
                    probs.append(('after the sync following a kill the copies are not identical sealed files', rep))
                left = [c for c in self.contents if os.path.exists(os.path.join(wd, c + '.tmp'))]
                if left:
                    probs.append(('a .tmp file survives a successful sync: %r' % left, rep))
                if cp3[0] == self.final[0]:
                    self.stats['resync_equal_new'] += 1
                rc4, out4 = L.run_tool(self.tool, ['-c', 'conf', 'list'], wd, self.env(T1))
                if rc4 != 0 or b'added_file' not in out4:
                    probs.append(('after the sync following a kill `list` does not show the added file', rep))
        finally:
            shutil.rmtree(wd, ignore_errors=True)
            try:
                os.unlink(log)
            except FileNotFoundError:
                pass
        return probs

    def fault_points(self, quick=False):
        pts = []
        for (a, b) in self.rounds:
            for e in self.twin_ev:
                if not (a <= e['n'] <= b):
                    continue
                if e['op'] in ('write', 'pwrite'):
                    for mode in ('bitflip', 'shorten', 'enospc', 'eio'):
                        pts.append((e['n'], mode, b, e['path']))
                elif e['op'] in ('open', 'fsync', 'fdatasync', 'close', 'rename', 'unlink'):
                    # a copy on a full / failing disk: the call itself fails
                    for mode in (('enospc',) if (quick and e['op'] in ('close', 'unlink')) else ('enospc', 'eio')):
                        pts.append((e['n'], mode, b, e['path']))
        return pts

    def run_fault(self, pt):
        """fault at numbered call n on one copy: a write that stores damaged / fewer bytes while reporting success, or any call that
        fails with ENOSPC / EIO.  The process is also killed right after the last rename of that save round if it gets there.
        Property: each copy is the complete old or the complete new file of that round, new ones first; a copy may be new only if
        it is CRC-valid; after a silent data fault no rename may happen at all unless every installed copy is valid and all are
        identical; a failing call makes the command fail; the next sync brings all copies to one valid file."""
        n, mode, b, path = pt
        name = 'f%d_%s' % (n, mode)
        wd = self.clone(name)
        log = os.path.join(self.root, name + '.log')
        probs = []
        try:
            rc, out = L.run_tool(self.tool, ['-c', 'conf', 'sync'], wd, self.env(T1, log, (b, 'after') if n < b else None, (n, mode)))
            r = 0
            for i, (a, bb) in enumerate(self.rounds):
                if n >= a:
                    r = i
            old, new = self.versions[r], self.versions[r + 1]
            cp = self.read_copies(wd)
            ev = parse_log(log)
            renamed = [e['path2'] for e in ev if e['op'] == 'rename' and e['res'] == 0 and e['n'] >= self.rounds[r][0]]
            kind = self.kinds.get(n)
            silent = mode in ('bitflip', 'shorten')
            cls = ['new' if c == new else 'old' if c == old else 'OTHER' for c in cp]
            rep = dict(copies=self.nc, fault_at=n, fault=mode, call=kind, on=path, round=r, rc=rc, renamed=renamed, big=self.big, classes=cls,
                       copies_valid=[L.seal_ok(c or b'') for c in cp], output=out[-600:].decode(errors='replace'))
            self.stats['faults'] = self.stats.get('faults', 0) + 1
            key = 'fault_%s_%s' % (kind, mode)
            self.stats.setdefault('fault_kinds', {})
            self.stats['fault_kinds'][key] = self.stats['fault_kinds'].get(key, 0) + 1
            what = 'fault (%s) on %s of %s at call %d of a save with %d copies' % (mode, kind, path, n, self.nc)
            if rc == 'timeout':
                probs.append((what + ': the command hangs', rep))
            elif silent and (renamed or rc in (0, -9)):
                # the tool went on to the renames (rc -9 = our kill after the last rename of the round)
                self.stats['fault_proceeded'] = self.stats.get('fault_proceeded', 0) + 1
                bad = [self.contents[i] for i, c in enumerate(cp) if not L.seal_ok(c or b'')]
                if bad:
                    probs.append((what + ': the command went on to rename (%s) and installed a content copy that is not CRC-valid: %s' % (
                        ', '.join(renamed) or 'exit 0', ', '.join(bad)), dict(rep, got=[(c or b'').hex()[:2000] for c in cp])))
                elif any(c != cp[0] for c in cp):
                    probs.append((what + ': the command went on and left content copies that differ', rep))
            else:
                self.stats['fault_refused'] = self.stats.get('fault_refused', 0) + 1
                if rc in (0, -9):
                    probs.append((what + ': the failing call was ignored, the command went on (rc=%r)' % rc, rep))
                if 'OTHER' in cls:
                    probs.append((what + ': the command failed (rc=%r) and content copy %s is neither the complete old nor the complete new file' % (
                        rc, self.contents[cls.index('OTHER')]), dict(rep, got=[(c or b'').hex()[:2000] for c in cp])))
                elif cls != sorted(cls):
                    probs.append((what + ': new copies are not a prefix of the content list: %r' % cls, rep))
                elif 'new' in cls and kind != 'rename':
                    probs.append((what + ': a copy was replaced although the save failed before its renames: %r' % cls, rep))
                elif 'new' in cls:
                    self.stats['fault_rename_partial'] = self.stats.get('fault_rename_partial', 0) + 1
                if not any(m in out for m in (b'DANGER', b'Error', b'Failed')):
                    probs.append((what + ': non-zero exit without a diagnostic', rep))
            # whatever happened, the next sync must bring all copies to one valid file
            rc3, out3 = L.run_tool(self.tool, ['-c', 'conf', 'sync'], wd, self.env(T1))
            cp3 = self.read_copies(wd)
            if not probs and (rc3 != 0 or any(c != cp3[0] for c in cp3) or not L.seal_ok(cp3[0] or b'')):
                probs.append(('after a ' + what + ' the next sync does not restore identical valid copies (rc=%r): %s' % (rc3, out3[-200:].decode(errors='replace')), rep))
        finally:
            shutil.rmtree(wd, ignore_errors=True)
            try:
                os.unlink(log)
            except FileNotFoundError:
                pass
        return probs

    def missing_copy_cases(self):
        """one content copy missing (a replaced disk): the remaining ones are loaded, the next sync rewrites all copies"""
        probs = []
        if self.nc < 2:
            return probs
        for j in range(self.nc):
            wd = self.clone('missing_%d' % j)
            try:
                os.unlink(os.path.join(wd, self.contents[j]))
                rep = dict(copies=self.nc, missing=self.contents[j])
                rc, out = L.run_tool(self.tool, ['-c', 'conf', 'status'], wd, self.env(T1))
                if rc != 0:
                    probs.append(('with content copy %s missing and the others intact `status` fails (rc=%r): %s' % (self.contents[j], rc, out[-200:].decode(errors='replace')), rep))
                if self.read_copies(wd)[j] is not None:
                    probs.append(('`status` created the missing content copy %s' % self.contents[j], rep))
                rc, out = L.run_tool(self.tool, ['-c', 'conf', 'sync'], wd, self.env(T1))
                cp = self.read_copies(wd)
                if rc != 0 or cp != self.final:
                    probs.append(('with content copy %s missing the sync does not end with all copies equal to the twin run (rc=%r)' % (self.contents[j], rc), rep))
                self.stats['missing_copy_cases'] = self.stats.get('missing_copy_cases', 0) + 1
            finally:
                shutil.rmtree(wd, ignore_errors=True)
        # all copies but the last damaged in one bit + last intact: refused (the first one is loaded and is damaged); nothing rewritten
        wd = self.clone('all_but_last_damaged')
        try:
            olds = self.read_copies(wd)
            for j in range(self.nc - 1):
                b = bytearray(olds[j])
                b[len(b) // 2] ^= 4
                open(os.path.join(wd, self.contents[j]), 'wb').write(bytes(b))
            before = self.read_copies(wd)
            rc, out = L.run_tool(self.tool, ['-c', 'conf', 'sync'], wd, self.env(T1))
            why = L.judge(rc, out)
            if why is not None or self.read_copies(wd) != before:
                probs.append(('first content copies damaged, last intact: `sync` %s' % (why or 'rewrote a content copy although it refused to run'), dict(copies=self.nc, rc=rc)))
        finally:
            shutil.rmtree(wd, ignore_errors=True)
        return probs

    def clone_from(self, src, name):
        wd = os.path.join(self.root, name)
        shutil.copytree(os.path.join(self.root, src), wd, symlinks=True)
        return wd

    def stale_copy_cases(self):
        """a NON-first content copy is stale (older generation put back), missing, truncated or extended while the first copy is the
        newest, and the command has nothing else to write (array already in sync; meaningful on format-3 arrays, where a sync with
        nothing to do does not rewrite the content by itself).  After the successful command every copy must be byte-identical to
        the first one and CRC-valid.  Reverse case: the first copy is the stale one (the loader takes the first that exists)."""
        probs = []
        if self.nc < 2:
            return probs
        old, new = self.versions[0], self.final[0]
        obs = self.stats.setdefault('stale_copy', dict(cases=0, rewritten=0, same_size_damage_survives=0))
        cmds = (['sync'], ['scrub', '-p', 'bad'])     # (`touch` would modify the shared data files)

        import struct
        # a VALID file of the same length with other bytes (what an older generation of the same length is): one hash-seed byte changed, re-sealed
        hp = max(new.find(b'ck'), new.find(b'cu')) + 7          # a byte of the hash seed
        body = bytes(new[:hp]) + bytes([new[hp] ^ 1]) + bytes(new[hp + 1:-4])
        variants = {'stale': old, 'truncated': new[:-7], 'extended': new + b'\x00tail',
                    'bitflip_same_size': bytes(new[:40]) + bytes([new[40] ^ 8]) + bytes(new[41:]),
                    'valid_same_size': body + struct.pack('<I', L.crc32c(body)), 'missing': None}
        self.known_same_size = []

        def put(wd, j, kind):
            p = os.path.join(wd, self.contents[j])
            if kind == 'missing':
                os.unlink(p)
                return
            data = variants[kind]
            with open(p, 'wb') as f:
                f.write(data)
        n = 0
        for j in range(1, self.nc):
            for kind in ('stale', 'missing', 'truncated', 'extended', 'bitflip_same_size', 'valid_same_size'):
                for cmd in cmds:
                    samesize = kind in ('bitflip_same_size', 'valid_same_size')
                    n += 1
                    wd = self.clone_from('twin', 'stale_%d' % n)
                    try:
                        put(wd, j, kind)
                        rc, out = L.run_tool(self.tool, ['-c', 'conf'] + cmd, wd, self.env(T1))
                        cp = self.read_copies(wd)
                        rep = dict(copies=self.nc, damaged_copy=self.contents[j], how=kind, cmd=cmd, rc=rc, sizes=[None if c is None else len(c) for c in cp],
                                   valid=[L.seal_ok(c or b'') for c in cp], shape=self.spec['name'], output=out[-500:].decode(errors='replace'))
                        obs['cases'] += 1
                        same = all(c == cp[0] for c in cp) and L.seal_ok(cp[0] or b'')
                        # model <-> C: LoadChoice.need_write on the sizes the command found, against "did it save"
                        if getattr(self, 'model_exe', None):
                            import common
                            before = [new if i != j else variants[kind] for i in range(self.nc)]
                            line = 'needwrite ' + ' '.join('-' if c is None else str(len(c)) for c in before)
                            pred = common.run_lines(self.model_exe, [line], shards=1)[0]
                            saved = b'Saving state to' in out
                            obs['model_cases'] = obs.get('model_cases', 0) + 1
                            if (pred == 'true') != saved:
                                obs['model_disagree'] = obs.get('model_disagree', 0) + 1
                                self.drift = getattr(self, 'drift', []) + [dict(rep, model_line=line, model=pred, tool_saved=saved)]
                        if samesize and rc == 0 and not same and cp[0] == new and all(cp[i] == new for i in range(self.nc) if i != j) \
                                and cp[j] == variants[kind] and new[:8] == b'SNAPCNT3' and b'Saving state to' not in out:
                            # exactly F-C09-same-size-stale-copy-unnoticed: format 3, a NON-first copy of the SAME size as the first (bit flip or
                            # another valid generation), a command with nothing else to write, exit 0, no rewrite, copies differ afterwards
                            obs['same_size_damage_survives'] += 1
                            self.known_same_size.append(('format-3 array, %d copies: non-first copy %s replaced by a %s of the same size (%d bytes); `%s` has nothing else '
                                                         'to write, exits 0 without rewriting: the copies are not byte-identical afterwards (copy valid: %r)' % (
                                                             self.nc, self.contents[j], 'file with one bit flipped' if kind == 'bitflip_same_size' else 'different valid file',
                                                             len(new), ' '.join(cmd), L.seal_ok(cp[j])), rep))
                            continue
                        if rc != 0:
                            probs.append(('content copy %s %s, first copy intact: `%s` fails (rc=%r)' % (self.contents[j], kind, ' '.join(cmd), rc), rep))
                        elif not same:
                            probs.append(('content copy %s was %s while the first copy is the newest; after a successful `%s` with nothing else to write the '
                                          'copies are not byte-identical valid files (sizes %r, valid %r)' % (self.contents[j], kind, ' '.join(cmd), rep['sizes'], rep['valid']), rep))
                        else:
                            obs['rewritten'] += 1
                    finally:
                        shutil.rmtree(wd, ignore_errors=True)
        # reverse: the first copy is the old generation (valid), the later ones are the newest
        wd = self.clone_from('twin', 'stale_first')
        try:
            with open(os.path.join(wd, self.contents[0]), 'wb') as f:
                f.write(old)
            rc, out = L.run_tool(self.tool, ['-c', 'conf', 'sync'], wd, self.env(T1))
            cp = self.read_copies(wd)
            rep = dict(copies=self.nc, how='first copy stale', rc=rc, sizes=[None if c is None else len(c) for c in cp], output=out[-400:].decode(errors='replace'))
            rc4, out4 = L.run_tool(self.tool, ['-c', 'conf', 'list'], wd, self.env(T1))
            if rc != 0 or any(c != cp[0] for c in cp) or not L.seal_ok(cp[0] or b'') or b'added_file' not in out4:
                probs.append(('first content copy stale (old generation), later copies newest: after `sync` (rc=%r) the copies are not identical valid files '
                              'listing the current data' % rc, rep))
            obs['cases'] += 1
        finally:
            shutil.rmtree(wd, ignore_errors=True)
        return probs

    def stale_tmp_cases(self):
        """explicit left-overs: garbage tmp, tmp that is a hard link / a symlink to the live content file (O_EXCL + remove)"""
        probs = []
        for kind in ('garbage', 'hardlink', 'symlink', 'valid_old_copy'):
            wd = self.clone('stale_' + kind)
            try:
                for c in self.contents:
                    t = os.path.join(wd, c + '.tmp')
                    if kind == 'garbage':
                        open(t, 'wb').write(b'SNAPCNT2\n\x03\x00\x00garbage')
                    elif kind == 'hardlink':
                        os.link(os.path.join(wd, c), t)
                    elif kind == 'symlink':
                        os.symlink('content', t)
                    else:
                        shutil.copy(os.path.join(wd, c), t)
                rc, out = L.run_tool(self.tool, ['-c', 'conf', 'sync'], wd, self.env(T1))
                cp = self.read_copies(wd)
                rep = dict(copies=self.nc, stale=kind, rc=rc)
                if rc != 0:
                    probs.append(('a stale .tmp (%s) prevents the next sync (rc=%r): %s' % (kind, rc, out[-300:].decode(errors='replace')), rep))
                elif cp != self.final:
                    probs.append(('with a stale .tmp (%s) the sync wrote something else than the twin' % kind, rep))
                elif any(os.path.lexists(os.path.join(wd, c + '.tmp')) for c in self.contents):
                    probs.append(('stale .tmp (%s) still there after a successful sync' % kind, rep))
            finally:
                shutil.rmtree(wd, ignore_errors=True)
        return probs

    def run_all(self, quick, workers):
        probs = [(p, dict(copies=self.nc, twin_log=[('%(n)d %(op)s %(path)s %(detail)s' % e) for e in self.twin_ev][:400])) for p in self.problems_of_twin()]
        if not self.rounds:
            return probs
        pts = self.kill_points(quick)
        with ThreadPoolExecutor(max_workers=workers) as ex:
            for pr in ex.map(self.run_kill, pts):
                probs += pr
        probs += self.stale_tmp_cases()
        with ThreadPoolExecutor(max_workers=workers) as ex:
            for pr in ex.map(self.run_fault, self.fault_points(quick)):
                probs += pr
        probs += self.missing_copy_cases()
        d = L.snapshot_diff(self.data_snap, L.snapshot_tree(os.path.join(self.root, 'data')))
        if d:
            probs.append(('data files changed during the kill runs: %s' % d[:3], dict(copies=self.nc)))
        self.stats['kill_points'] = len(pts)
        return probs
