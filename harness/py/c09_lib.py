"""C09 helpers: tiny real arrays (content files of several shapes), mutant generators, the sharded runner of the
real binary on damaged copies, independent byte snapshots, an independent CRC-32C and the kill-point driver."""
import os, subprocess, hashlib, shutil, struct, json, threading
from concurrent.futures import ThreadPoolExecutor, ProcessPoolExecutor

FLAGS = ['--test-skip-device', '--test-skip-self', '--no-warnings', '--test-force-order-alpha']
SAN_ENV = {'ASAN_OPTIONS': 'detect_leaks=0:exitcode=97:abort_on_error=0:allocator_may_return_null=1:handle_abort=0:soft_rss_limit_mb=500',
           'UBSAN_OPTIONS': 'print_stacktrace=1:halt_on_error=1:exitcode=98'}

# ---------------------------------------------------------------------------------------
# independent CRC-32C (Castagnoli, reflected 0x82F63B78), bit by bit -> table

_T = []
for _i in range(256):
    _c = _i
    for _ in range(8):
        _c = (_c >> 1) ^ (0x82F63B78 if _c & 1 else 0)
    _T.append(_c)


def crc32c(data, crc=0):
    crc ^= 0xffffffff
    for b in data:
        crc = (crc >> 8) ^ _T[(crc ^ b) & 0xff]
    return crc ^ 0xffffffff


def seal_ok(b):
    """independent statement of the integrity seal: ... 'N' crc32c(everything up to and including 'N') little endian, last."""
    return len(b) >= 17 and b[-5] == 0x4e and struct.unpack('<I', b[-4:])[0] == crc32c(b[:-4])


# ---------------------------------------------------------------------------------------
# running the tool

def tool_env(extra=None, sanitize=False):
    e = dict(os.environ)
    e.pop('LD_PRELOAD', None)
    if sanitize:
        e.update(SAN_ENV)
    if extra:
        e.update(extra)
    return e


def _cap_memory():
    # a damaged file can make the loader ask for tens of GB (wrapped run counts): keep the machine alive.  Not for the ASan build,
    # which reserves terabytes of address space (it has soft_rss_limit_mb instead).
    import resource
    resource.setrlimit(resource.RLIMIT_AS, (2 << 30, 2 << 30))


def run_tool(binary, args, cwd, env=None, timeout=60, flags=True):
    """returns (rc, output bytes); rc = 'timeout' on a hang"""
    try:
        p = subprocess.run([binary] + (FLAGS if flags else []) + list(args), cwd=cwd, stdout=subprocess.PIPE, stderr=subprocess.STDOUT,
                           stdin=subprocess.DEVNULL, env=env, timeout=timeout)
        return p.returncode, p.stdout
    except subprocess.TimeoutExpired as e:
        return 'timeout', (e.stdout or b'')


SAN_MARKS = (b'AddressSanitizer', b'runtime error:', b'UndefinedBehaviorSanitizer', b'LeakSanitizer', b'MemorySanitizer')
LIBC_MARKS = (b'free():', b'malloc():', b'double free', b'corrupted', b'stack smashing', b'buffer overflow detected', b'munmap_chunk', b'realloc():')
DIAG_MARKS = (b'content file', b'Error decoding', b'CRC', b'decoding', b'Invalid', b'Internal inconsistency', b'damaged', b'truncated',
              b'Unexpected', b'not supported', b'newer version', b'Low memory', b'Low Memory', b'not specified', b'Conflicting')


DIAG_CLASSES = [(b'Unexpected end of content', 'eof-in-record'), (b'without finding the expected CRC', 'no-crc-record'),
                (b'Unexpected data after the CRC', 'data-after-crc'), (b'Error reading the CRC', 'eof-in-crc'),
                (b'Internal inconsistency', 'internal-inconsistency(abort)'), (b'Invalid header', 'invalid-header(abort)'),
                (b'Invalid command', 'invalid-command(abort)'), (b'newer version', 'newer-version'), (b'text content file is not supported', 'not-binary'),
                (b'Low Memory', 'allocation-refused'), (b'The CRC of the file is correct', 'decode-error(crc-correct)'), (b'CRC mismatch', 'crc-mismatch'), (b'Error decoding', 'decode-error')]


def diag_class(out):
    for m, name in DIAG_CLASSES:
        if m in out:
            return name
    return 'other'


def judge(rc, out):
    """None when the run is a clean refusal (non-zero exit, a snapraid diagnostic, no sanitizer/libc report, no fatal signal other
    than the tool's own abort()); otherwise the reason it is not."""
    if rc == 'timeout':
        return 'hang: no exit within the time limit'
    for m in SAN_MARKS:
        if m in out:
            return 'sanitizer report (%s)' % m.decode()
    for m in LIBC_MARKS:
        if m in out:
            return 'C library heap/stack corruption report (%s)' % m.decode()
    if rc == 0:
        return 'ACCEPTED: exit status 0'
    if b'Low Memory' in out:
        return 'unbounded allocation: the loader asked for more memory than the limit (%s)' % out[-120:].decode(errors='replace').replace('\n', ' ')
    if rc in (97, 98):
        return 'sanitizer exit code %d' % rc
    if rc < 0 and rc != -6:
        return 'killed by signal %d (memory-unsafe behaviour)' % (-rc)
    if not any(m in out for m in DIAG_MARKS):
        return 'non-zero exit (%d) without a diagnostic: %r' % (rc, out[-200:])
    return None


# ---------------------------------------------------------------------------------------
# independent snapshot of a tree (what "modifies nothing" is judged by)

def snapshot_tree(root, skip_prefixes=('w',), skip_suffixes=('.lock',), with_mtime=True):
    res = {}
    for dp, dns, fns in os.walk(root):
        rel = os.path.relpath(dp, root)
        if rel == '.':
            dns[:] = [d for d in dns if not (d.startswith(skip_prefixes) and d[1:].isdigit())]
        dns.sort()
        res[rel + '/'] = ('dir', tuple(sorted(dns)), tuple(sorted(f for f in fns if not f.endswith(skip_suffixes))))
        for f in fns:
            if f.endswith(skip_suffixes):
                continue
            p = os.path.join(dp, f)
            st = os.lstat(p)
            if os.path.islink(p):
                res[os.path.join(rel, f)] = ('link', os.readlink(p))
            else:
                with open(p, 'rb') as fh:
                    h = hashlib.sha256(fh.read()).hexdigest()
                res[os.path.join(rel, f)] = ('file', st.st_size, st.st_mtime_ns if with_mtime else 0, h)
    return res


def snapshot_diff(a, b):
    d = []
    for k in sorted(set(a) | set(b)):
        if a.get(k) != b.get(k):
            d.append('%s: %r -> %r' % (k, a.get(k), b.get(k)))
    return d


# ---------------------------------------------------------------------------------------
# arrays

SHAPES = [
    # name, ndisk, npar, split, hashsize, history
    dict(name='v2_1d_1p', ndisk=1, npar=1, split=False, hashsize=16, history='plain', rich=False),
    dict(name='v2_2d_1p_links', ndisk=2, npar=1, split=False, hashsize=16, history='plain', rich=True),
    dict(name='v3_3d_2p_split', ndisk=3, npar=2, split=True, hashsize=16, history='churn', rich=True),
    dict(name='v3_2d_1p_h8', ndisk=2, npar=1, split=False, hashsize=8, history='plain', rich=True),
    dict(name='v3_2d_2p_split_h8_scrub', ndisk=2, npar=2, split=True, hashsize=8, history='scrub', rich=False, craft='split_uuid'),
    dict(name='v2_3d_2p_partial', ndisk=3, npar=2, split=False, hashsize=16, history='partial', rich=False),
    # coverage shapes (lighter plan in the quick tier): record kinds / loader branches the shapes above never contain
    # murmur3 hash ('c' 'u'), maps with uuid, 'C' previous-hash record and rehash info flags; loaded under a configuration in which
    # d1 has been renamed, so that the loader finds the disk by uuid ("Renaming disk")
    dict(name='v2_murmur3_uuid_rehash', ndisk=2, npar=2, split=False, hashsize=16, history='rehash', rich=True, light=True,
         build_opts=['--test-fake-uuid'], run_opts=['--test-fake-uuid'], load_names={1: 'renamed1'}, primary_cmd='diff'),
    # REP blocks ('p' runs, copy detection), a bad-block info flag (scrub after silent corruption), a configured disk that is empty
    # (no map record), several info runs; also swept with sync -N / sync -R (the loader rewrites REP / BLK states under these options)
    dict(name='v2_rep_bad_emptydisk', ndisk=3, npar=2, split=False, hashsize=16, history='repbad', rich=False, light=True, empty_last=True,
         extra_cmds=[['-N', 'sync'], ['-R', 'sync']]),
    # hash size 4, split parity with uuids, a file whose name is close to PATH_MAX, zero-size files, links
    dict(name='v3_h4_split_longname', ndisk=2, npar=1, split=True, hashsize=4, history='plain', rich=True, light=True, longname=True,
         build_opts=['--test-fake-uuid'], run_opts=['--test-fake-uuid']),
    # a file stored in TWO block runs at non-zero positions (fragmented allocation: sync a,b; delete a; add a 2-block c; sync)
    dict(name='v2_fragmented_runs', ndisk=2, npar=1, split=False, hashsize=16, history='fragment', rich=False, light=True, fragment=True),
    # hand-encoded oldest layout: SNAPCNT1, 'm', 'P', 'n' block runs, dir, symlink (c09_fields.legacy_file)
    dict(name='v1_legacy_m_P_n', ndisk=1, npar=1, split=False, hashsize=16, history='legacy', rich=False, light=True),
    # the same with the metro hash in the 'c' and in a 'C' record (no option of the tool selects it)
    dict(name='v1_legacy_metro', ndisk=1, npar=1, split=False, hashsize=16, history='legacy', rich=False, light=True, legacy_hash=(b'm', b'm')),
]


def conf_text(spec, contents=('./content',), extra='', load=False):
    lines = ['blocksize 1']
    if spec['hashsize'] != 16:
        lines.append('hashsize %d' % spec['hashsize'])
    for l in range(spec['npar']):
        nm = 'parity' if l == 0 else '%d-parity' % (l + 1)
        ps = ['./par%d' % l] + (['./par%db' % l] if spec['split'] else [])
        lines.append('%s %s' % (nm, ','.join(ps)))
    for c in contents:
        lines.append('content %s' % c)
    for d in range(spec['ndisk']):
        nm = (spec.get('load_names') or {}).get(d + 1) if load else None
        lines.append('data %s %s/d%d/' % (nm or 'd%d' % (d + 1), spec.get('dataroot', '.'), d + 1))
    return '\n'.join(lines) + '\n' + extra


def _wfile(path, data, mtime_ns):
    os.makedirs(os.path.dirname(path), exist_ok=True)
    with open(path, 'wb') as f:
        f.write(data)
    os.utime(path, ns=(mtime_ns, mtime_ns))


def populate(root, spec, rng):
    """deterministic small data set (from rng): sizes aimed at 0, 1, bs-1, bs, bs+1, k*bs"""
    t0 = 1600000000 * 10**9
    sizes = [[1500, 100], [1024, 1, 0], [1025, 2048]]
    k = 0
    for d in range(spec['ndisk']):
        dd = os.path.join(root, 'd%d' % (d + 1))
        os.makedirs(dd, exist_ok=True)
        if spec.get('empty_last') and d == spec['ndisk'] - 1:
            continue
        if spec.get('fragment'):
            for nm in (('afile', 'bfile') if d == 0 else ('other',)):
                k += 1
                _wfile(os.path.join(dd, nm), bytes(rng.getrandbits(8) for _ in range(1024)), t0 + k * 1000000007)
            continue
        if spec.get('longname') and d == 1:
            # 3960 name bytes below the disk root: with "./d2/" in front still under PATH_MAX = 4096
            sub = '/'.join(['L%02d' % i + 'x' * 215 for i in range(18)]) + '/end'
            _wfile(os.path.join(dd, sub), bytes(rng.getrandbits(8) for _ in range(10)), t0 + 77)
        for j, sz in enumerate(sizes[d % 3]):
            k += 1
            name = ['a', 'sub/b', 'c\xe9 x'][j % 3] if spec['rich'] else 'f%d' % j
            _wfile(os.path.join(dd, name), bytes(rng.getrandbits(8) for _ in range(sz)), t0 + k * 1000000007)
        if spec['rich'] and d == 0:
            os.symlink('a', os.path.join(dd, 'lnk'))
            os.makedirs(os.path.join(dd, 'emptydir'), exist_ok=True)
            os.link(os.path.join(dd, 'a'), os.path.join(dd, 'hard'))


class ArrayError(Exception):
    pass


def make_array(tool, root, spec, rng, contents=('./content',)):
    """build the data set and bring the array to the state named by spec['history'] with real commands.
    Returns the bytes of the (first) content file."""
    os.makedirs(root, exist_ok=True)
    populate(root, spec, rng)
    for c in contents:
        os.makedirs(os.path.dirname(os.path.join(root, c)), exist_ok=True)
    with open(os.path.join(root, 'conf'), 'w') as f:
        f.write(conf_text(spec, contents))
    env = tool_env()

    bo = list(spec.get('build_opts') or [])

    def must(args, ok=(0,)):
        rc, out = run_tool(tool, ['-c', 'conf'] + bo + args, root, env)
        if rc not in ok:
            raise ArrayError('%s: %r failed rc=%r: %s' % (spec['name'], args, rc, out[-400:].decode(errors='replace')))
        return out
    h = spec['history']
    t1 = 1600000500 * 10**9
    if h == 'legacy':
        import c09_fields
        b = c09_fields.legacy_file(*spec.get('legacy_hash', (b'u', None)))
        with open(os.path.join(root, 'content'), 'wb') as f:
            f.write(b)
        return b
    must((['--test-force-murmur3'] if h == 'rehash' else []) + ['sync'])
    if h == 'churn':
        # delete, shrink, add; then a partial sync keeps CHG / DELETED blocks in the saved state
        d1 = os.path.join(root, 'd1')
        os.unlink(os.path.join(d1, 'sub/b'))
        _wfile(os.path.join(root, 'd2', 'a'), bytes(rng.getrandbits(8) for _ in range(700)), t1)
        _wfile(os.path.join(root, 'd3', 'new'), bytes(rng.getrandbits(8) for _ in range(1100)), t1 + 5)
        must(['sync', '-S', '1', '-B', '1'])
    elif h == 'fragment':
        os.unlink(os.path.join(root, 'd1', 'afile'))
        _wfile(os.path.join(root, 'd1', 'cfile'), bytes(rng.getrandbits(8) for _ in range(2048)), t1)
        must(['sync'])
    elif h == 'partial':
        _wfile(os.path.join(root, 'd1', 'f0'), bytes(rng.getrandbits(8) for _ in range(2100)), t1)
        os.unlink(os.path.join(root, 'd2', 'f1'))
        must(['sync', '-B', '1'])
    elif h == 'rehash':
        # schedule the rehash (previous hash murmur3 kept in a 'C' record, rehash flag in every info), migrate half of it, then
        # leave a change unsynced
        must(['rehash'])
        must(['scrub', '-p', '50'])
        _wfile(os.path.join(root, 'd2', 'late'), bytes(rng.getrandbits(8) for _ in range(1200)), t1)
        must(['sync', '-B', '1'])
    elif h == 'repbad':
        import shutil as _sh
        os.makedirs(os.path.join(root, 'd2', 'cp'))
        _sh.copy2(os.path.join(root, 'd1', 'f0'), os.path.join(root, 'd2', 'cp', 'f0'))      # same name, size, time: copy detection -> REP
        p = os.path.join(root, 'd2', 'f0')
        st = os.stat(p)
        b = bytearray(open(p, 'rb').read())
        b[0] ^= 1                                                                        # silent corruption: scrub marks the block bad
        open(p, 'wb').write(b)
        os.utime(p, ns=(st.st_atime_ns, st.st_mtime_ns))
        must(['scrub', '-p', 'full'], ok=(0, 1))
        must(['sync', '-B', '1'])
    elif h == 'scrub':
        must(['scrub', '-p', 'full'])
        _wfile(os.path.join(root, 'd2', 'late'), bytes(rng.getrandbits(8) for _ in range(30)), t1)
        must(['sync'])
    cpath = os.path.join(root, contents[0].lstrip('./') if contents[0].startswith('./') else contents[0])
    with open(cpath, 'rb') as f:
        b = f.read()
    if spec.get('craft') == 'split_uuid':
        import c09_fields
        b = c09_fields.add_split_uuids(b)
        with open(cpath, 'wb') as f:
            f.write(b)
    return b


# ---------------------------------------------------------------------------------------
# mutants: compact descriptions, materialised by the worker

def apply_mut(base, m):
    k = m[0]
    if k == 'trunc':
        return base[:m[1]]
    if k == 'bit':
        b = bytearray(base)
        b[m[1]] ^= 1 << m[2]
        return bytes(b)
    if k == 'byte':
        b = bytearray(base)
        b[m[1]] = m[2]
        return bytes(b)
    if k == 'run':          # overwrite a run
        b = bytearray(base)
        b[m[1]:m[1] + len(m[2])] = m[2]
        return bytes(b[:max(len(base), m[1] + len(m[2]))])
    if k == 'ins':
        return base[:m[1]] + m[2] + base[m[1]:]
    if k == 'del':
        return base[:m[1]] + base[m[1] + m[2]:]
    if k == 'app':
        return base + m[1]
    if k == 'raw':
        return m[1]
    raise ValueError(k)


def mutants_exhaustive(base):
    ms = [('trunc', n) for n in range(len(base))]
    ms += [('bit', i, j) for i in range(len(base)) for j in range(8)]
    return ms


def mutants_bytes(base):
    ms = []
    for i, v in enumerate(base):
        for nv in sorted({0x00, 0xff, (v + 1) & 255, (v - 1) & 255, 0x4e}):
            if nv != v and bin(nv ^ v).count('1') != 1:     # single-bit neighbours are in the exhaustive set already
                ms.append(('byte', i, nv))
    return ms


def mutants_random(base, rng, n):
    ms = []
    L = len(base)
    while len(ms) < n:
        k = rng.choice(['run', 'run', 'run', 'ins', 'del', 'app', 'two', 'dupseal'])
        if k == 'run':
            ln = rng.choice([2, 2, 3, 4, 5, 8, 16, 33])
            p = rng.randrange(0, L)
            m = ('run', p, bytes(rng.getrandbits(8) for _ in range(min(ln, L - p))))
        elif k == 'ins':
            m = ('ins', rng.randrange(0, L + 1), bytes(rng.getrandbits(8) for _ in range(rng.choice([1, 2, 4, 9]))))
        elif k == 'del':
            p = rng.randrange(0, L)
            m = ('del', p, rng.choice([1, 2, 4, 9]))
        elif k == 'app':
            tail = rng.choice([b'r\x80\x81x', b'N', b'\x00', bytes(rng.getrandbits(8) for _ in range(rng.choice([1, 4, 5, 12])))])
            m = ('app', tail)
        elif k == 'two':
            b = bytearray(base)
            for _ in range(2):
                b[rng.randrange(0, L)] ^= 1 << rng.randrange(8)
            m = ('raw', bytes(b))
        else:
            # damage + a re-computed seal right after the damaged prefix, rest kept: what an attacker of the old
            # "records after N" hole would do
            p = rng.randrange(12, L)
            pre = base[:p] + b'N'
            m = ('raw', pre + struct.pack('<I', crc32c(pre)) + base[p + 5:])
        if apply_mut(base, m) != base:
            ms.append(m)
    return ms


def describe(m):
    if m[0] in ('run', 'ins'):
        return [m[0], m[1], m[2].hex()]
    if m[0] in ('app', 'raw'):
        return [m[0], m[1].hex() if m[0] == 'app' else '(%d bytes)' % len(m[1])] + list(m[2:])
    return list(m)


class Sweep:
    """runs one command of one binary over a list of mutants of `base`, sharded; every worker has its own content path and
    conf (so runs do not share a lock), data and parity are shared and must stay untouched."""

    def __init__(self, root, spec, nworkers):
        self.root = root
        self.spec = spec
        self.n = nworkers
        for k in range(nworkers):
            wd = os.path.join(root, 'w%d' % k)
            os.makedirs(os.path.join(wd, 'c2'), exist_ok=True)
            with open(os.path.join(wd, 'conf'), 'w') as f:
                f.write(conf_text(spec, ('./w%d/content' % k,), load=True))
            with open(os.path.join(wd, 'conf2'), 'w') as f:
                f.write(conf_text(spec, ('./w%d/content' % k, './w%d/c2/content' % k), load=True))

    def run(self, binary, base, mutants, cmd, sanitize=False, mode='conf', timeout=60, want=False):
        """cmd: list like ['status'] ; mode 'conf' | 'noconf' (snapraid -C file).
        returns (list of (mutant, reason, rc, out_tail) for every run that is not a clean refusal, number of runs, rc histogram).
        Note: the tool's os_abort() (rc -6 after an 'Internal inconsistency'/'Invalid ...' diagnostic) is a deliberate stop."""
        env = tool_env(sanitize=sanitize)
        jobs = [(self.root, k, binary, base, mutants[k::self.n], cmd, env, mode, timeout) for k in range(self.n)]
        bad = []
        classes = {}
        per = [None] * len(mutants)
        with ProcessPoolExecutor(max_workers=self.n) as ex:
            for k, (b, cl, res) in enumerate(ex.map(_sweep_worker, jobs)):
                bad += b
                for key, v in cl.items():
                    classes[key] = classes.get(key, 0) + v
                for j, r in enumerate(res):
                    per[k + j * self.n] = r
        bad.sort(key=lambda x: repr(x[0]))
        if want:
            return bad, len(mutants), classes, per
        return bad, len(mutants), classes


def _sweep_worker(job):
    root, k, binary, base, mutants, cmd, env, mode, timeout = job
    if 'asan' not in os.path.basename(binary):
        _cap_memory()       # inherited by the tool runs of this worker (no preexec_fn: keeps subprocess on the fast vfork path)
    wd = os.path.join(root, 'w%d' % k)
    cpath = os.path.join(wd, 'content')
    bad = []
    classes = {}
    res = []
    for m in mutants:
        data = apply_mut(base, m)
        with open(cpath, 'wb') as f:
            f.write(data)
        if mode == 'noconf':
            rc, out = run_tool(binary, ['-C', './w%d/content' % k], root, env, timeout, flags=False)
        else:
            rc, out = run_tool(binary, ['-c', './w%d/conf' % k] + cmd, root, env, timeout)
        if rc == 'timeout' and timeout < 20 and not (len(m) > 2 and ': 0xFFFFFFF' in m[2]):
            # a short limit is only meant for the mutants known to loop (wrapped counts): anything else gets the full time before it is judged
            if mode == 'noconf':
                rc, out = run_tool(binary, ['-C', './w%d/content' % k], root, env, 60, flags=False)
            else:
                rc, out = run_tool(binary, ['-c', './w%d/conf' % k] + cmd, root, env, 60)
        why = judge(rc, out)
        if why is None:
            with open(cpath, 'rb') as f:
                after = f.read()
            left = sorted(x for x in os.listdir(wd) if x not in ('conf', 'conf2', 'content', 'content.lock', 'c2'))
            if after != data:
                why = 'the damaged content file itself was rewritten by the refused command'
            elif left:
                why = 'files left behind by the refused command: %r' % left
        key = 'rc=%s %s' % (rc, diag_class(out) if rc != 0 else 'ACCEPTED')
        classes[key] = classes.get(key, 0) + 1
        res.append((rc, diag_class(out) if rc != 0 else 'ACCEPTED'))
        if why is not None:
            bad.append((m, why, rc, out[-1500:].decode(errors='replace')))
    return bad, classes, res
