#!/usr/bin/env python3
"""Writes the regression cases of corpus/C09/ (run once by hand with a built snapraid:  c09_mkcorpus.py <snapraid>).
Each case is a JSON file: conf text (relative paths), the content bytes, the command lines to try, and the verdict the
property demands ("reject": non-zero exit, diagnostic, no crash).  Cases 1-3 are the three defects repaired by fix: commits
(known_findings.json, status fixed): the current tree must reject them; the check treats an acceptance/crash as a VIOLATION."""
import os, sys, json, struct, subprocess, tempfile, shutil
sys.path.insert(0, os.path.dirname(os.path.abspath(__file__)))
import c09_lib as L

OUT = os.path.join(os.path.dirname(os.path.dirname(os.path.dirname(os.path.abspath(__file__)))), 'corpus', 'C09')
HDR2 = b'SNAPCNT2\n\x03\x00\x00'
HDR3 = b'SNAPCNT3\n\x03\x00\x00'
CONF1 = 'blocksize 1\nparity ./par0\ncontent ./content\ndata d1 ./d1/\n'


def vb(v):
    out = bytearray()
    while v >= 0x80:
        out.append(v & 0x7f)
        v >>= 7
    out.append(v | 0x80)
    return bytes(out)


def bs(s):
    return vb(len(s)) + s


def seal(body):
    pre = body + b'N'
    return pre + struct.pack('<I', L.crc32c(pre))


def case(name, key, line, conf, content, runs, note, twin=None):
    d = dict(name=name, finding_key=key, known_findings_line=line, conf=conf, content_hex=content.hex(), runs=runs, expect='reject', note=note)
    if twin is not None:
        d['valid_twin_hex'] = twin.hex()
    with open(os.path.join(OUT, name + '.json'), 'w') as f:
        json.dump(d, f, indent=1)
    print('wrote', name, len(content), 'bytes')


def main(tool):
    os.makedirs(OUT, exist_ok=True)
    kf = {k['key']: k['line'] for k in json.load(open(os.path.join(os.path.dirname(OUT), '..', 'known_findings.json')))['findings'] if 'key' in k and 'line' in k}
    both = [dict(args=['-c', 'conf', 'status']), dict(args=['-c', 'conf', 'list']), dict(args=['-C', 'content'], noflags=True)]

    # 1. sgetbs length 0xFFFFFFFF
    case('01_sgetbs_len_wrap', 'F-C09-sgetbs-len-wrap', kf['F-C09-sgetbs-len-wrap'], CONF1,
         HDR2 + b'M' + bytes([0x7f, 0x7f, 0x7f, 0x7f, 0xff]), both,
         'string length prefix 7f 7f 7f 7f ff = 0xFFFFFFFF in the first record; before e7500bb: str[len]=0 far out of bounds, SIGSEGV')

    # 2. records after the CRC record: a real content file + r 80 81 78
    tmp = tempfile.mkdtemp(dir='/dev/shm')
    try:
        os.makedirs(os.path.join(tmp, 'd1'))
        L._wfile(os.path.join(tmp, 'd1', 'a'), b'x' * 1500, 1600000000 * 10**9)
        open(os.path.join(tmp, 'conf'), 'w').write(CONF1)
        rc, out = L.run_tool(tool, ['-c', 'conf', 'sync'], tmp, L.tool_env())
        assert rc == 0, out
        good = open(os.path.join(tmp, 'content'), 'rb').read()
        assert L.seal_ok(good)
        case('02_data_after_crc', 'F-C09-data-after-crc', kf['F-C09-data-after-crc'], CONF1, good + bytes([0x72, 0x80, 0x81, 0x78]),
             [dict(args=['-c', 'conf', 'status']), dict(args=['-c', 'conf', 'list']), dict(args=['-c', 'conf', 'diff']), dict(args=['-C', 'content'], noflags=True)],
             'a directory record (r, disk 0, name "x") appended after N+crc; before 49ea0db it was loaded', twin=good)

        # 3. the single-byte witness of design_evidence/f_c09_single_byte_witness.py: V valid, V' = V with ONE byte altered
        shutil.rmtree(os.path.join(tmp, 'd1'))
        os.makedirs(os.path.join(tmp, 'd1'))
        for f in ('content', 'par0', 'content.lock'):
            try:
                os.unlink(os.path.join(tmp, f))
            except FileNotFoundError:
                pass
        PAD = b'PPPPPPPP'

        def mkname(crc, lenbyte):
            return b'A' + b'N' + crc + b'r' + b'\x80' + bytes([lenbyte]) + PAD
        name0 = mkname(b'cccc', 0x81)
        open(os.path.join(tmp.encode(), b'd1', name0), 'wb').close()
        os.utime(os.path.join(tmp.encode(), b'd1', name0), ns=(1600000000 * 10**9, 1600000000 * 10**9))
        rc, out = L.run_tool(tool, ['-c', 'conf', 'sync'], tmp, L.tool_env())
        assert rc == 0, out
        c = bytearray(open(os.path.join(tmp, 'content'), 'rb').read())
        off = c.find(name0)
        assert off > 0 and c[off - 1] == 0x80 | len(name0)
        tail_len = len(c) - (off + len(name0))
        R = len(PAD) + tail_len
        assert R < 0x80
        prefix = bytearray(c[:off + 2])
        prefix[off - 1] = 0x81
        crc = struct.pack('<I', L.crc32c(bytes(prefix)))
        name1 = mkname(crc, 0x80 | R)
        assert 0 not in name1 and 0x2f not in name1 and len(name1) == len(name0), name1
        V = bytearray(c)
        V[off:off + len(name1)] = name1
        V[-4:] = struct.pack('<I', L.crc32c(bytes(V[:-4])))
        Vp = bytearray(V)
        Vp[off - 1] = 0x81
        assert sum(1 for i in range(len(V)) if V[i] != Vp[i]) == 1
        case('03_single_byte_witness', 'F-C09-data-after-crc', kf['F-C09-data-after-crc'], CONF1, bytes(Vp),
             [dict(args=['-c', 'conf', 'list']), dict(args=['-c', 'conf', 'status']), dict(args=['-C', 'content'], noflags=True)],
             'V (valid_twin_hex) is the CRC-valid content file of a state with one empty file whose 17-byte name is %r; this file differs from V in '
             'exactly one byte (offset %d: name length 0x91 -> 0x81); before 49ea0db both loaded, with different file names' % (bytes(name1), off - 1), twin=bytes(V))
    finally:
        shutil.rmtree(tmp, ignore_errors=True)

    # 4. unbounded split count with -C
    body = HDR3 + b'z' + vb(1024) + b'x' + vb(0) + b'y' + vb(16) + b'c' + b'u' + bytes(16)
    body += b'Q' + vb(0) + vb(0) + vb(0) + vb(200)
    for s in range(200):
        body += bs(b'/p/parity%03d' % s) + bs(b'') + vb(0)
    case('04_split_count_unbounded', 'F-C09b-split-count-unbounded', kf['F-C09b-split-count-unbounded'], CONF1, seal(body),
         [dict(args=['-C', 'content'], noflags=True)],
         'CRC-valid v3 file whose Q record declares 200 splits; before 6cd910b `snapraid -C` indexed split_map[8] out of bounds while parsing (SIGSEGV)')
    # 5. string length equal to the buffer capacity (seeded weakening `len > size` of the sgetbs bound: str[len] = 0 one past the array)
    m128 = HDR2 + b'z' + vb(1024) + b'M' + bs(b'd1') + vb(0) + vb(0) + vb(0) + vb(128) + b'U' * 128
    case('05_string_len_eq_uuid_max', None, None, CONF1, seal(m128), both,
         'M record whose uuid has the length UUID_MAX = 128 (varint 00 81) followed by 128 bytes and a correct CRC: sgetbs must refuse len >= size; '
         'with `len > size` the terminating NUL is written one byte past uuid[UUID_MAX] on the stack (ASan: stack-buffer-overflow), before the CRC check')
    m4096 = HDR2 + b'z' + vb(1024) + b'M' + vb(4096) + b'n' * 4096
    case('06_string_len_eq_path_max', None, None, CONF1, seal(m4096 + vb(0) + vb(0) + vb(0) + bs(b'')), both,
         'M record whose name has the length PATH_MAX = 4096 (varint 00 a0) followed by 4096 bytes; same boundary for the path buffers')
    # 4b. the same reached from a valid file by ONE altered byte is found by the -C sweep of the v3 shapes (split count byte).


if __name__ == '__main__':
    main(sys.argv[1])
