"""C10: generator of well-formed array states (the dict form of c10_lib.parse_state) and an independent Python
oracle for what a save + load does to them (normalise)."""
import random
from c10_lib import BLK, CHG, REP, NSEC_INVALID, SIZE_INVALID

BOUND64 = [0, 1, 127, 128, 2 ** 14 - 1, 2 ** 14, 2 ** 21, 2 ** 28 + 1, 2 ** 32 - 1, 2 ** 32, 2 ** 35 - 1, 2 ** 42, 2 ** 49 + 1, 2 ** 56 - 1, 2 ** 56,
           2 ** 63 - 1, 2 ** 63, 2 ** 63 + 1, 2 ** 64 - 2, 2 ** 64 - 1]
BOUND32 = [0, 1, 126, 127, 128, 129, 2 ** 14 - 1, 2 ** 14, 2 ** 14 + 1, 2 ** 21 - 1, 2 ** 21, 2 ** 21 + 1, 2 ** 28 - 1, 2 ** 28, 2 ** 28 + 1,
           2 ** 31, 2 ** 32 - 2, 2 ** 32 - 1]


def rbytes(rng, n):
    return bytes(rng.getrandbits(8) for _ in range(n))


def rname(rng, maxlen=40, path=False):
    """a C string: no NUL; for file names no empty string"""
    k = rng.random()
    if k < 0.03:
        n = rng.choice([255, 256, 1000, 4094, 4095])
    elif k < 0.1:
        n = rng.choice([1, 127, 128, 129])
    else:
        n = rng.randrange(1, maxlen)
    kind = rng.random()
    if kind < 0.3:
        b = bytes(rng.randrange(1, 256) for _ in range(n))
    elif kind < 0.5:
        b = bytes(rng.choice(b'\n\r:\\ \t\x01\x7f\x80\xff/ab') for _ in range(n))
    else:
        b = bytes(rng.choice(b'abcdefghijklmnopqrstuvwxyz0123456789._-') for _ in range(n))
    return b


def v64(rng):
    return rng.choice(BOUND64) if rng.random() < 0.5 else rng.getrandbits(rng.randrange(1, 65))


def v32(rng):
    return rng.choice(BOUND32) if rng.random() < 0.5 else rng.getrandbits(rng.randrange(1, 33))


def gen_state(rng, big=False, now=1700000000):
    """A well-formed state together with the array geometry it needs.  big == 3: see gen_huge.  `big`: 1 = positions around 2^14, 2 = around 2^21 (slow in the model: about a minute)."""
    if big == 3:
        return gen_huge(rng, now)
    nd = rng.randrange(1, 5)
    nl = rng.choice([1, 1, 2, 2, 3, 4, 6])
    hs = rng.choice([16, 16, 16, 8, 4, 2])
    bs_k = rng.choice([1, 1, 1, 2, 4, 256, 16384])
    bs = bs_k * 1024
    split = [rng.choice([1, 1, 1, 2, 3, 8]) if rng.random() < 0.4 else 1 for _ in range(nl)]
    if rng.random() < 0.4:
        split = [1] * nl
    # geometry of the parity positions
    r = rng.random()
    if big == 1 and r < 0.8:
        bm = rng.choice([2 ** 14 - 1, 2 ** 14, 2 ** 14 + 1, 2 ** 14 + 2])
    elif big == 2:
        bm = rng.choice([2 ** 21 - 1, 2 ** 21, 2 ** 21 + 1, 2 ** 21 + 2])
    elif r < 0.25:
        bm = rng.choice([126, 127, 128, 129, 130, 255, 256, 257])
    elif r < 0.3:
        bm = 0
    else:
        bm = rng.randrange(1, 40)
    names = ['d%d' % (i + 1) for i in range(nd)]
    disks = []
    useds = []
    top_owner = rng.randrange(nd)
    for di in range(nd):
        # positions used by the files of this disk, and by its deleted blocks
        used = set()
        if bm:
            k = rng.randrange(0, min(bm, 14) + 1)
            if rng.random() < 0.15:
                k = 0
            cand = set()
            for _ in range(k):
                c = rng.random()
                if c < 0.3:
                    cand.add(rng.randrange(bm))
                elif c < 0.6:
                    cand.add(min(bm - 1, rng.randrange(0, min(bm, 20))))
                else:
                    cand.add(max(0, bm - 1 - rng.randrange(0, min(bm, 20))))
            # extend some into runs
            for p in list(cand):
                for j in range(rng.choice([0, 0, 1, 2, 4])):
                    if p + j < bm:
                        cand.add(p + j)
            used = cand
            if di == top_owner:
                used.add(bm - 1)
        used = sorted(used)
        rng_used = list(used)
        if rng.random() < 0.5:
            rng.shuffle(rng_used)          # fragmented / out of order files
        files = []
        i = 0
        while i < len(rng_used):
            n = rng.choice([1, 1, 2, 3, 5, len(rng_used)])
            chunk = rng_used[i:i + n]
            i += n
            n = len(chunk)
            if rng.random() < 0.5:
                chunk.sort()
            run_state = rng.choice([BLK, BLK, CHG, REP])
            blocks = []
            for p in chunk:
                if rng.random() < 0.25:
                    run_state = rng.choice([BLK, CHG, REP])
                hk = rng.random()
                h = b'\x00' * hs if hk < 0.05 else (b'\xff' * hs if hk < 0.1 else rbytes(rng, hs))
                blocks.append(dict(state=run_state, pos=p, hash=h))
            size = (n - 1) * bs + rng.choice([1, bs, rng.randrange(1, bs + 1)])
            files.append(dict(size=size, msec=v64(rng), mnsec=rng.choice([NSEC_INVALID, 0, 1, 999999999, 2 ** 32 - 2, rng.getrandbits(30)]),
                              inode=v64(rng), sub=rname(rng), blocks=blocks))
        for _ in range(rng.choice([0, 0, 1, 2])):     # empty files
            files.append(dict(size=0, msec=v64(rng), mnsec=rng.choice([NSEC_INVALID, 0, 5]), inode=v64(rng), sub=rname(rng), blocks=[]))
        rng.shuffle(files)
        links = [dict(hard=rng.random() < 0.5, sub=rname(rng), to=rname(rng)) for _ in range(rng.choice([0, 0, 1, 3]))]
        for l in links:
            if not l['hard'] and rng.random() < 0.2:
                l['to'] = b''               # a symlink may point to the empty string in the file format
        dirs = [rname(rng) for _ in range(rng.choice([0, 0, 1, 2]))]
        deleted = []
        if bm:
            free = [p for p in set(rng.randrange(bm) for _ in range(rng.choice([0, 0, 3, 8]))) if p not in used]
            for p in list(free):
                for j in range(rng.choice([0, 1, 3])):
                    if p + j < bm and (p + j) not in used:
                        free.append(p + j)
            deleted = [(p, rbytes(rng, hs)) for p in sorted(set(free))]
        useds.append(set(used))
        # a disk without any file: only directories / only links / nothing (fs_is_empty: files, links, DIRS or a block below blockmax)
        if di != top_owner and rng.random() < 0.18:
            kind = rng.choice(['dirs', 'links', 'nothing'])
            files, used, deleted = [], [], []
            dirs = [rname(rng) for _ in range(rng.choice([1, 2]))] if kind == 'dirs' else []
            links = [dict(hard=rng.random() < 0.5, sub=rname(rng), to=rname(rng))] if kind == 'links' else []
            useds[-1] = set()
        disks.append(dict(name=names[di].encode(), files=files, links=links, dirs=dirs, deleted=deleted))
    # a disk that owns nothing but DELETED blocks: alone in their stripes (dropped by the save, and its map with them), shared with
    # the files of another disk (kept), or both
    allused = set().union(*useds) if useds else set()
    if bm:
        for di, d in enumerate(disks):
            if not d['files'] and not d['links'] and not d['dirs'] and rng.random() < 0.7:
                kind = rng.choice(['alone', 'alone', 'shared', 'both'])
                free = [p for p in range(min(bm, 60)) if p not in allused]
                shared = sorted(allused)
                pick = []
                if kind in ('alone', 'both') and free:
                    pick += rng.sample(free, min(len(free), rng.choice([1, 2, 4])))
                if kind in ('shared', 'both') and shared:
                    pick += rng.sample(shared, min(len(shared), rng.choice([1, 3])))
                d['deleted'] = [(p, rbytes(rng, hs)) for p in sorted(set(pick))]
    for di, d in enumerate(disks):
        cand = sorted(allused - useds[di] - {p for p, _ in d['deleted']})
        if cand and rng.random() < 0.6:
            pick = rng.sample(cand, min(len(cand), rng.choice([1, 2, 5])))
            d['deleted'] = sorted(d['deleted'] + [(p, rbytes(rng, hs)) for p in pick])
    # a run of DELETED blocks with holes strictly inside: consecutive positions free on one disk, both ends used by another
    # disk, at least one inner position used by nobody (the save drops it out of the middle of the deleted extent)
    if nd >= 2 and bm >= 3 and rng.random() < 0.6:
        for _ in range(12):
            di = rng.randrange(nd)
            n = rng.choice([3, 3, 4, 5, 6])
            if n > bm:
                continue
            r = rng.randrange(0, bm - n + 1)
            win = list(range(r, r + n))
            taken = useds[di] | {p for p, _ in disks[di]['deleted']}
            if any(p in taken for p in win):
                continue
            allused = set().union(*useds)
            if all(p in allused for p in win[1:-1]):
                continue
            dj = rng.choice([x for x in range(nd) if x != di])
            ok = True
            for e in (win[0], win[-1]):
                if e not in allused:
                    if e in useds[dj] or any(p == e for p, _ in disks[dj]['deleted']):
                        ok = False
                        break
            if not ok:
                continue
            for e in (win[0], win[-1]):
                if e not in allused:
                    disks[dj]['files'].append(dict(size=rng.randrange(1, bs + 1), msec=v64(rng), mnsec=rng.choice([NSEC_INVALID, 0, 7]), inode=v64(rng),
                                                   sub=rname(rng), blocks=[dict(state=rng.choice([BLK, CHG, REP]), pos=e, hash=rbytes(rng, hs))]))
                    useds[dj].add(e)
            disks[di]['deleted'] = sorted(disks[di]['deleted'] + [(p, rbytes(rng, hs)) for p in win])
            break
    # maps: every disk, in a random order, distinct positions
    order = list(range(nd))
    rng.shuffle(order)
    poss = rng.sample(range(0, 40), nd)
    if rng.random() < 0.2:
        poss[0] = 250
    maps = [dict(name=names[di].encode(), pos=poss[k], total=v32(rng), free=v32(rng),
                 uuid=(b'' if rng.random() < 0.3 else rname(rng, 30)[:127])) for k, di in enumerate(order)]
    parity = []
    for l in range(nl):
        sp = []
        for s in range(split[l]):
            sp.append(dict(path=b'/nonexistent/par/p%d_%d.par' % (l, s), uuid=(b'' if rng.random() < 0.3 else rname(rng, 30)[:127]),
                           size=rng.choice([0, SIZE_INVALID, v64(rng)])))
        parity.append(dict(total=v32(rng), free=v32(rng), splits=sp))
    prev = rng.choice([0, 0, 1, 2, 3])
    # info
    blk = set()
    req = set()
    for d in disks:
        for f in d['files']:
            for b in f['blocks']:
                req.add(b['pos'])
                if b['state'] == BLK:
                    blk.add(b['pos'])
    info = []
    base = rng.choice([now - 100000, now - 8, 8, 2 ** 32 - 4096, now])
    tkind = rng.random()
    for p in range(bm):
        if p in blk or rng.random() < 0.6:
            c = rng.random()
            if tkind < 0.1 and c < 0.3:
                t = 0                                  # a zero time (with a flag, otherwise there is no info)
            elif c < 0.6:
                t = base
            elif c < 0.8:
                t = base + 8 * rng.randrange(0, 2000)
            elif c < 0.9:
                t = now + 8 * rng.randrange(0, 100)    # in the future: clamped
            else:
                t = rng.choice(BOUND32)
            t = (t % 2 ** 32) & ~7
            fl = rng.choice([0, 0, 0, 1, 4, 4, 5]) | (2 if prev and rng.random() < 0.3 else 0)
            v = t | fl
            if v == 0:
                v = 8 if p in blk else 0
            info.append(v)
        else:
            info.append(0)
    # long equal runs in the big geometries keep the text small
    if bm > 1000:
        fill = info[0] if info and info[0] else (((now & 0xffffffff) & ~7) | 4)
        info = [(fill if (p not in req or rng.random() < 0.8) else info[p]) for p in range(bm)]
    extra = rng.choice([0, 0, 0, 1, 5])                 # entries beyond blockmax (an array that shrank)
    info += [(((now & 0xffffffff) & ~7) | 4)] * extra
    from c10_lib import runs_of
    s = dict(bs=bs, hs=hs, hash=rng.choice([1, 2, 3]), seed=rbytes(rng, 16), prev=prev, pseed=rbytes(rng, 16) if prev else b'\0' * 16,
             maps=maps, parity=parity, disks=disks, info_runs=runs_of(info))
    geom = dict(nd=nd, nl=nl, hs=hs, bs_k=bs_k, split=split)
    return s, geom


def gen_huge(rng, now):
    """byte sizes across 2^31 / 2^32 with few blocks: block size 4..16 MiB, a file of about 4 GiB/blocksize blocks on one disk, a run of
    DELETED blocks of about the same length on another (count * blocksize around 2^32: the size of the loader's fake <deleted> file),
    file sizes at 2^32 - 1, 2^32, 2^32 + 1."""
    from c10_lib import runs_of
    bs_k = rng.choice([4096, 8192, 16384])
    bs = bs_k * 1024
    K = (1 << 32) // bs
    hs = rng.choice([16, 16, 8, 2])
    nl = rng.choice([1, 2])
    split = [rng.choice([1, 1, 2]) for _ in range(nl)]
    r = rng.randrange(0, 3)
    n = K + rng.choice([-1, 0, 1, 2, 5])                 # blocks of the big file
    size = rng.choice([(1 << 32) - 1, 1 << 32, (1 << 32) + 1, n * bs, (n - 1) * bs + 1])
    n = (size + bs - 1) // bs
    st = rng.choice([BLK, BLK, CHG])
    cut = rng.randrange(1, n)
    blocks = [dict(state=(st if i < cut else rng.choice([BLK, REP])), pos=r + i, hash=rbytes(rng, hs)) for i in range(n)]
    bm = r + n
    m = rng.choice([K - 1, K, K + 1, n - 1, K // 2, K // 2 + 1])    # length of the DELETED run
    m = max(1, min(m, n))
    dstart = r + rng.randrange(0, n - m + 1)
    small = lambda pos: dict(size=rng.randrange(1, bs + 1), msec=v64(rng), mnsec=rng.choice([NSEC_INVALID, 0, 999999999]), inode=v64(rng),
                             sub=rname(rng), blocks=[dict(state=BLK, pos=pos, hash=rbytes(rng, hs))])
    d1 = dict(name=b'd1', files=[dict(size=size, msec=v64(rng), mnsec=rng.choice([NSEC_INVALID, 1]), inode=v64(rng), sub=rname(rng), blocks=blocks)] +
              ([small(p) for p in range(r)] if rng.random() < 0.5 else []), links=[], dirs=[], deleted=[])
    d2 = dict(name=b'd2', files=[dict(size=0, msec=1, mnsec=0, inode=7, sub=b'empty', blocks=[])], links=[], dirs=[rname(rng)],
              deleted=[(dstart + i, rbytes(rng, hs)) for i in range(m)])
    disks = [d1, d2]
    used = {b['pos'] for f in d1['files'] for b in f['blocks']}
    blk = {b['pos'] for f in d1['files'] for b in f['blocks'] if b['state'] == BLK}
    t0 = (now - 4000) & 0xffffffff & ~7
    info = []
    for p in range(bm):
        info.append((t0 + 8 * (p % 3 == 0)) | rng.choice([0, 4, 4, 1]) if (p in blk or rng.random() < 0.7) and p in used else 0)
    maps = [dict(name=b'd2', pos=1, total=v32(rng), free=v32(rng), uuid=b''), dict(name=b'd1', pos=0, total=v32(rng), free=v32(rng), uuid=b'')]
    parity = [dict(total=v32(rng), free=v32(rng), splits=[dict(path=b'/x', uuid=b'', size=rng.choice([bm * bs, 1 << 32, (1 << 32) - bs, SIZE_INVALID]))
                                                         for _ in range(split[l])]) for l in range(nl)]
    s = dict(bs=bs, hs=hs, hash=rng.choice([1, 2]), seed=rbytes(rng, 16), prev=0, pseed=b'\0' * 16, maps=maps, parity=parity, disks=disks,
             info_runs=runs_of(info))
    return s, dict(nd=2, nl=nl, hs=hs, bs_k=bs_k, split=split)


# ---------------------------------------------------------------------------------------
# independent oracle: the state after saving at time `now` and loading again

def py_normalise(now, s):
    import copy
    from c10_lib import info_list, runs_of, alloc_size
    s = copy.deepcopy(s)
    bm = alloc_size(s)
    req = set()
    for d in s['disks']:
        for f in d['files']:
            for b in f['blocks']:
                req.add(b['pos'])
    info = info_list(s)
    info = (info + [0] * bm)[:bm]
    info = [v if p in req else 0 for p, v in enumerate(info)]
    oldest = 0
    rehash = False
    for v in info:
        if v:
            t = v & ~7
            if not oldest or t < oldest:
                oldest = t
            if v & 2:
                rehash = True
    out = []
    for v in info:
        if not v:
            out.append(0)
            continue
        t = v & ~7
        if t > now:
            t = now
        t = 0 if t < oldest else t - oldest
        t &= 0xffffffff
        out.append((((t + oldest) & 0xffffffff) & ~7) | (v & 7))
    s['info_runs'] = runs_of(out)
    for d in s['disks']:
        d['deleted'] = [(p, h) for p, h in d['deleted'] if p in req]
    keep = []
    for d in s['disks']:
        empty = not d['files'] and not d['links'] and not d['dirs'] and not d['deleted']
        mapped = any(m['name'] == d['name'] for m in s['maps'])
        keep.append(mapped and not empty)
        if not (mapped and not empty):
            d['files'], d['links'], d['dirs'], d['deleted'] = [], [], [], []
    names = {d['name'] for d, k in zip(s['disks'], keep) if k}
    s['maps'] = [m for m in s['maps'] if m['name'] in names]
    v3 = s['hs'] != 16 or any(len(p['splits']) > 1 for p in s['parity'])
    if not v3:
        for p in s['parity']:
            for x in p['splits']:
                x['size'] = SIZE_INVALID
    if not (s['prev'] and rehash):
        s['prev'] = 0
        s['pseed'] = b'\0' * 16
    return s
