"""C10: an independent writer of LEGACY content files (SNAPCNT1/2 with the deprecated records 'm' (map without sizes),
'n' (NEW blocks without hash) and 'P'), from the dict form of a state.  Shares no code with the tool or the Coq model."""
import struct, copy
from c10_lib import BLK, CHG, REP, SIZE_INVALID, NSEC_INVALID, runs_of, info_list, alloc_size

_T = []
for _i in range(256):
    _c = _i
    for _ in range(8):
        _c = (_c >> 1) ^ (0x82F63B78 if _c & 1 else 0)
    _T.append(_c)


def _crc(data):
    c = 0xffffffff
    for b in data:
        c = _T[(c ^ b) & 255] ^ (c >> 8)
    return c ^ 0xffffffff


def vi(v):
    out = bytearray()
    while True:
        b = v & 0x7f
        v >>= 7
        if v:
            out.append(b)
        else:
            out.append(b | 0x80)
            return bytes(out)


def bs(b):
    return vi(len(b)) + b


def eligible(s):
    return s['hs'] == 16 and all(len(p['splits']) == 1 for p in s['parity'])


def encode(s, version, old_map, new_blocks):
    """s: a normalised state (every disk with content has a map).  Returns (bytes, the state the loader must build)."""
    e = copy.deepcopy(s)
    bm = alloc_size(s)
    o = bytearray(b'SNAPCNT%d\n\x03\x00\x00' % version)
    o += b'z' + vi(s['bs']) + b'x' + vi(bm)
    o += b'c' + {1: b'u', 2: b'k', 3: b'm'}[s['hash']] + s['seed']
    if s['prev']:
        o += b'C' + {1: b'u', 2: b'k', 3: b'm'}[s['prev']] + s['pseed']
    for m, me in zip(s['maps'], e['maps']):
        if old_map:
            o += b'm' + bs(m['name']) + vi(m['pos']) + bs(m['uuid'])
            me['total'] = me['free'] = 0
        else:
            o += b'M' + bs(m['name']) + vi(m['pos']) + vi(m['total']) + vi(m['free']) + bs(m['uuid'])
    for l, (p, pe) in enumerate(zip(s['parity'], e['parity'])):
        o += b'P' + vi(l) + vi(p['total']) + vi(p['free']) + bs(p['splits'][0]['uuid'])
        pe['splits'][0]['size'] = SIZE_INVALID
    idx = {m['name']: k for k, m in enumerate(s['maps'])}
    for d, de in zip(s['disks'], e['disks']):
        if d['name'] not in idx:
            continue
        k = vi(idx[d['name']])
        for f, fe in zip(d['files'], de['files']):
            o += b'f' + k + vi(f['size']) + vi(f['msec']) + vi(0 if f['mnsec'] == NSEC_INVALID else f['mnsec'] + 1) + vi(f['inode']) + bs(f['sub'])
            i = 0
            bl = f['blocks']
            while i < len(bl):
                j = i + 1
                while j < len(bl) and bl[j]['state'] == bl[i]['state'] and bl[j]['pos'] == bl[i]['pos'] + (j - i):
                    j += 1
                st = bl[i]['state']
                if st == CHG and new_blocks:
                    o += b'n' + vi(bl[i]['pos']) + vi(j - i)
                    for q in range(i, j):
                        fe['blocks'][q]['hash'] = b'\xff' * s['hs']
                else:
                    o += {BLK: b'b', CHG: b'g', REP: b'p'}[st] + vi(bl[i]['pos']) + vi(j - i) + b''.join(b['hash'] for b in bl[i:j])
                i = j
        for x in d['links']:
            o += (b'a' if x['hard'] else b's') + k + bs(x['sub']) + bs(x['to'])
        for x in d['dirs']:
            o += b'r' + k + bs(x)
        o += b'h' + k
        dl = dict(d['deleted'])
        pos = 0
        while pos < bm:
            j = pos + 1
            while j < bm and ((j in dl) == (pos in dl)):
                j += 1
            o += vi(j - pos)
            if pos in dl:
                o += b'o' + b''.join(dl[q] for q in range(pos, j))
            else:
                o += b'O'
            pos = j
    info = (info_list(s) + [0] * bm)[:bm]
    times = [v & ~7 for v in info if v]
    oldest = min(times) if times else 0
    o += b'i' + vi(oldest)
    for cnt, v in runs_of(info):
        o += vi(cnt)
        if v:
            o += vi(1 | (2 if v & 1 else 0) | (4 if v & 2 else 0) | (8 if v & 4 else 0)) + vi((v & ~7) - oldest)
        else:
            o += vi(0)
    o += b'N'
    o += struct.pack('<I', _crc(bytes(o)))
    e['info_runs'] = runs_of(info)
    return bytes(o), e
