"""C10 helpers: tiny real arrays driven through the snapraid binary, the textual state/conf syntax of the model driver
(ocaml/C10/driver.ml), dump parsers (list -l, status -G -l, -C), generated states."""
import os, subprocess, shutil, random, re

FLAGS = ['--test-skip-device', '--test-skip-self', '--no-warnings', '--test-force-order-alpha']
LEVELS = ['parity', '2-parity', '3-parity', '4-parity', '5-parity', '6-parity']
BLK, CHG, REP, DELETED = 1, 2, 3, 4
NSEC_INVALID = 2 ** 32 - 1
SIZE_INVALID = 2 ** 64 - 1


def hx(b):
    return bytes(b).hex() if len(b) else '-'


def unhx(s):
    return b'' if s == '-' else bytes.fromhex(s)


# ---------------------------------------------------------------------------------------
# textual syntax shared with the model driver

def conf_line(no_conf, bs, hs, disks, parity, clear_past_hash=0, force_nocopy=0, force_realloc=0, skip_check=0, first_uuid=0):
    """disks: list of (name bytes, uuid bytes); parity: list of lists of path bytes"""
    t = ['K', '1' if no_conf else '0', '%x' % bs, '%x' % hs, str(int(clear_past_hash)), str(int(force_nocopy)), str(int(force_realloc)),
         str(int(skip_check)), str(int(first_uuid)), '%x' % len(disks)]
    for n, u in disks:
        t += [hx(n), hx(u)]
    t.append('%x' % len(parity))
    for sp in parity:
        t.append('%x' % len(sp))
        t += [hx(p) for p in sp]
    return ' '.join(t)


class Cur:
    def __init__(self, toks):
        self.t = toks
        self.i = 0

    def next(self):
        v = self.t[self.i]
        self.i += 1
        return v

    def num(self):
        return int(self.next(), 16)

    def str(self):
        return unhx(self.next())


def parse_state(text):
    """'S ...' rendering of the model -> dict"""
    c = Cur(text.split())
    assert c.next() == 'S', text[:40]
    s = {'bs': c.num(), 'hs': c.num(), 'hash': c.num(), 'seed': c.str(), 'prev': c.num(), 'pseed': c.str()}
    s['maps'] = [dict(name=c.str(), pos=c.num(), total=c.num(), free=c.num(), uuid=c.str()) for _ in range(c.num())]
    par = []
    for _ in range(c.num()):
        p = dict(total=c.num(), free=c.num())
        p['splits'] = [dict(path=c.str(), uuid=c.str(), size=c.num()) for _ in range(c.num())]
        par.append(p)
    s['parity'] = par
    disks = []
    for _ in range(c.num()):
        d = {'name': c.str()}
        files = []
        for _ in range(c.num()):
            f = dict(size=c.num(), msec=c.num(), mnsec=c.num(), inode=c.num(), sub=c.str())
            f['blocks'] = [dict(state=c.num(), pos=c.num(), hash=c.str()) for _ in range(c.num())]
            files.append(f)
        d['files'] = files
        d['links'] = [dict(hard=(c.next() == 'h'), sub=c.str(), to=c.str()) for _ in range(c.num())]
        d['dirs'] = [c.str() for _ in range(c.num())]
        d['deleted'] = [(c.num(), c.str()) for _ in range(c.num())]
        disks.append(d)
    s['disks'] = disks
    info = []
    for _ in range(c.num()):
        k = c.num()
        v = c.num()
        info.append((k, v))
    s['info_runs'] = info
    assert c.i == len(c.t), 'trailing tokens'
    return s


def info_list(s):
    out = []
    for k, v in s['info_runs']:
        out += [v] * k
    return out


def state_line(s):
    t = ['S', '%x' % s['bs'], '%x' % s['hs'], '%x' % s['hash'], hx(s['seed']), '%x' % s['prev'], hx(s['pseed']), '%x' % len(s['maps'])]
    for m in s['maps']:
        t += [hx(m['name']), '%x' % m['pos'], '%x' % m['total'], '%x' % m['free'], hx(m['uuid'])]
    t.append('%x' % len(s['parity']))
    for p in s['parity']:
        t += ['%x' % p['total'], '%x' % p['free'], '%x' % len(p['splits'])]
        for x in p['splits']:
            t += [hx(x['path']), hx(x['uuid']), '%x' % x['size']]
    t.append('%x' % len(s['disks']))
    for d in s['disks']:
        t += [hx(d['name']), '%x' % len(d['files'])]
        for f in d['files']:
            t += ['%x' % f['size'], '%x' % f['msec'], '%x' % f['mnsec'], '%x' % f['inode'], hx(f['sub']), '%x' % len(f['blocks'])]
            for b in f['blocks']:
                t += ['%x' % b['state'], '%x' % b['pos'], hx(b['hash'])]
        t.append('%x' % len(d['links']))
        for l in d['links']:
            t += ['h' if l['hard'] else 's', hx(l['sub']), hx(l['to'])]
        t.append('%x' % len(d['dirs']))
        t += [hx(x) for x in d['dirs']]
        t.append('%x' % len(d['deleted']))
        for p, h in d['deleted']:
            t += ['%x' % p, hx(h)]
    t.append('%x' % len(s['info_runs']))
    for k, v in s['info_runs']:
        t += ['%x' % k, '%x' % v]
    return ' '.join(t)


def runs_of(lst):
    out = []
    for v in lst:
        if out and out[-1][1] == v:
            out[-1] = (out[-1][0] + 1, v)
        else:
            out.append((1, v))
    return out


# ---------------------------------------------------------------------------------------
# what the commands print, computed from a state

def esc_tag(b):
    return b.replace(b'\\', b'\\\\').replace(b'\n', b'\\n').replace(b'\r', b'\\r').replace(b':', b'\\d')


def s64(v):
    return v - 2 ** 64 if v >= 2 ** 63 else v


def expected_list(s):
    """the file:/link_ lines of `list -l`, as a sorted list of bytes"""
    out = []
    for d in s['disks']:
        for f in d['files']:
            out.append(b'file:%s:%s:%d:%d:%d:%d' % (d['name'], esc_tag(f['sub']), f['size'], s64(f['msec']), f['mnsec'], s64(f['inode'])))
        for l in d['links']:
            out.append(b'link_%s:%s:%s:%s' % (b'hardlink' if l['hard'] else b'symlink', d['name'], esc_tag(l['sub']), esc_tag(l['to'])))
    return sorted(out)


def expected_counts(s):
    nf = sum(len(d['files']) for d in s['disks'])
    nh = sum(1 for d in s['disks'] for l in d['links'] if l['hard'])
    ns = sum(1 for d in s['disks'] for l in d['links'] if not l['hard'])
    nd = sum(len(d['dirs']) for d in s['disks'])
    return nf, nh, ns, nd


def alloc_size(s):
    m = 0
    for d in s['disks']:
        for f in d['files']:
            for b in f['blocks']:
                m = max(m, b['pos'] + 1)
    return m


def expected_status(s):
    """block_count and the block:/block_noinfo: lines of `status -G -l`"""
    bm = alloc_size(s)
    valid = [False] * bm
    invalid = [False] * bm
    for d in s['disks']:
        for f in d['files']:
            for b in f['blocks']:
                valid[b['pos']] = True
                if b['state'] in (CHG, REP):
                    invalid[b['pos']] = True
        for p, h in d['deleted']:
            if p < bm:
                invalid[p] = True
    info = info_list(s)
    out = [b'block_count:%d' % bm]
    for i in range(bm):
        inf = info[i] if i < len(info) else 0
        if inf:
            out.append(b'block:%d:%d:%s:%s:%s:%s' % (i, inf & ~7, b'used' if valid[i] else b'', b'unsynced' if invalid[i] else b'',
                                                     b'bad' if inf & 1 else b'', b'rehash' if inf & 2 else b''))
        else:
            out.append(b'block_noinfo:%d:%s:%s' % (i, b'used' if valid[i] else b'', b'unsynced' if invalid[i] else b''))
    unscrubbed = sum(1 for i in range(bm) if i < len(info) and info[i] and info[i] & 4)
    out.append(b'summary:has_unscrubbed:%d' % unscrubbed)
    for l, p in enumerate(s['parity']):
        out.append(b'summary:parity_block_total:%s:%d' % (LEVELS[l].encode(), p['total']))
        out.append(b'summary:parity_block_free:%s:%d' % (LEVELS[l].encode(), p['free']))
    return out


STATUS_KEEP = re.compile(rb'^(block_count:|block:|block_noinfo:|summary:has_unscrubbed:|summary:parity_block_total:|summary:parity_block_free:)')
LIST_KEEP = re.compile(rb'^(file:|link_)')
COUNT_RE = re.compile(rb'^msg:verbose:\s+(\d+) (files|hardlinks|symlinks|empty dirs)$')


def read_log(path):
    try:
        return open(path, 'rb').read().split(b'\n')
    except FileNotFoundError:
        return []


def log_counts(lines):
    d = {}
    for l in lines:
        m = COUNT_RE.match(l)
        if m:
            d[m.group(2).decode()] = int(m.group(1))
    return (d.get('files'), d.get('hardlinks'), d.get('symlinks'), d.get('empty dirs'))


# ---------------------------------------------------------------------------------------
# a tiny array on disk

class Array:
    def __init__(self, root, tool, shim, ndisk=2, npar=1, hashsize=16, splits=None, ncontent=2, extra_conf=(), blocksize_k=1):
        self.root, self.tool, self.shim = root, tool, shim
        self.ndisk, self.npar, self.hashsize, self.ncontent = ndisk, npar, hashsize, ncontent
        self.splits = splits or [1] * npar
        self.blocksize_k = blocksize_k
        self.extra_conf = list(extra_conf)
        self.disk_names = ['d%d' % (i + 1) for i in range(ndisk)]     # directories
        self.labels = list(self.disk_names)                             # names in the configuration
        self.order = list(range(ndisk))                                 # order of the data lines
        self.fake_uuid = False                                          # --test-fake-uuid: the first two data lines get fake-uuid-2 / fake-uuid-1
        for n in self.disk_names:
            os.makedirs(os.path.join(root, n), exist_ok=True)
        os.makedirs(os.path.join(root, 'par'), exist_ok=True)
        os.makedirs(os.path.join(root, 'cnt'), exist_ok=True)
        self.write_conf()

    def parity_paths(self):
        return [[os.path.join(self.root, 'par', 'p%d_%d.par' % (l, s)) for s in range(self.splits[l])] for l in range(self.npar)]

    def content_paths(self):
        c = [os.path.join(self.root, 'cnt', 'snapraid.content')]
        for i in range(1, self.ncontent):
            c.append(os.path.join(self.root, self.disk_names[(i - 1) % self.ndisk], 'snapraid.content'))
        return c

    def write_conf(self):
        lines = ['blocksize %d' % self.blocksize_k]
        if self.hashsize != 16:
            lines.append('hashsize %d' % self.hashsize)
        for l, sp in enumerate(self.parity_paths()):
            lines.append('%s %s' % (LEVELS[l], ','.join(sp)))
        for c in self.content_paths():
            lines.append('content %s' % c)
        for i in self.order:
            lines.append('data %s %s/' % (self.labels[i], os.path.join(self.root, self.disk_names[i])))
        lines.append('exclude /snapraid.content*')
        lines += self.extra_conf
        self.conf = os.path.join(self.root, 'snapraid.conf')
        open(self.conf, 'w').write('\n'.join(lines) + '\n')

    def model_conf(self, **flags):
        return conf_line(False, self.blocksize_k * 1024, self.hashsize, self.conf_disks(),
                         [[p.encode() for p in sp] for sp in self.parity_paths()], **flags)

    def conf_disks(self):
        """(name, uuid) of the data disks in configuration order"""
        out = []
        for k, i in enumerate(self.order):
            u = (b'fake-uuid-%d' % (2 - k)) if (self.fake_uuid and k < 2) else b''
            out.append((self.labels[i].encode(), u))
        return out

    def run(self, args, now=None, timeout=120):
        env = dict(os.environ)
        if now is not None:
            env['C10_FAKE_TIME'] = str(now)
            env['LD_PRELOAD'] = self.shim
        env['TZ'] = 'UTC'
        r = subprocess.run([self.tool] + FLAGS + (['--test-fake-uuid'] if self.fake_uuid else []) + ['-c', self.conf] + list(args), stdout=subprocess.PIPE, stderr=subprocess.STDOUT,
                           env=env, timeout=timeout)
        return r.returncode, r.stdout

    def content(self, i=0):
        p = self.content_paths()[i]
        return open(p, 'rb').read() if os.path.exists(p) else None

    def install(self, data):
        for p in self.content_paths():
            open(p, 'wb').write(data)

    def dpath(self, disk, sub):
        return os.path.join(self.root.encode(), self.disk_names[disk].encode(), sub)


ODD_NAMES = [b'plain', b'with space', b'caf\xc3\xa9-\xe2\x82\xac', b'bad\xff\xfeutf8', b'ctl\x01\x7fx', b'nl\nline', b'co:lon', b'cr\rx',
             b'back\\slash', b'star*q?[b]', b"q'dq\"", b'#h;s', b'-dash', b'\x80\x81\xfe', b'tab\there', b'dir1/inner', b'dir1/sub2/deep',
             b'dir 2/x:y', b' lead', b'trail ', b'.hidden', b'a' * 200]


def write_file(path, size, rng, mtime=None):
    os.makedirs(os.path.dirname(path), exist_ok=True)
    with open(path, 'wb') as f:
        f.write(bytes(rng.getrandbits(8) for _ in range(size)))
    if mtime is not None:
        os.utime(path, ns=(mtime, mtime))
