"""Shared by check_C11 and check_C19: a tiny real array plus
  - file-system operations (create/overwrite/append/truncate/delete/rename/move/copy -p/replace by dir or link/...),
  - the harness's own walk of the data disks (the ground truth of the checks),
  - the ordered directory listing handed to the scan model (replicates the traversal ORDER of scan.c:scan_sub, nothing else),
  - the order preserving serialisation of content / listing / fs / hashes for ocaml/C11/driver.ml."""
import os, sys, stat, shutil, struct, fcntl, tempfile, json
import common
from common import *
from arraylib import *

SIZES = [0, 1, 1023, 1024, 1025, 2048, 2500, 3072, 4100]
ORDERS = ['alpha', 'inode', 'dir', 'physical']


def mkscratch_on(kind):
    """scratch array root: tmpfs (no inode reuse, no physical offsets) or the file system of /var/tmp (ext4 here:
    immediate inode reuse, FIEMAP works); both are removed at exit through common's cleanup list"""
    if kind == 'disk' and os.path.isdir('/var/tmp') and os.access('/var/tmp', os.W_OK):
        d = tempfile.mkdtemp(prefix='snapverif.arr.', dir='/var/tmp')
        common._scratch_dirs.append(d)
        return d
    return mkscratch('arr.')


# ----------------------------------------------------------------------------------------------------------------
# filephy() of cmdline/unix.c, needed only to hand the model the sort key of --test-force-order-physical
FS_IOC_FIEMAP = 0xC020660B
FIBMAP = 1
FIEMAP_FLAG_SYNC = 1
FIEMAP_EXTENT_UNKNOWN = 0x2
FIEMAP_EXTENT_DATA_INLINE = 0x200


def filephy(path, size):
    fd = os.open(path, os.O_RDONLY)
    try:
        buf = bytearray(struct.pack('<QQIIII', 0, 0xFFFFFFFFFFFFFFFF, FIEMAP_FLAG_SYNC, 0, 1, 0) + bytes(56))
        try:
            fcntl.ioctl(fd, FS_IOC_FIEMAP, buf, True)
            logical, physical, length, r1, r2, flags = struct.unpack_from('<QQQQQI', buf, 32)
            if flags & FIEMAP_EXTENT_DATA_INLINE or flags & FIEMAP_EXTENT_UNKNOWN or physical == 0:
                return 2
            return physical + 3
        except OSError:
            pass
        if size == 0:
            return 2
        try:
            b = bytearray(struct.pack('<I', 0))
            fcntl.ioctl(fd, FIBMAP, b, True)
            return struct.unpack('<I', b)[0] + 3
        except OSError:
            return 1
    finally:
        os.close(fd)


# ----------------------------------------------------------------------------------------------------------------
# MurmurHash3_x86_128 with a 16-byte seed, from the public description of the algorithm (independent of the tool):
# with --test-force-murmur3 the harness knows the hash of every block without asking the tool
def _rotl(x, r):
    return ((x << r) | (x >> (32 - r))) & 0xFFFFFFFF


def _fmix(h):
    h ^= h >> 16; h = (h * 0x85ebca6b) & 0xFFFFFFFF
    h ^= h >> 13; h = (h * 0xc2b2ae35) & 0xFFFFFFFF
    h ^= h >> 16
    return h


def murmur3_128(data, seed):
    M = 0xFFFFFFFF
    c1, c2, c3, c4 = 0x239b961b, 0xab0e9789, 0x38b34ae5, 0xa1e38b93
    h1, h2, h3, h4 = struct.unpack('<4I', seed)
    n = len(data)
    nb = n // 16
    if nb:
        for k1, k2, k3, k4 in struct.iter_unpack('<4I', data[:nb * 16]):
            k1 = (k1 * c1) & M; k1 = _rotl(k1, 15); k1 = (k1 * c2) & M; h1 ^= k1
            h1 = _rotl(h1, 19); h1 = (h1 + h2) & M; h1 = (h1 * 5 + 0x561ccd1b) & M
            k2 = (k2 * c2) & M; k2 = _rotl(k2, 16); k2 = (k2 * c3) & M; h2 ^= k2
            h2 = _rotl(h2, 17); h2 = (h2 + h3) & M; h2 = (h2 * 5 + 0x0bcaa747) & M
            k3 = (k3 * c3) & M; k3 = _rotl(k3, 17); k3 = (k3 * c4) & M; h3 ^= k3
            h3 = _rotl(h3, 15); h3 = (h3 + h4) & M; h3 = (h3 * 5 + 0x96cd1c35) & M
            k4 = (k4 * c4) & M; k4 = _rotl(k4, 18); k4 = (k4 * c1) & M; h4 ^= k4
            h4 = _rotl(h4, 13); h4 = (h4 + h1) & M; h4 = (h4 * 5 + 0x32ac3b17) & M
    tail = data[nb * 16:]
    r = len(tail)
    if r:
        k1, k2, k3, k4 = struct.unpack('<4I', tail + bytes(16 - r))
        if r > 12:
            k4 = (k4 * c4) & M; k4 = _rotl(k4, 18); k4 = (k4 * c1) & M; h4 ^= k4
        if r > 8:
            k3 = (k3 * c3) & M; k3 = _rotl(k3, 17); k3 = (k3 * c4) & M; h3 ^= k3
        if r > 4:
            k2 = (k2 * c2) & M; k2 = _rotl(k2, 16); k2 = (k2 * c3) & M; h2 ^= k2
        k1 = (k1 * c1) & M; k1 = _rotl(k1, 15); k1 = (k1 * c2) & M; h1 ^= k1
    h1 ^= n; h2 ^= n; h3 ^= n; h4 ^= n
    h1 = (h1 + h2 + h3 + h4) & M
    h2 = (h2 + h1) & M; h3 = (h3 + h1) & M; h4 = (h4 + h1) & M
    h1, h2, h3, h4 = _fmix(h1), _fmix(h2), _fmix(h3), _fmix(h4)
    h1 = (h1 + h2 + h3 + h4) & M
    h2 = (h2 + h1) & M; h3 = (h3 + h1) & M; h4 = (h4 + h1) & M
    return struct.pack('<4I', h1, h2, h3, h4)


class Interner:
    def __init__(self):
        self.ids = {}
        self.strs = [None]

    def id(self, s):
        if isinstance(s, str):
            s = s.encode('latin1', 'surrogateescape')
        if s not in self.ids:
            self.ids[s] = len(self.strs)
            self.strs.append(s)
        return self.ids[s]

    def base(self, s):
        if isinstance(s, str):
            s = s.encode('latin1', 'surrogateescape')
        return self.id(s.rsplit(b'/', 1)[-1])


class World:
    """one array + the options every command of this history is run with"""

    def __init__(self, binary, shim, rng, nd=2, np_=1, order='alpha', fake_uuid=False, multi=False, where='tmpfs', murmur=False, filters=False, splits=1, ncontent=1):
        self.rng = rng
        self.murmur = murmur        # --test-force-murmur3: block hashes are computed by the harness itself
        self.seed = None
        root = mkscratch_on(where)
        self.filters = filters
        # filters flavour: exclusion rules, hidden files, a content copy ON a data disk, special files -- the walk applies the same rules
        extra = ['exclude *.tmp', 'exclude /exdir/', 'nohidden', 'content %s' % os.path.join(root, 'd1', 'snapraid.content')] if filters else []
        if filters:
            os.makedirs(os.path.join(root, 'd1'), exist_ok=True)
        self.arr = Array(binary, nd=nd, np_=np_, shim=shim, root=root, extra_conf=extra, splits=splits, ncontent=ncontent)
        self.order, self.fake_uuid, self.multi, self.where = order, fake_uuid, multi, where
        self.names = Interner()
        self.bids = {bytes(self.arr.bs): 0}
        self.blocks = [bytes(self.arr.bs)]
        self.hids = {}
        self.hash_known = {}
        self.pairs = set()
        self.log = []
        self.t = 1700000000 + rng.randint(0, 1000) * 7
        os.makedirs(os.path.join(self.arr.root, 'import'), exist_ok=True)

    # ------------------------------------------------------------------------------------------ options
    def opts(self, multi=None):
        o = ['--test-force-order-' + self.order]
        if self.fake_uuid:
            o.append('--test-fake-uuid')
        if not (self.multi if multi is None else multi):
            o.append('--test-skip-multi-scan')
        if self.murmur:
            o.append('--test-force-murmur3')
        return o

    def run(self, cmd, *opts, multi=None, shim_env=None):
        extra = self.opts(multi)
        if cmd == 'sync':
            extra += ['--force-empty', '--force-zero']
        r = self.arr.run(cmd, *(list(opts) + extra), shim_env=shim_env)
        self.log.append([cmd] + list(opts) + [r.rc])
        return r

    def content(self):
        if not os.path.exists(self.arr.content_files[0]):
            return None
        st = self.arr.content()
        if self.murmur and st['hash'] == 'murmur3':
            self.seed = st['seed']
        return st

    def block_hash(self, data):
        """hash of the first len(data) bytes of a block, as recorded by the tool (needs the seed of the content file)"""
        return murmur3_128(bytes(data), self.seed)

    def hash_errors(self, st):
        """independent oracle: the recorded hash of every BLK block is the hash of the bytes now on disk under that name
        (files whose size/time-stamp no longer match the record are skipped); returns a list of error strings"""
        if not (self.murmur and self.seed and st):
            return []
        bs, errs = self.arr.bs, []
        for d, dd in st['disks'].items():
            for f in dd['files']:
                q = self.p(d, f['sub'].decode('latin1'))
                if not (os.path.isfile(q) and not os.path.islink(q)):
                    continue
                s = os.lstat(q)
                if s.st_size != f['size'] or s.st_mtime_ns // 10**9 != f['sec'] or (f['nsec'] >= 0 and s.st_mtime_ns % 10**9 != f['nsec']):
                    continue
                data = open(q, 'rb').read()
                for i, (state, pos, h) in enumerate(f['blocks']):
                    if state == 'BLK' and self.block_hash(data[i * bs:(i + 1) * bs]) != h:
                        errs.append('%s:%s block %d (position %d) is recorded BLK with a hash that is not the hash of its data' % (d, f['sub'].decode('latin1'), i, pos))
        return errs

    def inodes_usable(self, st, disk):
        """has_past_inodes of scan.c for this disk in the NEXT command: the recorded UUID equals the current one and is
        supported.  Scratch file systems report no UUID; --test-fake-uuid gives the first two disks fake ones."""
        if not self.fake_uuid or st is None:
            return False
        k = self.arr.disks.index(disk)
        if k >= 2:
            return False
        exp = ('fake-uuid-%d' % (2 - k)).encode()
        for m in st['maps']:
            if m['name'] == disk:
                return m['uuid'] == exp
        return False

    def uuid_ids(self, st, disk):
        """(recorded, reported) UUID of a disk as small ids, 0 = empty: the model decides has_past_inodes from them"""
        k = self.arr.disks.index(disk)
        cur = ('fake-uuid-%d' % (2 - k)).encode() if (self.fake_uuid and k < 2) else b''
        rec = b''
        for m in (st['maps'] if st else []):
            if m['name'] == disk:
                rec = m['uuid']
        ids = getattr(self, '_uuid_ids', None)
        if ids is None:
            ids = self._uuid_ids = {b'': 0}
        for u in (rec, cur):
            if u not in ids:
                ids[u] = len(ids)
        return ids[rec], ids[cur]

    # ------------------------------------------------------------------------------------------ time-stamps
    def stamp(self, zero_ns=None):
        """a fresh, strictly increasing mtime; nanoseconds zero with probability 1/4 (or as requested)"""
        self.t += self.rng.randint(1, 3)
        z = (self.rng.random() < 0.25) if zero_ns is None else zero_ns
        return self.t * 10**9 + (0 if z else self.rng.randint(1, 999999999))

    # ------------------------------------------------------------------------------------------ FS operations
    def p(self, d, sub):
        return self.arr.path(d, sub)

    def isfile(self, d, sub):
        q = self.p(d, sub)
        return os.path.isfile(q) and not os.path.islink(q)

    def parent_ok(self, d, sub):
        """every proper prefix of sub is a directory or absent (so makedirs works)"""
        parts = sub.split('/')[:-1]
        cur = os.path.join(self.arr.root, d)
        for x in parts:
            cur = os.path.join(cur, x)
            if os.path.lexists(cur) and (os.path.islink(cur) or not os.path.isdir(cur)):
                return False
        return True

    def write(self, d, sub, data, mtime_ns=None, guard=False):
        if not self.parent_ok(d, sub):
            return False
        if guard and mtime_ns is not None and any(len(b) == len(data) and mt == mtime_ns and b != bytes(data) for b, mt in self.arr.store.get((d, sub), [])):
            return False          # would reproduce a size + time-stamp this name already had with other bytes: invisible by design
        q = self.p(d, sub)
        if os.path.isdir(q) and not os.path.islink(q):
            shutil.rmtree(q)
        elif os.path.islink(q):
            os.unlink(q)
        elif os.path.lexists(q) and not os.path.isfile(q):
            os.unlink(q)          # a fifo: opening it for writing would block
        self.arr.write(d, sub, data, mtime_ns if mtime_ns is not None else self.stamp())
        return True

    def aliases(self, d, sub, src):
        """would putting the file `src` (path on disk) under the name (d, sub) reproduce a size + time-stamp that this name already had
        with OTHER bytes?  Such a replacement is invisible to the tool by the property's own words (identity = path/inode + size +
        time-stamp) and belongs to the invisible-rewrite probe, not to the ordinary operations"""
        st = os.stat(src)
        data = None
        for b, mt in self.arr.store.get((d, sub), []):
            if len(b) == st.st_size and mt == st.st_mtime_ns:
                if data is None:
                    data = open(src, 'rb').read()
                if b != data:
                    return True
        return False

    def op(self, o):
        """apply one operation (a list, JSON-able); returns True when it changed something"""
        a, rng = self.arr, self.rng
        k = o[0]
        done = False
        if k == 'create':                      # create or replace (new inode when it existed? no: in place truncate+write)
            done = self.write(o[1], o[2], rng.randbytes(o[3]))
        elif k == 'recreate':                  # delete + create: provokes inode reuse where the FS does it
            if self.isfile(o[1], o[2]):
                os.unlink(self.p(o[1], o[2]))
                done = self.write(o[1], o[2], rng.randbytes(o[3]))
        elif k == 'reuse':                     # delete one file, create another one: the new file may get the freed inode
            if self.isfile(o[1], o[2]) and o[2] != o[3]:
                os.unlink(self.p(o[1], o[2]))
                done = self.write(o[1], o[3], rng.randbytes(o[4]))
        elif k == 'rewrite':                   # same size, new content, new mtime
            if self.isfile(o[1], o[2]):
                n = os.path.getsize(self.p(o[1], o[2]))
                done = self.write(o[1], o[2], rng.randbytes(n))
        elif k == 'append':
            if self.isfile(o[1], o[2]):
                done = self.write(o[1], o[2], open(self.p(o[1], o[2]), 'rb').read() + rng.randbytes(o[3]))
        elif k == 'truncate':
            if self.isfile(o[1], o[2]):
                old = open(self.p(o[1], o[2]), 'rb').read()
                if o[3] < len(old):
                    done = self.write(o[1], o[2], old[:o[3]])
        elif k == 'delete':
            if os.path.lexists(self.p(o[1], o[2])):
                a.remove(o[1], o[2]); done = True
        elif k == 'rename':                    # same disk: the inode is kept
            s, t = self.p(o[1], o[2]), self.p(o[1], o[3])
            if self.isfile(o[1], o[2]) and not os.path.lexists(t) and self.parent_ok(o[1], o[3]) and not self.aliases(o[1], o[3], s):
                os.makedirs(os.path.dirname(t), exist_ok=True)
                os.rename(s, t); a.note_version(o[1], o[3]); done = True
        elif k == 'swap':                      # two files exchange their names (inodes follow the data)
            s, t = self.p(o[1], o[2]), self.p(o[1], o[3])
            if self.isfile(o[1], o[2]) and self.isfile(o[1], o[3]) and o[2] != o[3] and not self.aliases(o[1], o[3], s) and not self.aliases(o[1], o[2], t):
                tmp = s + '.swaptmp'
                os.rename(s, tmp); os.rename(t, s); os.rename(tmp, t)
                a.note_version(o[1], o[2]); a.note_version(o[1], o[3]); done = True
        elif k in ('move', 'copy'):            # across disks (or to another directory): cp -p semantics, new inode
            s, t = self.p(o[1], o[2]), self.p(o[3], o[4])
            if self.isfile(o[1], o[2]) and not os.path.lexists(t) and self.parent_ok(o[3], o[4]) and (o[1], o[2]) != (o[3], o[4]) and not self.aliases(o[3], o[4], s):
                os.makedirs(os.path.dirname(t), exist_ok=True)
                st = os.stat(s)
                shutil.copyfile(s, t)
                os.utime(t, ns=(st.st_mtime_ns, st.st_mtime_ns))
                a.note_version(o[3], o[4])
                if k == 'move':
                    os.unlink(s)
                done = True
        elif k == 'resize_keepm':              # the size changes, the time-stamp is put back
            if self.isfile(o[1], o[2]):
                q = self.p(o[1], o[2])
                st = os.stat(q)
                if st.st_size != o[3]:
                    old = open(q, 'rb').read()
                    data = old[:o[3]] if o[3] < len(old) else old + rng.randbytes(o[3] - len(old))
                    done = self.write(o[1], o[2], data, st.st_mtime_ns, guard=True)
        elif k == 'restore':                   # "restored from a backup": same path, size, time-stamp and bytes, new inode
            if self.isfile(o[1], o[2]):
                q = self.p(o[1], o[2])
                st = os.stat(q)
                if st.st_nlink == 1:
                    data = open(q, 'rb').read()
                    os.rename(q, q + '.bak')       # keeps the old inode busy so that the copy gets another one
                    with open(q, 'wb') as fh:
                        fh.write(data)
                    os.utime(q, ns=(st.st_mtime_ns, st.st_mtime_ns))
                    os.unlink(q + '.bak')
                    a.note_version(o[1], o[2]); done = True
        elif k == 'samestamp':                 # ANOTHER file (other name, other bytes) with the size and time-stamp of an existing one
            t = self.p(o[3], o[4])
            if self.isfile(o[1], o[2]) and not os.path.lexists(t) and self.parent_ok(o[3], o[4]):
                st = os.stat(self.p(o[1], o[2]))
                done = self.write(o[3], o[4], rng.randbytes(st.st_size), st.st_mtime_ns, guard=True)
        elif k == 'inoswap':                   # two files of a disk exchange their INODE NUMBERS; names, bytes, sizes and time-stamps stay
            pa, pb = self.p(o[1], o[2]), self.p(o[1], o[3])
            if self.isfile(o[1], o[2]) and self.isfile(o[1], o[3]) and o[2] != o[3] and os.stat(pa).st_nlink == 1 and os.stat(pb).st_nlink == 1:
                sa, sb = os.stat(pa), os.stat(pb)
                da, db = open(pa, 'rb').read(), open(pb, 'rb').read()
                tmp = pa + '.inoswap'
                os.rename(pa, tmp); os.rename(pb, pa); os.rename(tmp, pb)
                for q, data, st in ((pa, da, sa), (pb, db, sb)):
                    with open(q, 'r+b') as fh:
                        fh.write(data); fh.truncate(len(data))
                    os.utime(q, ns=(st.st_atime_ns, st.st_mtime_ns))
                done = True
        elif k == 'samesec':                   # the time-stamp changes INSIDE its second: nanoseconds x -> 0, or 0 -> x; optionally other bytes of the same size
            if self.isfile(o[1], o[2]):
                q = self.p(o[1], o[2])
                st = os.stat(q)
                sec, ns = divmod(st.st_mtime_ns, 10**9)
                # never reproduce a time-stamp this path already had with other bytes: such a rewrite would be invisible to the tool
                # (same size, seconds and nanoseconds as the recorded one) and is the business of the invisible-rewrite probe
                used = set(mt for _, mt in a.store.get((o[1], o[2]), []))
                m = sec * 10**9 + (0 if ns != 0 else rng.randint(1, 999999999))
                while m in used:
                    m = sec * 10**9 + rng.randint(1, 999999999)
                if o[3] == 'rewrite' and st.st_size > 0:
                    done = self.write(o[1], o[2], rng.randbytes(st.st_size), m)
                else:
                    os.utime(q, ns=(m, m)); a.note_version(o[1], o[2]); done = True
        elif k == 'touch':                     # time-stamp only
            if self.isfile(o[1], o[2]):
                m = self.stamp()
                os.utime(self.p(o[1], o[2]), ns=(m, m)); a.note_version(o[1], o[2]); done = True
        elif k == 'symlink':                   # create a symlink or change its target (replaces a file/dir of that name)
            if self.parent_ok(o[1], o[2]):
                q = self.p(o[1], o[2])
                if os.path.lexists(q):
                    a.remove(o[1], o[2])
                os.makedirs(os.path.dirname(q), exist_ok=True)
                os.symlink(o[3], q); done = True
        elif k == 'hardlink':
            s, t = self.p(o[1], o[2]), self.p(o[1], o[3])
            if self.isfile(o[1], o[2]) and not os.path.lexists(t) and self.parent_ok(o[1], o[3]) and not self.aliases(o[1], o[3], s):
                os.makedirs(os.path.dirname(t), exist_ok=True)
                os.link(s, t); a.note_version(o[1], o[3]); done = True
        elif k == 'linkkind':                  # a symlink whose text is the path of a file becomes a hard link to it (same name, same recorded text), or back
            q = self.p(o[1], o[2])
            if os.path.islink(q):
                t = os.readlink(q)
                if self.isfile(o[1], t):
                    os.unlink(q); os.link(self.p(o[1], t), q); a.note_version(o[1], o[2]); done = True
            elif self.isfile(o[1], o[2]) and os.stat(q).st_nlink > 1:
                ino = os.stat(q).st_ino
                base = os.path.join(a.root, o[1])
                others = sorted(os.path.relpath(os.path.join(r, n), base) for r, dn, fn in os.walk(base) for n in fn
                                if not os.path.islink(os.path.join(r, n)) and os.stat(os.path.join(r, n)).st_ino == ino and os.path.join(r, n) != q)
                if others:
                    os.unlink(q); os.symlink(others[0], q); done = True
        elif k == 'fifo':                      # a special file: ignored by the tool (a directory holding only such things is `empty`)
            q = self.p(o[1], o[2])
            if self.parent_ok(o[1], o[2]) and not os.path.lexists(q):
                os.makedirs(os.path.dirname(q), exist_ok=True)
                os.mkfifo(q); done = True
        elif k == 'mkdir':                     # (empty) directory, replacing a file or link of that name
            if self.parent_ok(o[1], o[2]):
                q = self.p(o[1], o[2])
                if os.path.lexists(q) and (os.path.islink(q) or not os.path.isdir(q)):
                    a.remove(o[1], o[2])
                os.makedirs(q, exist_ok=True); done = True
        elif k == 'file2dir':                  # a file becomes a directory holding a file
            if self.isfile(o[1], o[2]):
                a.remove(o[1], o[2])
                done = self.write(o[1], o[2] + '/' + o[3], rng.randbytes(o[4]))
        elif k == 'dir2file':                  # a directory (with everything below) becomes a file
            q = self.p(o[1], o[2])
            if os.path.isdir(q) and not os.path.islink(q):
                done = self.write(o[1], o[2], rng.randbytes(o[3]))
        else:
            raise ValueError(k)
        if done:
            self.log.append(list(o))
        return done

    def sync_store(self):
        """every regular file present is a known version (covers the other names of a hard-linked inode)"""
        for d in self.arr.disks:
            base = os.path.join(self.arr.root, d)
            for root, dn, fn in os.walk(base):
                for n in fn:
                    q = os.path.join(root, n)
                    if os.path.islink(q) or not os.path.isfile(q):
                        continue
                    st = os.lstat(q)
                    sub = os.path.relpath(q, base)
                    if not any(len(b) == st.st_size and m == st.st_mtime_ns for b, m in self.arr.store.get((d, sub), [])):
                        self.arr.note_version(d, sub)

    def excluded(self, disk, rel, name, isdir):
        """the rules of the filters flavour (conf: exclude *.tmp, exclude /exdir/, nohidden, a content file on d1)"""
        if not self.filters:
            return False
        if isinstance(name, bytes):
            name = name.decode('latin1'); rel = rel.decode('latin1')
        if name.startswith('.'):
            return True
        if disk == 'd1' and rel == '' and name in ('snapraid.content', 'snapraid.content.tmp', 'snapraid.content.lock'):
            return True           # filter_content: exactly the content file, its .tmp and its .lock -- not their other siblings
        if isdir:
            return rel == '' and name == 'exdir'
        return name.endswith('.tmp')

    # ------------------------------------------------------------------------------------------ ground truth
    def truth(self):
        """the harness's own walk: {disk: {'files': {sub: (size, mtime_ns, ino, nlink)}, 'links': {sub: target}, 'dirs': set(empty dirs)}}
        an empty directory is one below which there is no file and no link and no other directory"""
        res = {}
        for d in self.arr.disks:
            base = os.path.join(self.arr.root, d)
            files, links, dirs = {}, {}, set()

            def walk(path, rel):
                got = False
                for n in sorted(os.listdir(path)):
                    q = os.path.join(path, n)
                    st = os.lstat(q)
                    isdir = stat.S_ISDIR(st.st_mode)
                    if self.excluded(d, rel, n, isdir):
                        continue
                    if stat.S_ISLNK(st.st_mode):
                        links[rel + n] = os.readlink(q); got = True
                    elif stat.S_ISREG(st.st_mode):
                        files[rel + n] = (st.st_size, st.st_mtime_ns, st.st_ino, st.st_nlink); got = True
                    elif isdir:
                        if not walk(q, rel + n + '/'):
                            dirs.add(rel + n)
                        got = True
                    # anything else (fifo, socket, device) is ignored by the tool
                return got
            walk(base, '')
            res[d] = {'files': files, 'links': links, 'dirs': dirs}
        return res

    # ------------------------------------------------------------------------------------------ the model's input
    def listing(self):
        """per disk, the sequence of (kind, sub, lstat) in the order scan_sub would meet them: entries of a directory sorted
        by name (alpha) or by d_ino (other orders, persistent inodes), directories descended in place, an `emptydir`
        event after a directory in which nothing was processed"""
        out = []
        for d in self.arr.disks:
            base = os.path.join(self.arr.root, d).encode()
            dev = os.stat(base).st_dev
            seq = []

            def sub(dirpath, rel):
                ents = list(os.scandir(dirpath))
                if self.order == 'alpha':
                    ents.sort(key=lambda e: e.name)
                else:
                    ents.sort(key=lambda e: e.inode())
                processed = False
                for e in ents:
                    r = rel + e.name
                    st = e.stat(follow_symlinks=False)
                    if self.excluded(d, rel, e.name, stat.S_ISDIR(st.st_mode)):
                        continue
                    if stat.S_ISREG(st.st_mode):
                        seq.append(('f', r, st)); processed = True
                    elif stat.S_ISLNK(st.st_mode):
                        seq.append(('s', r, st, os.readlink(e.path))); processed = True
                    elif stat.S_ISDIR(st.st_mode):
                        if st.st_dev != dev:
                            continue
                        if not sub(e.path, r + b'/'):
                            seq.append(('d', r, st))
                        processed = True
                return processed
            sub(base, b'')
            out.append(seq)
        return out

    def ser_listing(self, lst):
        """L <ndisks> { <n> { <f|s|d> <name> <size> <mtime> <nsec> <inode> <nlink> <to> <key> }* }*   key = sort key of the delayed insert"""
        toks = ['L', str(len(lst))]
        for di, seq in enumerate(lst):
            base = os.path.join(self.arr.root, self.arr.disks[di]).encode()
            files = [e for e in seq if e[0] == 'f']
            if self.order == 'alpha':
                rank = {r: i for i, r in enumerate(sorted(e[1] for e in files))}
            toks.append(str(len(seq)))
            for e in seq:
                k, r, st = e[0], e[1], e[2]
                key = 0
                if k == 'f':
                    if self.order == 'alpha':
                        key = rank[r]
                    elif self.order == 'inode':
                        key = st.st_ino
                    elif self.order == 'physical':
                        key = filephy(os.path.join(base, r), st.st_size)
                to = self.names.id(e[3]) if k == 's' else 0
                toks += [k, str(self.names.id(r)), str(st.st_size if k == 'f' else 0), str(st.st_mtime_ns // 10**9), str(st.st_mtime_ns % 10**9),
                         str(st.st_ino), str(st.st_nlink), str(to), str(key)]
        return toks

    def ser_base(self):
        """BASE <n> { <name id> <basename id> }*  for every name known so far (call after everything else was serialised)"""
        n = len(self.names.strs)
        pairs = []
        i = 1
        while i < len(self.names.strs):
            pairs.append((i, self.names.base(self.names.strs[i])))
            i += 1
        toks = ['BASE', str(len(pairs))]
        for a, b in pairs:
            toks += [str(a), str(b)]
        return toks

    # ---- ids
    def bid(self, blk):
        blk = bytes(blk) + bytes(self.arr.bs - len(blk))
        if blk not in self.bids:
            self.bids[blk] = len(self.blocks)
            self.blocks.append(blk)
        return self.bids[blk]

    def hval(self, h):
        if h == b'\xff' * len(h):
            return 'Z'
        if h == b'\x00' * len(h):
            return 'I'
        if h not in self.hids:
            self.hids[h] = len(self.hids) + 1
        return str(self.hids[h])

    def ser_content(self, st):
        """order preserving: files in content-file order (= the tool's file list order), DELETED by position, links, dirs
        C <ndisks> <blockmax> { D- | D <nf> <ndel> <nlinks> <ndirs> {F name size mtime nsec inode copy nblk {<b|g|p> pos hval}*}* {pos hval}* {name to hard}* {name}* }* INFO ..."""
        nd = self.arr.nd
        if st is None:
            return ['C', str(nd), '0'] + ['D', '0', '0', '0', '0'] * nd + ['INFO', '0']
        bypos = {m['pos']: m['name'] for m in st['maps']}
        npos = max([nd] + [p + 1 for p in bypos])
        toks = ['C', str(npos), str(st['blockmax'])]
        for p in range(npos):
            if p not in bypos:
                toks += ['D', '0', '0', '0', '0'] if p < nd else ['D-']
                continue
            d = st['disks'][bypos[p]]
            toks += ['D', str(len(d['files'])), str(len(d['deleted'])), str(len(d['links'])), str(len(d['dirs']))]
            for f in d['files']:
                toks += ['F', str(self.names.id(f['sub'])), str(f['size']), str(f['sec']), str(f['nsec']), str(f['inode']), '0', str(len(f['blocks']))]
                for (s, pos, h) in f['blocks']:
                    toks += [{'BLK': 'b', 'CHG': 'g', 'REP': 'p'}[s], str(pos), self.hval(h)]
            for pos in sorted(d['deleted']):
                toks += [str(pos), self.hval(d['deleted'][pos])]
            for l in d['links']:
                toks += [str(self.names.id(l['sub'])), str(self.names.id(l['to'])), '1' if l['hard'] else '0']
            for x in d['dirs']:
                toks.append(str(self.names.id(x)))
        toks += ['INFO', str(len(st['info']))]
        for i in st['info']:
            toks += ['-'] if i is None else [str(i['time']), str(int(i['bad'])), str(int(i['rehash'])), str(int(i['justsynced']))]
        return toks

    def ser_fs(self):
        """the data disks as the tool would read them now (regular files only; hard links appear under every name)"""
        toks = ['FS', str(self.arr.nd)]
        bs = self.arr.bs
        for d in self.arr.disks:
            base = os.path.join(self.arr.root, d)
            files = []
            for root, dirs, fs in os.walk(base):
                for n in fs:
                    q = os.path.join(root, n)
                    if os.path.islink(q):
                        continue
                    st = os.lstat(q)
                    if not stat.S_ISREG(st.st_mode):
                        continue
                    data = open(q, 'rb').read()
                    ids = [self.bid(data[k:k + bs]) for k in range(0, len(data), bs)]
                    if self.murmur:
                        for k in range(0, len(data), bs):
                            blk = data[k:k + bs]
                            self.pairs.add((self.bid(blk), len(blk)))
                    files.append([str(self.names.id(os.path.relpath(q, base))), str(len(data)), str(st.st_mtime_ns // 10**9), str(st.st_mtime_ns % 10**9),
                                  str(st.st_ino), str(len(ids))] + list(map(str, ids)))
            toks += ['X', str(len(files))]
            for f in files:
                toks += f
        return toks

    def learn_hashes(self, st, only_blk=False):
        """a content file tells the hash of every BLK block (and of REP blocks, which however may be inherited, i.e. NOT the
        hash of the data under that name: those are learnt only from the file the hashes were verified for)"""
        if st is None or (self.murmur and self.seed):
            return
        bs = self.arr.bs
        for dname, d in st['disks'].items():
            for f in d['files']:
                v = self.arr.find_version(dname, f)
                if v is None:
                    continue
                for i, (s, pos, h) in enumerate(f['blocks']):
                    if s == 'BLK':
                        blk = v[i * bs:(i + 1) * bs]
                        self.hash_known[(self.bid(blk), len(blk))] = self.hval(h)

    def ser_hashes(self):
        if self.murmur and self.seed:       # the seed is known once a content file exists: hash every block met so far
            for (b, l) in self.pairs:
                if (b, l) not in self.hash_known:
                    self.hash_known[(b, l)] = self.hval(self.block_hash(self.blocks[b][:l]))
        toks = ['H', str(len(self.hash_known))]
        for (b, l), h in sorted(self.hash_known.items()):
            toks += [str(b), str(l), h]
        return toks


def content_forget_nsec(data, want=lambda sub: True):
    """rewrite a content file so that the files selected by `want` carry NO sub-second time-stamp (field 0 = STAT_NSEC_INVALID),
    as content files written before the nanosecond field existed; own walk over the records, CRC recomputed.  Returns (bytes, n)"""
    r = cparse.R(data)
    out = bytearray(r.take(12))
    blocksize, hashsize, blockmax = None, 16, 0
    n = 0

    def copy(start):
        out.extend(data[start:r.p])
    while not r.eof():
        start = r.p
        c = chr(r.c())
        if c == 'f':
            r.b32(); size = r.b64(); r.b64()
            copy(start)
            r.b32()                                   # the nsec field
            ns_end = r.p
            r.b64(); sub = r.bs()
            if want(sub):
                out.append(0x80); n += 1              # varint 0
                out.extend(data[ns_end:r.p])
            else:
                out.extend(data[ns_end - _varlen(data, ns_end):r.p])      # unchanged: the nsec field and the rest
            nblk = (size + blocksize - 1) // blocksize
            got = 0
            while got < nblk:
                s2 = r.p
                k = chr(r.c()); r.b32(); cnt = r.b32()
                if k != 'n':
                    r.take(cnt * hashsize)
                got += cnt
                out.extend(data[s2:r.p])
            continue
        elif c == 'i':
            r.b32(); pos = 0
            while pos < blockmax:
                cnt = r.b32(); flag = r.b32()
                if flag & 1:
                    r.b32()
                pos += cnt
        elif c == 'h':
            r.b32(); pos = 0
            while pos < blockmax:
                cnt = r.b32(); k = chr(r.c())
                if k == 'o':
                    r.take(cnt * hashsize)
                pos += cnt
        elif c in 'sa':
            r.b32(); r.bs(); r.bs()
        elif c == 'r':
            r.b32(); r.bs()
        elif c in 'cC':
            r.c(); r.take(16)
        elif c == 'z':
            blocksize = r.b32()
        elif c == 'y':
            hashsize = r.b32()
        elif c == 'x':
            blockmax = r.b32()
        elif c in 'mM':
            r.bs(); r.b32()
            if c == 'M':
                r.b32(); r.b32()
            r.bs()
        elif c == 'P':
            r.b32(); r.b32(); r.b32(); r.bs()
        elif c == 'Q':
            r.b32(); r.b32(); r.b32(); k = r.b32()
            for _ in range(k):
                r.bs(); r.bs(); r.b64()
        elif c == 'N':
            out.extend(b'N')
            out.extend(struct.pack('<I', cparse.crc32c(bytes(out))))
            r.take(4)
            continue
        else:
            raise cparse.Bad('record %r' % c)
        copy(start)
    return bytes(out), n


def _varlen(data, end):
    """length of the varint that ends just before `end` (its last byte has the high bit set, the preceding ones do not)"""
    k = 1
    while data[end - k - 1] & 0x80 == 0 and k < 5:
        k += 1
    return k


def counters(r):
    """the seven scan counters from the summary: tags of a diff (or of a sync run with -v)"""
    s = r.summary()
    try:
        return {k: int(s[k]) for k in ('equal', 'added', 'removed', 'updated', 'moved', 'copied', 'restored')}
    except KeyError:
        return None


def list_tags(r):
    """(files, links) reported by `list` in its log: {(disk, sub): (size, sec, nsec)}, {(disk, sub): (kind, target)}"""
    files, links = {}, {}
    for t in r.tags:
        if t.startswith('file:'):
            p = t.split(':')
            files[(p[1], ':'.join(p[2:-4]))] = (int(p[-4]), int(p[-3]), int(p[-2]))
        elif t.startswith('link_'):
            p = t.split(':')
            links[(p[1], p[2])] = (p[0][5:], ':'.join(p[3:]))
    return files, links
