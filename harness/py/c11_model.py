"""Tie between the extracted scan model (coq/Scan/ScanModel.v + Array/SyncModel.v + Scan/PrehashModel.v, ocaml/C11/driver.ml) and
the real binary, shared by check_C11 and check_C19."""
import os
from common import *
from c11_lib import *

TRUSTED = ['Coq 8.16.1 kernel',
           'hand model coq/Scan/ScanModel.v of cmdline/scan.c (scan_file, scan_link, scan_emptydir, scan_file_keep, remove/deallocate, delayed allocate) and state.c --force-nocopy reader',
           'hand model coq/Scan/PrehashModel.v of cmdline/sync.c state_hash_process / state_sync; coq/Scan/FetchModel.v of the import/search fetch of check.c repair (tested only through fix runs); coq/Array/{ArrayDefs,SyncModel}.v (shared with C06)',
           'definitions and lemmas of C06 imported by the proofs: coq/Array/SyncProofsDefs.v (MapOK, ParOK, PastOK, slots), SyncProofsStripe.v (frame of sync_stripe)',
           'hash-table search order = list order (first inserted first; see the header of ScanModel.v), sequential scan of the disks, disk list order = position order',
           'the directory listing (names, sizes, time-stamps, inodes, nlink, order, sort keys) is an input observed by the harness, not modelled',
           'extraction + ocaml/C11/driver.ml', 'harness/py/{arraylib,content,gfref,c11_lib,c11_model}.py (independent walk, content decoder, parity checker)', 'harness/c/shim.c']
ASSUMPTIONS = ['hash collision-freedom between a block and its decoy (hashes are abstract ids in the model)',
               'threaded scanning (default) is only tested through the oracles (diff verdict, list, check), the model is sequential',
               'filters, hidden files, mount points, special files, Windows paths, rehash in progress are not modelled',
               'os_abort paths of scan.c ("Internal inconsistency") are an explicit error value of the model excluded by the theorems']


def build():
    return build_model('Extract/Extract_C11.vo', 'ocaml/C11', 'c11_ext', 'driver.ml', 'model')


def parse_content(toks, i):
    """content tokens -> (dict, next index)"""
    assert toks[i] == 'C', toks[i:i + 5]
    nd, bm = int(toks[i + 1]), int(toks[i + 2]); i += 3
    disks = []
    for _ in range(nd):
        if toks[i] == 'D-':
            disks.append(None); i += 1; continue
        nf, ndel, nl, ndr = map(int, toks[i + 1:i + 5]); i += 5
        files = []
        for _ in range(nf):
            assert toks[i] == 'F'
            name, size, mt, ns, ino, copy, nb = map(int, toks[i + 1:i + 8]); i += 8
            bl = []
            for _ in range(nb):
                bl.append((toks[i], int(toks[i + 1]), toks[i + 2])); i += 3
            files.append({'name': name, 'size': size, 'mtime': mt, 'nsec': ns, 'inode': ino, 'blocks': bl})
        dele = {}
        for _ in range(ndel):
            dele[int(toks[i])] = toks[i + 1]; i += 2
        links = []
        for _ in range(nl):
            links.append(tuple(map(int, toks[i:i + 3]))); i += 3
        dirs = []
        for _ in range(ndr):
            dirs.append(int(toks[i])); i += 1
        disks.append({'files': files, 'deleted': dele, 'links': links, 'dirs': dirs})
    assert toks[i] == 'INFO'
    n = int(toks[i + 1]); i += 2
    info = []
    for _ in range(n):
        if toks[i] == '-':
            info.append(None); i += 1
        else:
            info.append(tuple(toks[i + 1:i + 4])); i += 4      # time dropped: bad, rehash, justsynced
    return {'blockmax': bm, 'disks': disks, 'info': info}, i


def first_diff(m, r, names):
    """human readable first difference between two parsed contents"""
    if m['blockmax'] != r['blockmax']:
        return 'blockmax model %d real %d' % (m['blockmax'], r['blockmax'])
    for k, (a, b) in enumerate(zip(m['disks'], r['disks'])):
        if (a is None) != (b is None):
            return 'disk %d presence' % k
        if a is None:
            continue
        if [f['name'] for f in a['files']] != [f['name'] for f in b['files']]:
            return 'disk %d file order/names: model %s real %s' % (k, [names.strs[f['name']] for f in a['files']], [names.strs[f['name']] for f in b['files']])
        for fa, fb in zip(a['files'], b['files']):
            if fa != fb:
                return 'disk %d file %s: model %s real %s' % (k, names.strs[fa['name']], fa, fb)
        for key in ('deleted', 'links', 'dirs'):
            if a[key] != b[key]:
                return 'disk %d %s: model %s real %s' % (k, key, a[key], b[key])
    if m['info'] != r['info']:
        return 'info: model %s real %s' % (m['info'], r['info'])
    return None


def usable_toks(H, st0):
    w = H.w
    toks = ['UU', str(w.arr.nd)]
    for d in w.arr.disks:
        r, c = w.uuid_ids(st0, d)
        toks += [str(r), str(c)]
    return toks


def predict_scan(H, st0, lst, clear_past=False):
    """the model's prediction of `diff` for the old content st0 and the listing lst"""
    w = H.w
    c = w.ser_content(st0)
    l = w.ser_listing(lst)
    req = ['diff', str(w.arr.bs)] + w.ser_base() + usable_toks(H, st0) + c + l
    out = run_lines(H.model, [' '.join(req)], shards=1)[0]
    t = out.split()
    if t[:2] == ['ok', '1']:
        return {'aborted': True, 'counters': None, 'rc': None, 'request': ' '.join(req)}
    if t[:2] != ['ok', '0']:
        H.chk.violation('model_error', 'scan model failed: %s' % out[:300], {'request': ' '.join(req)[:6000]}, no_input=True)
        return None
    v = list(map(int, t[2:12]))
    keys = ('equal', 'added', 'removed', 'updated', 'moved', 'copied', 'restored')
    return {'aborted': False, 'counters': dict(zip(keys, v[:7])), 'differs': v[7], 'parity_invalid': v[8], 'rc': v[9], 'request': ' '.join(req)}


def model_sync(H, st0, lst_toks, fs_toks, base_toks, use_toks, c_toks, opts, now, nocopy=False, prehash=False):
    w = H.w
    start = int(opts[opts.index('-S') + 1]) if '-S' in opts else 0
    cnt = int(opts[opts.index('-B') + 1]) if '-B' in opts else 0
    req = ['sync', '1' if nocopy else '0', '1' if prehash else '0', str(w.arr.bs), str(w.arr.np), str(now), str(start), str(cnt)] + \
        base_toks + use_toks + w.ser_hashes() + c_toks + lst_toks + fs_toks
    out = run_lines(H.model, [' '.join(req)], shards=1)[0]
    t = out.split()
    if t[:2] == ['ok', '1']:
        return {'aborted': True, 'request': ' '.join(req)}
    if t[:2] != ['ok', '0']:
        H.chk.violation('model_error', 'scan/sync model failed: %s' % out[:300], {'request': ' '.join(req)[:6000]}, no_input=True)
        return None
    i = t.index('POST')
    post, j = parse_content(t, i + 1)
    assert t[j] == 'FINAL'
    fin = list(map(int, t[j + 1:j + 9]))
    final, _ = parse_content(t, j + 9)
    keys = ('equal', 'added', 'removed', 'updated', 'moved', 'copied', 'restored')
    return {'aborted': False, 'counters': dict(zip(keys, map(int, t[2:9]))), 'post': post, 'final': final,
            'herr': fin[0], 'hsilent': fin[1], 'hio': fin[2], 'err': fin[3], 'silent': fin[4], 'io': fin[5], 'skipped': fin[6], 'fails': fin[7],
            'request': ' '.join(req)}


def real_parsed(w, st):
    p, _ = parse_content(w.ser_content(st), 0)
    return p


def as_loaded(parsed):
    """what loading for sync makes of a content: the past hashes of CHG blocks and DELETED entries are forgotten (clear_past_hash)"""
    for d in parsed['disks']:
        if d is not None:
            for f in d['files']:
                f['blocks'] = [(s, p, 'I' if s == 'g' else h) for (s, p, h) in f['blocks']]
            d['deleted'] = {p: 'I' for p in d['deleted']}
    return parsed


def forget_unusable_inodes(H, st0, parsed):
    """on a disk whose recorded inodes are not usable (no / changed UUID) the tool keeps the inode numbers only in memory and does not
    save the content file for their sake (scan.c: "we don't even save them"): they are not part of the comparison"""
    w = H.w
    for k, d in enumerate(w.arr.disks):
        if k < len(parsed['disks']) and parsed['disks'][k] is not None and not w.inodes_usable(st0, d):
            for f in parsed['disks'][k]['files']:
                f['inode'] = 0
    return parsed


def flush_drift(H):
    """report the model/real disagreement noted by sync_with_model -- called by the checks AFTER their oracles judged the real
    behaviour: a run that violates the property is reported as such, a disagreement on a run that satisfies it is MODEL-DRIFT"""
    p = getattr(H, 'pending_drift', None)
    H.pending_drift = None
    if p:
        H.drift(p[0], p[1], **p[2])
        return True
    return False


def note_drift(H, tag, what, **kw):
    if getattr(H, 'pending_drift', None) is None:
        H.pending_drift = (tag, what, kw)


def sync_with_model(H, st0, lst, opts, nocopy=False, prehash=False, expect_fail=None, nokill=False, fs_after=False, real_opts=()):
    """(1) a real sync killed by the shim before its first parity write leaves the post-scan state in the content file;
    (2) the real sync with the scenario's options; the model predicts both states from st0 + listing (+ the data for (2)).
    Returns the Result of (2) (a disagreement is left in H.pending_drift for flush_drift), or False after a model failure."""
    w, a = H.w, H.w.arr

    def note(tag, what, **kw):
        note_drift(H, tag, what, **kw)
    extra = (['-N'] if nocopy else []) + (['-h'] if prehash else [])
    # everything the model needs, serialised BEFORE the tool runs
    c_toks = w.ser_content(st0)
    lst_toks = w.ser_listing(lst)
    fs_toks = w.ser_fs()
    use_toks = usable_toks(H, st0)
    base_toks = w.ser_base()
    st1 = None
    killed = False
    cb0 = w.arr.content_bytes()
    if not prehash and not nokill:
        r0 = w.run('sync', *extra, shim_env={'VSHIM_KILL_ON': 'pwrite:.parity:1:before'}); H.ncmd += 1
        killed = r0.rc in (-9, 137)
        st1 = w.content()
        if not killed and r0.rc != 0:
            st1 = None        # refused or failed before writing: judged on the second run
    if killed and st1 is not None:
        H.post_kill = st1
    if st1 is not None:
        # killed: st1 is the post-scan state; not killed: no parity write was needed, st1 is the state after a complete sync
        w.learn_hashes(st1)
        m = model_sync(H, st0, lst_toks, fs_toks, base_toks, use_toks, c_toks, [], 0, nocopy=nocopy, prehash=False)
        if m is None:
            return False
        H.nmodel += 1
        if m['aborted']:
            note('drift_abort', 'the scan model reaches an os_abort path of scan.c, the real sync exits %d' % r0.rc, request=m['request'][:6000])
            m = None
        real1 = forget_unusable_inodes(H, st0, real_parsed(w, st1))
        if w.arr.content_bytes() == cb0:
            # nothing asked for a save: the file still holds what the PREVIOUS run wrote; the model speaks about the state in memory,
            # which is that content as loaded (past hashes cleared)
            real1 = as_loaded(real1)
            H.stats['not_saved_runs'] = H.stats.get('not_saved_runs', 0) + 1
        d = first_diff(forget_unusable_inodes(H, st0, m['post' if killed else 'final']), real1, w.names) if m else None
        if d:
            note('drift_scan', '%s predicted by the scan model differs from the real one: %s'
                 % ('post-scan content (states, positions, past hashes)' if killed else 'content after a sync that needed no parity write', d),
                 model=m['post' if killed else 'final'], real=real_parsed(w, st1), request=m['request'][:8000])
        H.stats['post_scan_compared'] = H.stats.get('post_scan_compared', 0) + 1
        st0 = st1
        c_toks = w.ser_content(st1)
        use_toks = usable_toks(H, st1)
        base_toks = w.ser_base()
    cb1 = w.arr.content_bytes()
    r = w.run('sync', *(list(opts) + extra + list(real_opts))); H.ncmd += 1
    if fs_after:
        fs_toks = w.ser_fs()          # the data disks as the sync loop found them (changed after the scan by --test-run)
        base_toks = w.ser_base()
    st2 = w.content()
    if st2 is None:
        return r
    w.learn_hashes(st2)
    now = max([i['time'] for i in st2['info'] if i] + [0])
    m = model_sync(H, st0, lst_toks, fs_toks, base_toks, use_toks, c_toks, opts, now, nocopy=nocopy, prehash=prehash)
    if m is None:
        return False
    H.nmodel += 1
    if m['aborted']:
        note('drift_abort', 'the scan model reaches an os_abort path of scan.c, the real sync exits %d' % r.rc, request=m['request'][:6000])
        return r
    real2 = forget_unusable_inodes(H, st0, real_parsed(w, st2))
    if w.arr.content_bytes() == cb1:
        real2 = as_loaded(real2)
        H.stats['not_saved_runs'] = H.stats.get('not_saved_runs', 0) + 1
    d = first_diff(forget_unusable_inodes(H, st0, m['final']), real2, w.names)
    if d:
        note('drift_sync', 'content after `sync %s` predicted by scan model + sync loop model differs from the real one: %s' % (' '.join(list(opts) + extra), d),
             model=m['final'], real=real_parsed(w, st2), request=m['request'][:8000])
    elif bool(m['fails']) != (r.rc != 0):
        note('drift_status', 'the model predicts a %s sync (errors hash %d/%d/%d loop %d/%d/%d), the real one exits %d'
             % ('failing' if m['fails'] else 'successful', m['herr'], m['hsilent'], m['hio'], m['err'], m['silent'], m['io'], r.rc), request=m['request'][:8000])
    H.last_model = m
    return r
