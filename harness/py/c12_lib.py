"""Shared machinery of check_C12 / check_C14: observation of one real command (shim write-set log + independent
byte/mtime/inode snapshot of the whole array directory), mapping of both to effect classes, the independent
precondition summary (what the command will find: scan counters, parity sizes, configuration vs content, lock) and
the bridge to the extracted Coq model coq/Cmd/CmdModel.v (ocaml/C12/driver.ml)."""
import os, sys, stat, re, fcntl, shutil, itertools
from common import *
from arraylib import *
import content as cparse

READONLY = ('status', 'diff', 'list', 'dup', 'check', 'devices')
CMD_TOKEN = {'status': 'Status', 'diff': 'Diff', 'list': 'List', 'dup': 'Dup', 'check': 'Check', 'devices': 'Devices',
             'scrub': 'Scrub', 'sync': 'Sync', 'fix': 'Fix', 'pool': 'Pool', 'touch': 'Touch'}


# ------------------------------------------------------------------------------------------------ snapshots

def full_snapshot(arr):
    """every object under the array root: path -> tuple.  Files: ('f', bytes, mtime_ns, ino, nlink, mode);
    symlinks ('l', target, mtime_ns); directories ('d', mode) and, inside the data disks (the disk directory included),
    ('d', mode, mtime_ns): an entry created or removed there changes it.  Other directory mtimes are not compared (creating
    the lock / log / .tmp entries legitimately changes them)."""
    snap = {}
    droots = [os.path.join(arr.root, d) for d in arr.disks]
    for dr in droots:
        if os.path.isdir(dr):
            st = os.lstat(dr)
            snap[dr] = ('d', stat.S_IMODE(st.st_mode), st.st_mtime_ns)
    for root, dirs, files in os.walk(arr.root):
        for n in dirs + files:
            p = os.path.join(root, n)
            st = os.lstat(p)
            if stat.S_ISLNK(st.st_mode):
                snap[p] = ('l', os.readlink(p), st.st_mtime_ns)
            elif stat.S_ISDIR(st.st_mode):
                if any(p.startswith(dr + '/') for dr in droots):
                    snap[p] = ('d', stat.S_IMODE(st.st_mode), st.st_mtime_ns)
                else:
                    snap[p] = ('d', stat.S_IMODE(st.st_mode))
            elif stat.S_ISREG(st.st_mode):
                with open(p, 'rb') as f:
                    snap[p] = ('f', f.read(), st.st_mtime_ns, st.st_ino, st.st_nlink, stat.S_IMODE(st.st_mode))
            else:
                snap[p] = ('o', st.st_mode)
    return snap


class Paths:
    """classification of absolute paths of one array"""

    def __init__(self, arr):
        self.arr = arr
        self.root = arr.root
        self.disk_dirs = [(i, d, os.path.join(arr.root, d) + '/') for i, d in enumerate(arr.disks)]
        self.parity = {f: l for l, fs in enumerate(arr.parity_files) for f in fs}
        self.content = {}
        for i, c in enumerate(arr.content_files):
            self.content[c] = i
            self.content[c + '.tmp'] = i
        self.lock = arr.content_files[0] + '.lock'
        self.pool = os.path.join(arr.root, 'pool') + '/'
        self.ids = {}       # (disk idx, rel) -> id
        self.rev = {}

    def pid(self, d, rel):
        k = (d, rel)
        if k not in self.ids:
            self.ids[k] = len(self.ids) + 1
            self.rev[self.ids[k]] = k
        return self.ids[k]

    def classify(self, p):
        """-> ('data', diskidx, rel) | ('parity', level) | ('content', i) | ('lock',) | ('log',) | ('pool', rel) |
        ('shimlog',) | ('conf',) | ('other', p)"""
        if p == self.lock:
            return ('lock',)
        if p in self.parity:
            return ('parity', self.parity[p])
        if p in self.content:
            return ('content', self.content[p])
        for i, d, base in self.disk_dirs:
            if p.startswith(base):
                return ('data', i, p[len(base):])
            if p + '/' == base:
                return ('dataroot', i)
        if p.startswith(self.pool):
            return ('pool', p[len(self.pool):])
        if p + '/' == self.pool:
            return ('poolroot',)
        b = os.path.basename(p)
        if os.path.dirname(p) == self.root:
            if re.match(r'log\d+\.txt$', b):
                return ('log',)
            if b.startswith('shim') and b.endswith('.log'):
                return ('shimlog',)
            if b == 'snapraid.conf':
                return ('conf',)
        if os.path.dirname(p) in [os.path.dirname(c) for c in self.arr.content_files] or p in [os.path.dirname(c) for c in self.arr.content_files]:
            return ('contentdir', p)
        return ('other', p)


def snapshot_diff(paths, before, after):
    """-> list of (class tuple, what) for every object that differs; parity files: absent == empty (DESIGN C14 note)"""
    out = []
    for p in sorted(set(before) | set(after)):
        b, a = before.get(p), after.get(p)
        cl = paths.classify(p)
        if cl[0] == 'shimlog':
            continue
        if cl[0] == 'parity':
            bb = b[1] if b else b''
            aa = a[1] if a else b''
            if bb != aa:
                out.append((cl, 'bytes', bb, aa))
            # the directory entry itself: sync and fix (levels it may write) create a missing parity file before anything else
            # (parity_create, O_CREAT); every other appearance or disappearance of a parity file is a change of its own
            if (b is None) != (a is None):
                out.append((cl, 'created-file' if b is None else 'removed-file', p, len(aa)))
            continue
        if b == a:
            continue
        if b is None:
            out.append((cl, 'created', None, a))
        elif a is None:
            out.append((cl, 'removed', b, None))
        elif b[0] != a[0]:
            out.append((cl, 'type', b, a))
        elif b[0] == 'f':
            what = []
            if b[1] != a[1]:
                what.append('bytes')
            if b[2] != a[2]:
                what.append('mtime')
            if b[3] != a[3]:
                what.append('inode')
            if b[4] != a[4]:
                what.append('nlink')
            if b[5] != a[5]:
                what.append('mode')
            out.append((cl, '+'.join(what), b, a))
        elif b[0] == 'd' and b[1] == a[1]:
            out.append((cl, 'dirmtime', b, a))      # only the time of a data directory: an entry was made or removed in it
        else:
            out.append((cl, 'changed', b, a))
    return out


# ------------------------------------------------------------------------------------------------ shim log

SHIM_RE = re.compile(r'^(\d+) (\w+) (\S+) (.*) = (-?\d+)$')
KIND = {'pwrite': 'write', 'write': 'write', 'ftruncate': 'truncate', 'ftruncate64': 'truncate', 'truncate': 'truncate',
        'fallocate': 'truncate', 'fallocate64': 'truncate', 'posix_fallocate': 'truncate',
        'futimens': 'utime', 'utimensat': 'utime', 'unlink': 'unlink', 'remove': 'unlink', 'rmdir': 'unlink',
        'mkdir': 'mkdir', 'link': 'link', 'symlink': 'symlink', 'rename': 'rename'}


def parse_shim(text):
    recs = []
    for ln in text.split('\n'):
        m = SHIM_RE.match(ln)
        if not m:
            continue
        n, call, path, extra, ret = int(m.group(1)), m.group(2), m.group(3), m.group(4), int(m.group(5))
        recs.append({'n': n, 'call': call, 'path': path, 'extra': extra, 'ret': ret})
    return recs


def shim_effects(paths, recs, before):
    """state-changing calls that SUCCEEDED -> list of (class tuple, kind, rec).  An open with O_CREAT of an existing
    path without O_TRUNC changes nothing; fsync changes nothing; an ftruncate / fallocate that leaves the size as it is
    changes nothing (file sizes are tracked from the before-snapshot through the log)."""
    eff = []
    size = {}

    def cur(p):
        if p not in size:
            b = before.get(p)
            size[p] = len(b[1]) if (b and b[0] == 'f') else 0
        return size[p]
    import re as _re
    for r in recs:
        c, p = r['call'], r['path']
        if 'INJECTED-ERROR' in r['extra'] or 'KILL' in r['extra']:
            continue
        if c in ('fsync', 'fdatasync'):
            continue
        if c == 'open':
            if r['ret'] < 0:
                continue
            fl = r['extra'].replace('flags=', '')
            kinds = []
            if 'C' in fl and p not in before and not any(e[2]['path'] == p and e[1] in ('create', 'rename') for e in eff):
                kinds.append('create')
            if 'T' in fl:
                kinds.append('truncate' if (p in before or 'create' not in kinds) else 'create')
                if cur(p) == 0 and p in before and 'create' not in kinds and paths.classify(p)[0] != 'lock':
                    kinds.remove('truncate')          # truncating an empty file
                size[p] = 0
            for k in dict.fromkeys(kinds):
                if k == 'create' and p in paths.parity:
                    continue         # absent parity file == empty parity file (parity_create opens with O_CREAT)
                eff.append((paths.classify(p), k, r))
            continue
        if c in ('pwrite', 'write'):
            if r['ret'] <= 0:
                continue
            m = _re.search(r'off=(\d+)', r['extra'])
            end = (int(m.group(1)) if m else cur(p)) + r['ret']
            if end > cur(p):
                size[p] = end
        elif r['ret'] != 0:
            continue
        if c in ('ftruncate', 'ftruncate64', 'truncate'):
            m = _re.search(r'len=(-?\d+)', r['extra'])
            n = int(m.group(1)) if m else -1
            if n == cur(p):
                continue
            size[p] = n
        if c in ('fallocate', 'fallocate64', 'posix_fallocate'):
            m = _re.search(r'off=(-?\d+) len=(-?\d+)', r['extra'])
            end = int(m.group(1)) + int(m.group(2)) if m else -1
            if end <= cur(p):
                continue
            size[p] = end
        k = KIND.get(c, c)
        eff.append((paths.classify(p), k, r))
        if c == 'rename':
            src = r['extra'].strip()
            eff.append((paths.classify(src), 'rename-from', r))
            if src in size:
                size[p] = size.pop(src)
            else:
                size[p] = cur(src)
                size.pop(src, None)
        if c in ('unlink', 'remove'):
            size[p] = 0
    return eff


def effect_class(cl, kind, rec=None, bs=1024):
    """class tuple + kind -> the model's effect constructor (as a comparable tuple)"""
    t = cl[0]
    if t == 'data':
        return ('WData', cl[1], cl[2], kind)
    if t == 'parity':
        if kind == 'write':
            return ('WParity', cl[1])
        return ('RszParity', cl[1])
    if t == 'content':
        return ('WContent', cl[1])
    if t == 'lock':
        return ('WLock',)
    if t == 'log':
        return ('WLog',)
    if t == 'pool':
        return ('WPool', cl[1])
    return ('WOther', cl, kind)


class Obs:
    """one observed command"""
    pass


def observe(arr, paths, cmd, opts=(), fail=None, extra_env=None, timeout=120):
    lg = os.path.join(arr.root, 'shim%d.log' % (arr.ncmd + 1))
    if os.path.exists(lg):
        os.unlink(lg)
    env = {'VSHIM_LOG': lg}
    if fail:
        env['VSHIM_FAIL'] = fail
    if extra_env:
        env.update(extra_env)
    o = Obs()
    o.cmd, o.opts, o.fail = cmd, list(opts), fail
    o.before = full_snapshot(arr)
    o.r = arr.run(cmd, *opts, shim_env=env, timeout=timeout)
    o.after = full_snapshot(arr)
    o.rc = o.r.rc
    txt = open(lg).read() if os.path.exists(lg) else ''
    o.shim_text = txt
    o.recs = parse_shim(txt)
    o.eff = shim_effects(paths, o.recs, o.before)
    o.diff = snapshot_diff(paths, o.before, o.after)
    o.shim_classes = set(effect_class(cl, k) for cl, k, r in o.eff)
    # classes from the snapshot: which objects changed at all
    sc = set()
    for cl, what, b, a in o.diff:
        if cl[0] == 'parity' and what != 'bytes':
            if what == 'created-file':
                sc.add(('RszParity', cl[1]))      # a parity file that did not exist appears (parity_create, O_CREAT)
            continue
        if cl[0] == 'parity':
            n = min(len(b), len(a))
            if b[:n] != a[:n]:
                sc.add(('WParity', cl[1]))
            if len(b) != len(a):
                sc.add(('RszParity', cl[1]))
        elif cl[0] == 'data':
            sc.add(('WData', cl[1], cl[2], what))
        elif cl[0] == 'content':
            sc.add(('WContent', cl[1]))
        elif cl[0] == 'lock':
            sc.add(('WLock',))
        elif cl[0] == 'log':
            sc.add(('WLog',))
        elif cl[0] == 'pool':
            sc.add(('WPool', cl[1]))
        else:
            sc.add(('WOther', cl, what))
    o.snap_classes = sc
    if os.path.exists(lg):
        os.unlink(lg)
    return o


def lock_path_removed(o):
    """did the command unlink / rename / replace <first content>.lock?  The lock is a flock on the INODE behind the path:
    removing or replacing the path while a holder may exist splits the lock (later commands lock a new inode).
    -> list of offending shim records (also: the snapshot shows the file gone or with another inode)"""
    bad = [r for cl, k, r in o.eff if cl[0] == 'lock' and k in ('unlink', 'rename', 'rename-from', 'link', 'symlink')]
    for cl, what, b4, af in o.diff:
        if cl[0] == 'lock' and (what == 'removed' or 'inode' in what or what == 'type'):
            bad.append({'call': 'snapshot', 'path': 'lock file', 'extra': what, 'ret': 0})
    return bad


def coarse(classes):
    """drop paths/kinds: WData -> ('WData',) etc., keep level / copy indices"""
    out = set()
    for c in classes:
        if c[0] in ('WData', 'WPool'):
            out.add((c[0],))
        elif c[0] == 'WOther':
            out.add(('WOther',))
        else:
            out.add(c)
    return out


def obs_summary(o):
    return {'cmd': [o.cmd] + o.opts, 'rc': o.rc, 'fail': o.fail, 'shim': sorted(map(str, coarse(o.shim_classes))),
            'snapshot': sorted(map(str, coarse(o.snap_classes))), 'stderr_tail': o.r.err[-300:]}


# ------------------------------------------------------------------------------------------------ precondition summary

def load_state(arr):
    """the content state the tool will load: the first copy that exists (state_read); None when there is none.
    -> (state or None, decodes?, index of the copy)"""
    for i, c in enumerate(arr.content_files):
        if os.path.exists(c):
            try:
                return cparse.parse(open(c, 'rb').read(), hash_size_default=16), True, i
            except Exception:
                return None, False, i
    return None, True, None


def conf_excludes(arr):
    """(patterns of `exclude <pattern>` lines without a slash (matched on the file name), absolute content paths)"""
    pats, contents = [], []
    for ln in open(arr.conf).read().split('\n'):
        t = ln.split()
        if len(t) >= 2 and t[0] == 'exclude' and '/' not in t[1]:
            pats.append(t[1])
        if len(t) >= 2 and t[0] == 'content':
            contents += [t[1], t[1] + '.tmp', t[1] + '.lock']
    return pats, contents


def conf_values(arr):
    bs, hs, disks = None, 16, []
    for ln in open(arr.conf).read().split('\n'):
        t = ln.split()
        if not t:
            continue
        if t[0] == 'blocksize':
            bs = int(t[1]) * 1024
        elif t[0] == 'hashsize':
            hs = int(t[1])
        elif t[0] in ('disk', 'data'):
            disks.append((t[1], t[2]))
    return bs, hs, disks


def walk_scan(base, skip=None):
    """the objects the scanner meets in one disk directory, in its order (--test-force-order-alpha: names sorted),
    as a list of ('f', rel, lstat) | ('l', rel, target) | ('d', rel) (d = directory holding no file or link)"""
    out = []

    def rec(dirp, rel):
        processed = False
        try:
            names = sorted(os.listdir(dirp))
        except OSError:
            return False
        for n in names:
            p = os.path.join(dirp, n)
            r = rel + n
            if skip and skip(p, n):
                continue          # excluded by the configuration (exclude rule, a content file kept on the data disk)
            st = os.lstat(p)
            if stat.S_ISLNK(st.st_mode):
                out.append(('l', r, os.readlink(p)))
                processed = True
            elif stat.S_ISREG(st.st_mode):
                out.append(('f', r, st))
                processed = True
            elif stat.S_ISDIR(st.st_mode):
                k = len(out)
                if rec(p, r + '/'):
                    processed = True
                else:
                    out.insert(k, ('d', r))
                    processed = True
        return processed
    rec(base, '')
    return out


def scan_summary(arr, st, conf_disks, uuid_disks=(), skip=None):
    """independent re-statement of the scan classification (scan.c scan_file / scan_link / state_diffscan).
    Disks named in uuid_disks have a valid, unchanged UUID (--test-fake-uuid): the inodes recorded in the content file are
    trusted, so MOVED files (same inode, size, time; other name) and RESTORED files (same name, size, time; other inode) are
    recognised.  For the other disks (UUID unsupported under --test-skip-device) recorded inodes are ignored.  A second name
    of an inode whose first name was recognised is a hardlink.  A new or changed file with the same name (path when its
    nanoseconds are 0/invalid), size and time as a fully hashed recorded file of ANY disk is counted as COPY, not as
    change / insert (scan.c:1036-1077).
    -> per configured disk: dict(equal, move, restore, remove, change, insert, copy, zero, kept=[file entries], need_write)"""
    res = []
    # the stamp set: fully hashed recorded files of all disks (file_is_full_hashed_and_stable)
    stamps = []
    if st:
        for dn, dd in st['disks'].items():
            for f in dd['files']:
                if f['blocks'] and all(s in ('BLK', 'REP') for s, _, _ in f['blocks']) and \
                        not any(pos < len(st['info']) and st['info'][pos] and st['info'][pos]['rehash'] for _, pos, _ in f['blocks']):
                    stamps.append((dn, f))

    def is_copy(rel, s):
        sec, nsec = s.st_mtime_ns // 10**9, s.st_mtime_ns % 10**9
        for dn, f in stamps:
            if f['size'] != s.st_size or f['sec'] != sec or f['nsec'] != nsec:
                continue
            fsub = f['sub'].decode('latin1')
            if nsec != 0:
                if os.path.basename(fsub) == os.path.basename(rel):
                    return True
            elif fsub == rel:
                return True
        return False
    for name, dirp in conf_disks:
        dd = (st['disks'].get(name) if st else None) or {'files': [], 'links': [], 'dirs': [], 'deleted': {}}
        files = {f['sub'].decode('latin1'): f for f in dd['files']}
        links = {l['sub'].decode('latin1'): l for l in dd['links']}
        dirs = set(d.decode('latin1') for d in dd['dirs'])
        trust = name in uuid_disks
        byino = {f['inode']: sub for sub, f in files.items()} if trust else {}
        c = {'equal': 0, 'equal_links': 0, 'move': 0, 'restore': 0, 'remove': 0, 'change': 0, 'insert': 0, 'copy': 0, 'zero': False, 'kept': [],
             'need_write': False, 'zero_files': [], 'new_nonempty': False}
        seen_files, seen_links, seen_dirs = set(), set(), set()
        present_inodes = {}      # inode -> recorded sub of a file recognised in this scan

        def same(f, s):
            return f['size'] == s.st_size and f['sec'] == s.st_mtime_ns // 10**9 and (f['nsec'] == s.st_mtime_ns % 10**9 or f['nsec'] == -1)

        def do_link(rel, to, hard):
            l = links.get(rel)
            seen_links.add(rel)
            if l is not None:
                if l['to'].decode('latin1') == to and bool(l['hard']) == hard:
                    c['equal'] += 1; c['equal_links'] += 1
                else:
                    c['change'] += 1; c['need_write'] = True
            else:
                c['insert'] += 1; c['need_write'] = True

        def new_or_changed(rel, s, changed):
            c['need_write'] = True
            if s.st_size > 0:
                c['new_nonempty'] = True
            if is_copy(rel, s):
                c['copy'] += 1
            elif changed:
                c['change'] += 1
            else:
                c['insert'] += 1
        for ent in walk_scan(dirp, skip):
            if ent[0] == 'l':
                do_link(ent[1], ent[2], False)
            elif ent[0] == 'd':
                seen_dirs.add(ent[1])
                if ent[1] not in dirs:
                    c['need_write'] = True
            else:
                rel, s = ent[1], ent[2]
                if s.st_ino in present_inodes:
                    f0 = files[present_inodes[s.st_ino]]
                    if f0['size'] == s.st_size and f0['sec'] == s.st_mtime_ns // 10**9:
                        do_link(rel, present_inodes[s.st_ino], True)
                        continue
                # by inode (only when the recorded inodes are trusted)
                sub0 = byino.get(s.st_ino)
                if sub0 is not None and sub0 not in seen_files and same(files[sub0], s):
                    f = files[sub0]
                    seen_files.add(sub0)
                    present_inodes[s.st_ino] = sub0
                    c['kept'].append(f)
                    if sub0 != rel:
                        c['move'] += 1; c['need_write'] = True
                        files[rel] = f                 # the record now answers to the new name
                    else:
                        c['equal'] += 1
                    if f['nsec'] == -1:
                        c['need_write'] = True
                    continue
                f = files.get(rel)
                if f is not None and rel not in seen_files:
                    seen_files.add(rel)
                    if same(f, s):
                        if trust:
                            c['restore'] += 1; c['need_write'] = True
                        else:
                            c['equal'] += 1
                        c['kept'].append(f)
                        present_inodes[s.st_ino] = rel
                        if f['nsec'] == -1:
                            c['need_write'] = True
                    else:
                        if f['size'] != 0 and s.st_size == 0:
                            c['zero'] = True
                            c['zero_files'].append(rel)
                        new_or_changed(rel, s, True)
                else:
                    new_or_changed(rel, s, False)
        for rel, f in list(files.items()):
            if f['sub'].decode('latin1') == rel and rel not in seen_files:
                c['remove'] += 1; c['need_write'] = True
        for rel in links:
            if rel not in seen_links:
                c['remove'] += 1; c['need_write'] = True
        if dirs - seen_dirs:
            c['need_write'] = True
        c['name'] = name
        res.append(c)
    return res


def used_blocks(scan):
    """parity_used_size after the scan: 1 + highest position of a BLK block of a file that was found equal"""
    u = 0
    for c in scan:
        for f in c['kept']:
            for s, pos, h in f['blocks']:
                if s == 'BLK' and pos + 1 > u:
                    u = pos + 1
    return u


def lock_is_free(arr):
    """is <first content>.lock flock'ed by some process?  Read passively from /proc/locks (taking the lock ourselves to
    test it would race with the commands under test, and with children forked by other harness threads)."""
    p = arr.content_files[0] + '.lock'
    try:
        st = os.stat(p)
    except FileNotFoundError:
        return True
    key = '%02x:%02x:%d' % (os.major(st.st_dev), os.minor(st.st_dev), st.st_ino)
    try:
        for ln in open('/proc/locks'):
            t = ln.split()
            if len(t) >= 6 and t[1] == 'FLOCK' and t[5] == key:
                return False
    except OSError:
        pass
    return True


def hold_lock(arr):
    """take the lock exactly as the tool does (util.c lock_lock: open O_CREAT|O_TRUNC|O_WRONLY 0600, flock LOCK_EX|LOCK_NB) in a
    helper process; returns the process (terminate it to release the lock)"""
    import subprocess
    code = ("import os,fcntl,sys\n"
            "fd=os.open(sys.argv[1], os.O_CREAT|os.O_TRUNC|os.O_WRONLY, 0o600)\n"
            "fcntl.flock(fd, fcntl.LOCK_EX|fcntl.LOCK_NB)\n"
            "print('held', flush=True)\n"
            "sys.stdin.read()\n")
    pr = subprocess.Popen([sys.executable, '-c', code, arr.content_files[0] + '.lock'], stdin=subprocess.PIPE, stdout=subprocess.PIPE)
    if pr.stdout.readline().strip() != b'held':
        pr.kill()
        raise RuntimeError('could not take the lock')
    return pr


def release_lock(pr):
    try:
        pr.stdin.close()
    except Exception:
        pass
    pr.wait(timeout=10)


class Pre:
    """the precondition summary; fields None = not determined by the harness (the comparison then enumerates them)"""

    def __init__(self):
        self.d = {}
        self.unknown = []


def presummary(arr, paths, cmd, opts):
    """compute what the command will find, with code independent of the tool.  Returns dict of model fields; entries
    listed in d['_unknown'] are enumerated by the comparison."""
    bs, hs, conf_disks = conf_values(arr)
    st, ok, idx = load_state(arr)
    d = {'conf_ok': True, 'lock_free': lock_is_free(arr), 'ncontent': len(arr.content_files), 'level': arr.np,
         'content_found': idx is not None, 'content_ok': ok}
    unknown = []
    present = [os.path.exists(c) for c in arr.content_files]
    sizes = set(os.path.getsize(c) for c in arr.content_files if os.path.exists(c))
    d['read_need_write'] = (idx is not None) and (not all(present) or len(sizes) > 1)
    d['_rnw_base'] = d['read_need_write']
    d['bs_mismatch'] = bool(st) and st['blocksize'] != bs
    d['hs_mismatch'] = bool(st) and st['hashsize'] != hs
    cnames = [n for n, _ in conf_disks]
    # UUIDs: none under --test-skip-device, except with --test-fake-uuid (first two configured data disks, by position), and never
    # for the commands that do not access the data disks (status, list, dup)
    fakemode = ('--test-fake-uuid' in opts or getattr(arr, 'fake_uuid', False)) and cmd not in ('status', 'list', 'dup')
    cur_uuid = {n: (('fake-uuid-%d' % (2 - i)).encode() if (fakemode and i < 2) else b'') for i, (n, _) in enumerate(conf_disks)}
    renamed = {}
    unk_disk = False
    for m in (st['maps'] if st else []):
        if m['name'] in cnames:
            continue
        if '--test-match-first-uuid' in opts and conf_disks:
            renamed[m['name']] = conf_disks[0][0]
            continue
        cands = [n for n, u in cur_uuid.items() if u and u == m['uuid']]
        if m['uuid'] and len(cands) == 1:
            renamed[m['name']] = cands[0]          # state.c:2593-2601: renamed by UUID
        else:
            unk_disk = True
    d['unknown_disk'] = bool(st) and unk_disk
    d['_renamed'] = renamed
    # state_map: a supported current UUID that differs from a recorded non-empty one is a UUID change
    nchg = 0
    for m in (st['maps'] if st else []):
        n = renamed.get(m['name'], m['name'])
        if n in cur_uuid and cur_uuid[n] and m['uuid'] and cur_uuid[n] != m['uuid'] and cmd not in ('status', 'list', 'dup'):
            nchg += 1
    d['uuid_changes'] = nchg
    if st and (renamed or any(cur_uuid.get(renamed.get(m['name'], m['name'])) and cur_uuid[renamed.get(m['name'], m['name'])] != m['uuid'] for m in st['maps'])):
        d['read_need_write'] = True
    loaded = st if (st and not d['bs_mismatch'] and not d['hs_mismatch'] and not d['unknown_disk'] and not (nchg > arr.np and '-U' not in opts and '--force-uuid' not in opts)) else None
    # --test-fake-uuid gives the first two configured data disks a valid UUID; it is trusted when the content file records the same
    uuid_disks = ()
    if loaded and renamed:
        loaded = dict(loaded)
        loaded['disks'] = {renamed.get(k, k): v for k, v in loaded['disks'].items()}
    if fakemode and loaded:
        uuid_disks = tuple(renamed.get(m['name'], m['name']) for m in loaded['maps']
                           if m['uuid'] and cur_uuid.get(renamed.get(m['name'], m['name'])) == m['uuid'])
    import fnmatch as _fn
    pats, cpaths = conf_excludes(arr)
    skip = (lambda p, n: p in cpaths or any(_fn.fnmatchcase(n, pt) for pt in pats)) if (pats or cpaths) else None
    scan = scan_summary(arr, loaded, conf_disks, uuid_disks, skip)
    d['_scan'] = scan
    d['disks'] = [(c['equal'], c['move'], c['restore'], c['remove'], c['change'], c['equal_links'], c['insert'], c['copy'], c['zero']) for c in scan]
    d['scan_need_write'] = any(c['need_write'] for c in scan)
    # -R converts every BLK block to REP while loading (state.c:2037): nothing counts as used any more
    d['used'] = 0 if ('-R' in opts or '--force-realloc' in opts) else used_blocks(scan)
    pend = any(c['remove'] or c['change'] or c['insert'] or c['copy'] or c['move'] or c['restore'] for c in scan)
    allblk = bool(loaded) and all(s == 'BLK' for dd in loaded['disks'].values() for f in dd['files'] for s, _, _ in f['blocks']) \
        and not any(dd['deleted'] for dd in loaded['disks'].values())
    cur_blockmax = loaded['blockmax'] if loaded else 0
    psz = [sum(os.path.getsize(f) for f in fs if os.path.exists(f)) for fs in arr.parity_files]
    # parity_valid_size (parity.c, fix 03a455c): per level, the splits in order with the size recorded in the content file ('Q'
    # record; None for a 'P' record: parity_create then takes the file's size) and the size of the file; the sum stops at the
    # first split whose file is shorter than its size
    splits = []
    for l in range(arr.np):
        lv = (loaded or {}).get('levels', {}).get(l)
        sp = lv['splits'] if lv else []
        cur = []
        for k, f in enumerate(arr.parity_files[l]):
            rec = sp[k]['size'] if (k < len(sp) and sp[k]['size'] is not None and len(sp) == len(arr.parity_files[l])) else None
            cur.append((rec, os.path.getsize(f) if os.path.exists(f) else 0))
        splits.append(cur)
    d['parity_splits'] = splits
    d['parity_absent'] = [not all(os.path.exists(f) for f in fs) for fs in arr.parity_files]

    def valid(cur):
        tot = 0
        for rec, disk in cur:
            size = disk if rec is None else rec
            if disk < size:
                return tot + disk
            tot += size
        return tot
    d['parity_blocks'] = [valid(cur) // bs for cur in splits]
    # parity.c:228-236 / 712-720: with no recorded split size ('P' record) a size that is not a multiple of the block
    # size makes parity_create / parity_open fail
    norec = not loaded or all(any(x['size'] is None for x in lv['splits']) for lv in loaded['levels'].values())
    d['parity_access'] = [not (norec and s % bs) for s in psz]
    d['parity_open'] = [all(os.path.exists(f) for f in fs) and not (norec and s % bs) for fs, s in zip(arr.parity_files, psz)]
    # blockmax after the scan: exact when nothing is pending, else bounded (enough for the -S test used by the scenarios)
    # an upper bound of the allocated size after the scan, for the `-S beyond the end` test
    nblk = 0
    for _, dirp in conf_disks:
        for root, _, fs in os.walk(dirp):
            for n in fs:
                try:
                    nblk += (os.lstat(os.path.join(root, n)).st_size + bs - 1) // bs
                except OSError:
                    pass
    d['_blockmax_guess'] = cur_blockmax + nblk
    d['blockmax'] = cur_blockmax if not pend else None
    if d['blockmax'] is None:
        unknown.append('blockmax')
    if not pend:
        d['parity_resize'] = [s != cur_blockmax * bs for s in psz]
    else:
        d['parity_resize'] = None
        unknown.append('parity_resize')
    # parity_chsize's is_modified: resulting size vs the size recorded in the content file; single-file parity is
    # recorded with a 'P' record that carries no size, so it always counts as modified
    recsz = []
    for l in range(arr.np):
        lv = (loaded or {}).get('levels', {}).get(l)
        sp = lv['splits'] if lv else []
        recsz.append(None if (not sp or any(x['size'] is None for x in sp)) else sum(x['size'] for x in sp))
    if all(r is None for r in recsz):
        d['parity_modified'] = [True] * arr.np
    elif not pend:
        d['parity_modified'] = [r is None or r != cur_blockmax * bs for r in recsz]
    else:
        d['parity_modified'] = None
        unknown.append('parity_modified')
    ffull = '-F' in opts or '-R' in opts
    anydata = any(f['size'] > 0 for c in scan for f in c['kept']) or any(c['new_nonempty'] for c in scan)
    if not pend and allblk and not ffull:
        d['sync_work'] = False
    elif any(c['new_nonempty'] for c in scan) and not any(c['remove'] or c['change'] for c in scan) and '-S' not in opts and '-B' not in opts:
        d['sync_work'] = True          # pure additions of fresh data: parity must be written
    elif ffull and anydata and '-S' not in opts and '-B' not in opts:
        d['sync_work'] = True
    else:
        d['sync_work'] = None
        unknown.append('sync_work')
    d['array_empty'] = not (loaded and any(i for i in loaded['info']))
    d['diff'] = pend
    d['pool_conf'] = os.path.isdir(os.path.join(arr.root, 'pool'))
    d['_state'] = loaded
    d['_unknown'] = unknown
    d['_bs'] = bs
    return d


# ------------------------------------------------------------------------------------------------ model bridge

def b(x):
    return '1' if x else '0'


def opts_tokens(arr, opts, log=True):
    o = list(opts)

    def has(*names):
        return any(n in o for n in names)

    def val(name, default=0):
        return int(o[o.index(name) + 1]) if name in o else default
    fd = [o[i + 1] for i, x in enumerate(o) if x == '-d']
    fpar = []
    for l in range(arr.np):
        fpar.append(LEVNAME[l] in fd)
    return ['O', b(log), b(has('-Z', '--force-zero')), b(has('-E', '--force-empty')), b(has('-F', '--force-full')),
            b(has('-R', '--force-realloc')), b(has('-U', '--force-uuid')), b(has('-a', '--audit-only')), b(has('-h', '--pre-hash')),
            b(has('--test-kill-after-sync')), b(has('--test-force-content-write')), b(has('--test-skip-content-write')),
            b(has('--test-skip-lock')), str(val('-S')), str(val('-B')), b(bool(fd)), ''.join(map(b, fpar)) or '-',
            b(has('-f')), b(has('-m')), b(has('-e', '-b')),
            b(has('-o') and has('-p') and o[o.index('-p') + 1] in ('bad', 'new', 'full'))]


def pre_tokens(d, arr):
    """serialise one COMPLETE summary (no None) for the driver"""
    t = ['P', b(d['conf_ok']), b(d['lock_free']), str(d['ncontent']), str(d['level']), b(d['content_found']), b(d['content_ok']),
         b(d['read_need_write']), b(d['bs_mismatch']), b(d['hs_mismatch']), b(d['unknown_disk']), str(d['uuid_changes'])]
    t += ['D', str(len(d['disks']))]
    for e, m, r, rm, ch, el, ins, cp, z in d['disks']:
        t += [str(e), str(m), str(r), str(rm), str(ch), str(el), str(ins), str(cp), b(z)]
    t += [b(d['scan_need_write']), str(d['blockmax']), str(d['used'])]
    t += [''.join(map(b, d['parity_access'])) or '-', ''.join(map(b, d['parity_open'])) or '-', ';'.join(','.join('%s:%d' % ('-' if r is None else r, k) for r, k in cur) for cur in d['parity_splits']) or '-', str(d['_bs']),
          ''.join(map(b, d['parity_absent'])) or '-', ''.join(map(b, d['parity_resize'])) or '-', ''.join(map(b, d['parity_modified'])) or '-']
    t += [b(d.get('prehash_fail', False)), b(d['sync_work']), b(d.get('sync_errors', False)), b(d['array_empty']),
          str(d.get('scrub_stripes', 0)), b(d.get('scrub_errors', False)), b(d.get('check_errors', False)), b(d['diff'])]
    items = d.get('fix_items', [])
    t += ['I', str(len(items))]
    for it in items:
        # disk path kind selected missing unrec larger state partial nanc anc...
        t += [str(it['disk']), str(it['path']), it['kind'], b(it['selected']), b(it['missing']), b(it.get('unrec', False)),
              b(it.get('larger', False)), it['state'], b(it.get('partial', False)), b(it.get('unsynced', False)), b(it.get('finished', True)), str(len(it.get('anc', [])))] + [str(a) for a in it.get('anc', [])]
    fp = d.get('fix_parity', [])
    t += ['F', str(len(fp))] + ['%d:%d' % x for x in fp]
    t += [''.join(map(b, d.get('fix_resize', [False] * d['level']))) or '-']
    tl = d.get('touch', [])
    t += ['T', str(len(tl))] + ['%d:%d' % x for x in tl]
    pc = d.get('pool_changes', [])
    t += [b(d['pool_conf']), 'L', str(len(pc))] + [str(x) for x in pc]
    return t


def completions(d):
    """all the ways to fill the summary fields the harness could not determine"""
    unk = list(d.get('_unknown', []))
    np_ = d['level']
    spaces = []
    for u in unk:
        if u == 'sync_work':
            spaces.append([('sync_work', False), ('sync_work', True)])
        elif u in ('parity_resize', 'parity_modified'):
            spaces.append([(u, list(c)) for c in itertools.product([False, True], repeat=np_)])
        elif u == 'blockmax':
            spaces.append([('blockmax', d.get('_blockmax_guess', 10 ** 6))])
        elif u == 'scrub_stripes':
            spaces.append([('scrub_stripes', 0), ('scrub_stripes', 1)])
        elif u == 'read_need_write':
            spaces.append([('read_need_write', False), ('read_need_write', True)])
        else:
            raise KeyError(u)
    for combo in itertools.product(*spaces):
        dd = dict(d)
        for k, v in combo:
            dd[k] = v
        yield dd


def parse_model_line(line):
    """'ok <exit> E <effects...> R <reports...>' -> (exit, set of effect tuples, list of reports)"""
    t = line.split()
    if not t or t[0] != 'ok':
        return None
    ex = t[1]
    i = t.index('E')
    j = t.index('R')
    k = t.index('T') if 'T' in t[j:] else len(t)
    effs = set()
    for x in t[i + 1:j]:
        p = x.split(':')
        if p[0] == 'WData':
            effs.add(('WData', int(p[1]), int(p[2]), p[3]))
        elif p[0] in ('WParity',):
            effs.add(('WParity', int(p[1])))
        elif p[0] in ('RszParity', 'WContent'):
            effs.add((p[0], int(p[1])))
        elif p[0] == 'WPool':
            effs.add(('WPool', int(p[1])))
        else:
            effs.add((p[0],))
    reps = [tuple(x.split(':')) for x in t[j + 1:k]]
    return ex, effs, reps


def model_requests(arr, cmd, opts, d):
    return [' '.join(['run', CMD_TOKEN[cmd]] + opts_tokens(arr, opts) + pre_tokens(dd, arr)) for dd in completions(d)]


def model_classes(effs):
    """model effect tuples -> coarse classes comparable with coarse(observed)"""
    out = set()
    for e in effs:
        if e[0] in ('WData', 'WPool'):
            out.add((e[0],))
        else:
            out.add(e)
    return out


def observed_coarse(o):
    """union of what the shim and the snapshot saw, coarse, without the log (WLog is derived from -l)"""
    c = coarse(o.shim_classes) | coarse(o.snap_classes)
    return c


# ------------------------------------------------------------------------------------------------ standard arrays

def populate(arr, rng, big=False):
    """a small varied tree on every disk: files at block-boundary sizes, a sub directory, an empty file, a symlink,
    an empty directory.  mtimes are distinct (no copy detection) and have non-zero nanoseconds."""
    t0 = 1700000000
    k = 0
    for di, d in enumerate(arr.disks):
        sizes = [3000, 1024, 1, 2048 + di * 1024, 0, 5000] if not big else [3000, 1024, 1, 2048, 0, 5000, 7000, 1500]
        names = ['a', 'dir/b', 'c', 'dir/sub/d', 'e0', 'f', 'g', 'h']
        for n, s in zip(names, sizes):
            k += 1
            arr.write(d, n + str(di), rng.randbytes(s), mtime_ns=(t0 + k * 7) * 10**9 + 1000 + k)
        os.symlink('a%d' % di, arr.path(d, 'ln%d' % di))
        os.makedirs(arr.path(d, 'emptydir%d' % di), exist_ok=True)
