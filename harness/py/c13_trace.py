"""C13: conversion of the event trace written by the io.c hook (verif_io_event) into the labels of the Coq
ring model (coq/Ring/RingModel.v), one replay line per ring session (io_start .. io_stop)."""


class TraceError(Exception):
    pass


def parse_sessions(text):
    """split a trace file into sessions; each session = dict(n, bmax, R, W, poss, events[(actor, kind, slot, pos)])"""
    sessions = []
    cur = None
    for ln, line in enumerate(text.split('\n')):
        if not line:
            continue
        f = line.split(' ')
        if len(f) != 4:
            raise TraceError('malformed trace line %d: %r' % (ln + 1, line))
        actor, kind = f[0], f[1]
        try:
            slot, pos = int(f[2]), int(f[3])
        except ValueError:
            raise TraceError('malformed trace line %d: %r' % (ln + 1, line))
        if actor == 'C' and kind == 'start':
            cur = {'n': slot, 'bmax': pos, 'R': None, 'W': None, 'poss': [], 'events': []}
            sessions.append(cur)
            continue
        if cur is None:
            raise TraceError('event before start at line %d: %r' % (ln + 1, line))
        if actor == 'C' and kind == 'workers':
            cur['R'], cur['W'] = slot, pos
        elif actor == 'C' and kind == 'enabled':
            cur['poss'].append(pos)
        else:
            cur['events'].append((actor, kind, slot, pos))
    return sessions


def to_labels(s):
    """events of one session -> list of 'label:slot:pos' words for ocaml/C13/model.
    begin events carry no transition (the model makes a task Running at the take); they are checked here
    against the preceding take of the same worker.  A CBail label is inserted before `stop` when the last
    io_read_next returned a position below block_max (the caller left its loop early)."""
    out = []
    rng = (0, 0)
    last_next = None          # position returned by the last read_next
    last_take = {}
    for actor, kind, slot, pos in s['events']:
        if actor == 'C':
            if kind == 'read_next':
                out.append('CN:%d:%d' % (slot, pos))
                last_next = pos
            elif kind == 'range':
                rng = (slot, pos)
            elif kind == 'read_wait':
                out.append('CQ%d,%d:%d:0' % (rng[0], rng[1], slot))
            elif kind == 'write_wait':
                out.append('CO:%d:0' % slot)
            elif kind in ('write_next', 'write_skip'):
                out.append('CW%d:%d:%d' % (1 if kind == 'write_skip' else 0, slot, pos))
            elif kind == 'stop':
                if last_next is None or last_next < s['bmax']:
                    out.append('CB:0:0')
                out.append('CS:0:0')
            elif kind == 'join':
                out.append('CJ:0:0')
            else:
                raise TraceError('unknown caller event %s' % kind)
        else:
            side, w = actor[0], int(actor[1:])
            if side not in 'RW':
                raise TraceError('unknown actor %s' % actor)
            if kind == 'collected':
                if side == 'R':
                    out.append('CR%d,%d,%d:%d:%d' % (rng[0], rng[1], w, slot, pos))
                else:
                    out.append('CP%d:%d:0' % (w, slot))
            elif kind == 'take':
                out.append('%sT%d:%d:%d' % (side, w, slot, pos))
                last_take[actor] = (slot, pos)
            elif kind == 'begin':
                exp = last_take.get(actor, (0, s['poss'][0] if s['poss'] else s['bmax']) if side == 'R' else None)
                if exp is None or (slot, pos) != exp:
                    # the first reader task is at slot 0 with the first scheduled position
                    raise TraceError('%s begins task (slot %d, position %d) but its last take was %s' % (actor, slot, pos, exp))
            elif kind == 'end':
                out.append('%sE%d:%d:0' % (side, w, slot))
            elif kind == 'wait':
                out.append('%sW%d:%d:0' % (side, w, slot))
            elif kind == 'exit':
                out.append('%sX%d:%d:0' % (side, w, slot))
            else:
                raise TraceError('unknown worker event %s' % kind)
    return out


MAX_EVENTS = 400000


def replay_line(s):
    if len(s['events']) > MAX_EVENTS:     # a livelock: the prefix is enough to be rejected (the replay cannot end final)
        s = dict(s, events=s['events'][:MAX_EVENTS])
    return 'replay %d %d %d %d ; %s ; %s' % (s['n'], s['R'], s['W'], s['bmax'], ' '.join(map(str, s['poss'])), ' '.join(to_labels(s)))
