"""Independent statement of property C15 (written from the property text and the manual, not from the model):
which stripes a scrub plan selects, which bounds a percentage plan obeys, and what honest book-keeping writes.
An info word w: 0 = unused position; time = w & ~7; bad = w & 1; rehash = w & 2; justsynced = w & 4."""
DAY = 86400


def T(w):
    return w & ~7


def ceil_div(a, b):
    return -((-a) // b)


def valid_args(parg, older):
    """None if the command line is acceptable, else the reason it must be refused"""
    if isinstance(parg, str) and parg not in ('bad', 'new', 'full'):
        if not parg.isdigit():
            return 'invalid percentage'
        parg = int(parg)
    if isinstance(parg, int) and not (0 <= parg <= 100):
        return 'invalid percentage'
    if older is not None:
        if isinstance(older, str):
            if not older.isdigit():
                return 'invalid days'
            older = int(older)
        if not (0 <= older <= 1000):
            return 'invalid days'
        if parg in ('bad', 'new', 'full'):
            return 'older-than only with a percentage'
    return None


def quota_and_recent(n, parg, older, now, test):
    if test and test[0] == 'at':
        return test[1], now
    q = ceil_div(n * parg, 100) if isinstance(parg, int) else ceil_div(n, 12)
    days = older if older is not None else 10
    return q, now - days * DAY


def expected_selection(ws, parg, older, now, test):
    n = len(ws)
    used = [k for k in range(n) if ws[k]]
    bad = set(k for k in used if ws[k] & 1)
    if valid_args(parg, older) is not None or not used:
        return {'selected': set(), 'limits': None, 'refused': True}
    if isinstance(parg, str) and parg.isdigit():
        parg = int(parg)
    if isinstance(older, str):
        older = int(older)
    if test and test[0] == 'even':
        return {'selected': bad | set(k for k in used if k % 2 == 0), 'limits': None}
    if parg == 'full':
        return {'selected': set(used), 'limits': None}
    if parg == 'new':
        return {'selected': bad | set(k for k in used if ws[k] & 4), 'limits': None}
    if parg == 'bad':
        return {'selected': bad, 'limits': None}
    quota, recent = quota_and_recent(n, parg, older, now, test)
    # the oldest `quota` check times of the array, none younger than the age limit
    times = sorted(T(ws[k]) for k in used)
    cand = [t for t in times[:max(0, quota)] if t <= recent]
    if not cand:
        return {'selected': bad, 'limits': {'count_limit': 0, 'time_limit': 0, 'last_limit': 0}}
    tl = cand[-1]
    ll = sum(1 for t in cand if t == tl)
    sel = set(bad)
    sel |= set(k for k in used if k not in bad and T(ws[k]) < tl)
    ties = [k for k in used if k not in bad and T(ws[k]) == tl]      # position order
    sel |= set(ties[:ll])
    return {'selected': sel, 'limits': {'count_limit': len(cand), 'time_limit': tl, 'last_limit': ll}}


def plan_properties(ws, parg, older, now, test, observed, tags):
    """the clauses of the property, each checked directly on the observed set of processed stripes"""
    msgs = []
    n = len(ws)
    used = set(k for k in range(n) if ws[k])
    bad = set(k for k in used if ws[k] & 1)
    if valid_args(parg, older) is not None or not used:
        if observed:
            msgs.append('a refused command processed stripes %s' % sorted(observed))
        return msgs
    if isinstance(parg, str) and parg.isdigit():
        parg = int(parg)
    if isinstance(older, str):
        older = int(older)
    if not bad <= observed:
        msgs.append('bad stripes %s not scrubbed' % sorted(bad - observed))
    if observed - used:
        msgs.append('unused positions %s scrubbed' % sorted(observed - used))
    if test and test[0] == 'even':
        return msgs
    if parg == 'full' and observed != used:
        msgs.append("'full' did not scrub exactly the used stripes: missing %s" % sorted(used - observed))
    if parg == 'new':
        want = bad | set(k for k in used if ws[k] & 4)
        if observed != want:
            msgs.append("'new' scrubbed %s instead of the never-scrubbed (and bad) stripes %s" % (sorted(observed), sorted(want)))
    if parg == 'bad' and observed != bad:
        msgs.append("'bad' scrubbed %s instead of the bad stripes %s" % (sorted(observed), sorted(bad)))
    if parg is None or isinstance(parg, int):
        quota, recent = quota_and_recent(n, parg, older, now, test)
        good = sorted(k for k in observed if k in used and k not in bad)
        if len(good) > quota:
            msgs.append('%d non-bad stripes scrubbed, more than the share %d of %d' % (len(good), quota, n))
        if len([k for k in observed if k in used]) > quota + len(bad):
            msgs.append('%d stripes scrubbed, more than the share %d plus the %d bad stripes' % (len(observed), quota, len(bad)))
        young = [k for k in good if T(ws[k]) > recent]
        if young:
            msgs.append('stripes %s are younger than the age limit %d' % (young, recent))
        rest = [k for k in used if k not in bad and k not in observed]
        for s in good:
            for u in rest:
                if not (T(ws[s]) < T(ws[u]) or (T(ws[s]) == T(ws[u]) and s < u)):
                    msgs.append('stripe %d (time %d) scrubbed before the older-or-equal stripe %d (time %d)' % (s, T(ws[s]), u, T(ws[u])))
                    break
            else:
                continue
            break
        if tags and 'count_limit' in tags and not (test and test[0] == 'at'):
            if tags['count_limit'] > quota:
                msgs.append('count_limit %d above the share %d' % (tags['count_limit'], quota))
            if tags['count_limit'] and tags.get('time_limit', 0) > recent:
                msgs.append('time_limit %d above the age limit %d' % (tags['time_limit'], recent))
    return msgs


def expected_word(w, now, cls):
    """honest books: verified -> time refreshed (8 s granularity, 32 bit), marks cleared; damaged -> bad set, rest kept;
    otherwise unchanged"""
    if cls == 'verified':
        return (now & 0xFFFFFFFF) & ~7
    if cls == 'damaged':
        return w | 1
    return w


# ---- reference for the per-stripe loop (imperative, mirrors the reading order of the scrub loop) --------------
def stripe_reference(lim, c0, ds, ps, info, now):
    err, sil, io = c0
    e = s = i = uns = False
    for t in ds:
        disk, blk, ts, st, heq = t[0] == '1', t[1], t[2] == '1', t[3], t[4] == '1'
        if not disk:
            continue
        file_uns = False
        if blk in 'CRD':
            uns = True
            file_uns = True
        if blk not in 'BCR':
            continue
        if ts:
            uns = True
            file_uns = True
        if st in 'EI':
            return 'bail'
        if st == 'e':
            err += 1
            e = True
            continue
        if st == 'i':
            io += 1
            if io >= lim:
                return 'bail'
            i = True
            continue
        if blk in 'BR' and not heq:
            if file_uns:
                err += 1
                e = True
            else:
                sil += 1
                s = True
    for t in ps:
        st = t[0]
        if st in 'EI':
            return 'bail'
        if st == 'e':
            err += 1
            e = True
        elif st == 'i':
            io += 1
            if io >= lim:
                return 'bail'
            i = True
    if not (e or s or i):
        for t in ps:
            if t[0] == 'D' and t[1] == '0':
                if uns:
                    err += 1
                    e = True
                else:
                    sil += 1
                    s = True
    if s or i:
        w = info | 1
    elif e:
        w = info
    else:
        w = (now & 0xFFFFFFFF) & ~7
    return 'info %d %d %d %d' % (w, err, sil, io)
