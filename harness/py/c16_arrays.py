"""C16: vendored reference arrays.

  make_all(binary)     (run ONCE, with the unmodified pinned binary /repo/snapraid) creates the tiny arrays under
                       vectors/C16/arrays/<name>.tar + <name>.json (manifest: sha256 / size / mtime_ns of every data
                       file, sha256 of every parity file, the conf template, the options used)
  replay(binary, name, workdir)  unpacks one array and runs the binary under test on it: check, status, list,
                       fix after deleting every single data disk in turn, fix after deleting `np` disks at once
                       (needs every parity level), regeneration of the deleted parity files, and -- for split
                       parity layouts -- loss / truncation of every single parity split file together with data
                       whose parity lives in the OTHER splits (the set that must come back was recorded with the
                       pinned binary at creation time: manifest key 'split_scenarios').
                       Arrays frozen in the middle of a rehash (content has the 'c' and the 'C' record, blocks
                       flagged "to rehash") go through the same repairs.
                       Returns (list of failures, number of commands run, details).

python3 harness/py/c16_arrays.py make     regenerates the vendored arrays (not done by the check)."""
import os, sys, json, tarfile, hashlib, shutil, subprocess, random, itertools, io

HERE = os.path.dirname(os.path.abspath(__file__))
VERIF = os.path.dirname(os.path.dirname(HERE))
ARR = os.path.join(VERIF, 'vectors', 'C16', 'arrays')
FLAGS = ['--test-skip-device', '--test-skip-self', '--no-warnings', '--test-force-order-alpha']
LEVELS = ['parity', '2-parity', '3-parity', '4-parity', '5-parity', '6-parity']

# name, hash option, hashsize, number of parities, z mode, data disks, split (files per parity), parity limit
LIM_B2 = 5200
LIM_B3 = 3000
SPECS = [
    dict(name='a1_murmur3_h16_p1', hash='murmur3', hashsize=16, np=1, z=False, nd=2, split=1),
    dict(name='a2_spooky2_h16_p2', hash='spooky2', hashsize=16, np=2, z=False, nd=3, split=1),
    dict(name='a3_spooky2_h8_p3', hash='spooky2', hashsize=8, np=3, z=False, nd=4, split=1),
    dict(name='a4_murmur3_h2_z3', hash='murmur3', hashsize=2, np=3, z=True, nd=4, split=1),
    dict(name='a5_spooky2_h16_p4', hash='spooky2', hashsize=16, np=4, z=False, nd=5, split=1),
    dict(name='a6_murmur3_h4_p5', hash='murmur3', hashsize=4, np=5, z=False, nd=6, split=1),
    dict(name='a7_spooky2_h16_p6', hash='spooky2', hashsize=16, np=6, z=False, nd=7, split=1),
    dict(name='a8_murmur3_h16_p2_split3', hash='murmur3', hashsize=16, np=2, z=False, nd=3, split=3, limit=2500),
    # frozen in the middle of a rehash: written with `hash`, then `rehash` to `rehash_to` (every block flagged "to rehash",
    # hashes still those of (previous kind, previous seed)); scrub_even converts the even positions only
    dict(name='a9_rehash_murmur3_to_spooky2_all_p2', hash='murmur3', rehash_to='spooky2', hashsize=16, np=2, z=False, nd=3, split=1),
    dict(name='b1_rehash_spooky2_to_murmur3_half_h8_p1', hash='spooky2', rehash_to='murmur3', scrub_even=True, hashsize=8, np=1, z=False, nd=3, split=1),
    # one parity level split over 3 files, data reaching the 2nd and 3rd file
    dict(name='b2_spooky2_h16_p1_split3', hash='spooky2', hashsize=16, np=1, z=False, nd=2, split=3, limit=LIM_B2, nfiles=9),
    # mid-rehash AND split, two levels
    dict(name='b3_rehash_murmur3_to_spooky2_p2_split3', hash='murmur3', rehash_to='spooky2', hashsize=16, np=2, z=False, nd=3, split=3, limit=LIM_B3),
]

ODD_NAMES = [b'plain.bin', b'with space.txt', b'caf\xc3\xa9-\xe2\x82\xac.dat', b'bad\xff\xfeutf8', b'ctl\x01\x7fx',
             b'star*quest?[br]', b'back\\slash', b'sub/dir/deep/file', b'sub/  lead trail  ', b"quote'dq\"", b'#hash;semi', b'-dash']
SIZES = [0, 1, 1023, 1024, 1025, 3000, 5 * 1024, 2048, 777, 4096 + 17, 1, 1500]
MTIMES = [(-86400 * 365 - 7, 123456789),      # 1968-12-31..., before the epoch, with nanoseconds
          (1, 0), (951782400, 999999999), (1700000000, 1), (2 ** 31 + 5, 500), (1234567890, 0)]


def sha(path):
    h = hashlib.sha256()
    with open(path, 'rb') as f:
        h.update(f.read())
    return h.hexdigest()


def conf_text(spec, root):
    lines = ['blocksize 1']
    if spec['hashsize'] != 16:
        lines.append('hashsize %d' % spec['hashsize'])
    for l in range(spec['np']):
        tag = LEVELS[l]
        if spec['z'] and l == 2:
            tag = 'z-parity'
        files = ','.join(os.path.join(root, 'par', 'p%d_%d.par' % (l, s)) for s in range(spec['split']))
        lines.append('%s %s' % (tag, files))
    lines.append('content %s' % os.path.join(root, 'content', 'snapraid.content'))
    lines.append('content %s' % os.path.join(root, 'd1', 'snapraid.content'))
    for d in range(spec['nd']):
        lines.append('data d%d %s/' % (d + 1, os.path.join(root, 'd%d' % (d + 1))))
    return '\n'.join(lines) + '\n'


def extra_opts(spec, creating=False):
    # a frozen mid-rehash array is used with the NEW hash as the platform's best hash (no new rehash is proposed)
    o = ['--test-force-%s' % (spec['hash'] if creating or not spec.get('rehash_to') else spec['rehash_to'])]
    if spec.get('limit'):
        o.append('--test-parity-limit=%d' % spec['limit'])
    return o


def run(binary, root, spec, cmd, extra=(), creating=False, more=()):
    p = subprocess.run([binary] + FLAGS + extra_opts(spec, creating) + list(more) + ['-c', os.path.join(root, 'snapraid.conf')] + list(cmd) + list(extra),
                       stdout=subprocess.PIPE, stderr=subprocess.STDOUT, timeout=120)
    return p.returncode, p.stdout.decode('utf-8', 'replace')


def populate(root, spec, rng):
    """deterministic files; returns manifest {relpath(latin-1 escaped): {...}}"""
    files = {}
    k = 0
    for d in range(spec['nd']):
        droot = os.path.join(root, 'd%d' % (d + 1)).encode()
        os.makedirs(droot, exist_ok=True)
        nfiles = spec.get('nfiles', 3 + (d % 3))
        for j in range(nfiles):
            name = ODD_NAMES[(k * 5 + d) % len(ODD_NAMES)]
            if j and name in [f[1] for f in files.get(d, [])]:
                name = name + b'_%d' % j
            size = SIZES[(k * 7 + 3 * d + j) % len(SIZES)]
            p = os.path.join(droot, name)
            os.makedirs(os.path.dirname(p), exist_ok=True)
            data = bytes(rng.getrandbits(8) for _ in range(size))
            if j == 1 and size >= 1024:
                data = bytes(1024) + data[1024:]        # a block of zeros
            with open(p, 'wb') as f:
                f.write(data)
            mt = MTIMES[(k + d) % len(MTIMES)]
            os.utime(p, ns=(1500000000 * 10 ** 9, mt[0] * 10 ** 9 + mt[1]))
            files.setdefault(d, []).append((p, name))
            k += 1
        if d == 0:
            os.symlink(b'plain.bin', os.path.join(droot, b'a symlink'))
            os.makedirs(os.path.join(droot, b'empty dir'), exist_ok=True)
    return files


def manifest_of(root, spec):
    man = {'data': {}, 'parity': {}, 'links': {}, 'dirs': []}
    for d in range(spec['nd']):
        droot = os.path.join(root, 'd%d' % (d + 1)).encode()
        for dp, dn, fn in os.walk(droot):
            for n in fn:
                p = os.path.join(dp, n)
                rel = os.path.relpath(p, root.encode()).decode('latin-1')
                if n == b'snapraid.content':
                    continue
                if os.path.islink(p):
                    man['links'][rel] = os.readlink(p).decode('latin-1')
                    continue
                st = os.stat(p)
                man['data'][rel] = {'sha256': sha(p), 'size': st.st_size, 'mtime_ns': st.st_mtime_ns}
            for n in dn:
                p = os.path.join(dp, n)
                if not os.listdir(p):
                    man['dirs'].append(os.path.relpath(p, root.encode()).decode('latin-1'))
    for n in sorted(os.listdir(os.path.join(root, 'par'))):
        p = os.path.join(root, 'par', n)
        man['parity'][n] = {'sha256': sha(p), 'size': os.path.getsize(p)}
    return man


def make_one(binary, spec, base):
    root = os.path.join(base, spec['name'])
    shutil.rmtree(root, ignore_errors=True)
    for sub in ('par', 'content'):
        os.makedirs(os.path.join(root, sub))
    rng = random.Random('c16-' + spec['name'])
    populate(root, spec, rng)
    open(os.path.join(root, 'snapraid.conf'), 'w').write(conf_text(spec, root))
    rc, out = run(binary, root, spec, ['sync'], creating=True)
    if rc != 0:
        raise RuntimeError('sync failed for %s:\n%s' % (spec['name'], out))
    if spec.get('rehash_to'):
        rc, out = run(binary, root, spec, ['rehash'])
        if rc != 0:
            raise RuntimeError('rehash failed for %s:\n%s' % (spec['name'], out))
        if spec.get('scrub_even'):
            rc, out = run(binary, root, spec, ['scrub'], more=['--test-force-scrub-even'])
            if rc != 0:
                raise RuntimeError('scrub failed for %s:\n%s' % (spec['name'], out))
    rc, out = run(binary, root, spec, ['check'])
    if rc != 0:
        raise RuntimeError('check failed for %s:\n%s' % (spec['name'], out))
    man = manifest_of(root, spec)
    man['spec'] = spec
    if spec['split'] > 1:
        man['split_scenarios'] = record_split_scenarios(binary, root, spec, man)
    man['content_sha256'] = sha(os.path.join(root, 'content', 'snapraid.content'))
    man['content_magic'] = open(os.path.join(root, 'content', 'snapraid.content'), 'rb').read(8).decode()
    man['created_by'] = subprocess.run([binary, '--version'], stdout=subprocess.PIPE).stdout.decode().strip()
    os.remove(os.path.join(root, 'snapraid.conf'))
    for f in os.listdir(root):
        if f.endswith('.lock'):
            os.remove(os.path.join(root, f))
    os.makedirs(ARR, exist_ok=True)
    tp = os.path.join(ARR, spec['name'] + '.tar')
    with tarfile.open(tp, 'w', format=tarfile.PAX_FORMAT) as t:
        t.add(root, arcname=spec['name'])
    json.dump(man, open(os.path.join(ARR, spec['name'] + '.json'), 'w'), indent=1, sort_keys=True)
    return tp, man


def damage_split(root, fname, mode, bs=1024):
    """lose a parity split file ('remove': the disk was replaced, fix recreates the file empty) or cut it to half of
    its blocks ('truncate')"""
    p = os.path.join(root, 'par', fname)
    if mode == 'remove':
        os.remove(p)
    else:
        n = os.path.getsize(p) // bs
        os.truncate(p, (n // 2) * bs)


def snapshot_tree(root):
    """bytes of the whole array directory, to put it back between scenarios"""
    buf = io.BytesIO()
    with tarfile.open(fileobj=buf, mode='w', format=tarfile.PAX_FORMAT) as t:
        t.add(root, arcname='.')
    return buf.getvalue()


def restore_tree(root, blob, man):
    shutil.rmtree(root.encode())
    os.makedirs(root)
    with tarfile.open(fileobj=io.BytesIO(blob)) as t:
        t.extractall(root)
    for rel, m in man['data'].items():
        os.utime(os.path.join(root.encode(), rel.encode('latin-1')), ns=(1500000000 * 10 ** 9, m['mtime_ns']))


def parity_state(root, man):
    """differences of the parity files with the reference: bytes and recorded layout (sizes)"""
    bad = []
    for n, m in man['parity'].items():
        p = os.path.join(root, 'par', n)
        if not os.path.exists(p):
            bad.append('%s missing' % n)
            continue
        got = open(p, 'rb').read()
        if len(got) != m['size']:
            bad.append('%s has %d bytes, reference layout %d' % (n, len(got), m['size']))
        elif hashlib.sha256(got).hexdigest() != m['sha256']:
            bad.append('%s differs from the reference parity' % n)
    return bad


def record_split_scenarios(binary, root, spec, man):
    """with the PINNED binary: for every used split file of every level, removed or truncated, and every data disk,
    which files of that disk come back when they are lost together with the split.  First the whole disk; when the
    reference cannot do that (one parity level: the positions held by the lost split are gone) the files that
    are recoverable one by one, verified together."""
    blob = snapshot_tree(root)
    out = []
    disks = ['d%d' % (d + 1) for d in range(spec['nd'])]

    def attempt(fname, mode, disk, files):
        restore_tree(root, blob, man)
        damage_split(root, fname, mode)
        if files is None:
            wipe_disk(root, disk)
        else:
            for rel in files:
                os.remove(os.path.join(root.encode(), rel.encode('latin-1')))
        rc, o = run(binary, root, spec, ['fix'])
        bad = compare_data(root, man)
        pbad = parity_state(root, man)
        rc2, o2 = run(binary, root, spec, ['check'])
        return rc == 0 and not bad and not pbad and rc2 == 0

    for fname in sorted(man['parity']):
        if man['parity'][fname]['size'] == 0:
            continue
        for mode in ('remove', 'truncate'):
            for disk in disks:
                if attempt(fname, mode, disk, None):
                    out.append({'split': fname, 'mode': mode, 'disk': disk, 'files': None})
                    continue
                mine = sorted(r for r in man['data'] if r.split('/')[0] == disk and man['data'][r]['size'] > 0)
                single = [r for r in mine if attempt(fname, mode, disk, [r])]
                if single and attempt(fname, mode, disk, single):
                    out.append({'split': fname, 'mode': mode, 'disk': disk, 'files': single})
    restore_tree(root, blob, man)
    return out


def make_all(binary='/repo/snapraid', only=None):
    base = os.path.join('/dev/shm' if os.path.isdir('/dev/shm') else '/var/tmp', 'c16_mkarrays.%d' % os.getpid())
    os.makedirs(base)
    try:
        for spec in SPECS:
            if only and spec['name'] not in only:
                continue
            tp, man = make_one(binary, spec, base)
            print('%s: %d bytes, %d files, parity %s, content %s, split scenarios %s' % (spec['name'], os.path.getsize(tp), len(man['data']),
                  {k: v['size'] for k, v in man['parity'].items()}, man['content_magic'],
                  [(x['split'], x['mode'], x['disk'], 'ALL' if x['files'] is None else len(x['files'])) for x in man.get('split_scenarios', [])]))
    finally:
        shutil.rmtree(base, ignore_errors=True)


# ------------------------------------------------------------------------------------------------------
def list_specs():
    return sorted(f[:-5] for f in os.listdir(ARR) if f.endswith('.json')) if os.path.isdir(ARR) else []


def compare_data(root, man, only_disks=None):
    """compare the data files under root with the manifest; returns list of differences"""
    bad = []
    for rel, m in man['data'].items():
        disk = rel.split('/')[0]
        if only_disks is not None and disk not in only_disks:
            continue
        p = os.path.join(root.encode(), rel.encode('latin-1'))
        if not os.path.isfile(p):
            bad.append('%r missing' % rel)
            continue
        if sha(p) != m['sha256']:
            bad.append('%r content differs' % rel)
        elif os.stat(p).st_mtime_ns != m['mtime_ns']:
            bad.append('%r mtime %d != %d' % (rel, os.stat(p).st_mtime_ns, m['mtime_ns']))
    for rel, tgt in man['links'].items():
        disk = rel.split('/')[0]
        if only_disks is not None and disk not in only_disks:
            continue
        p = os.path.join(root.encode(), rel.encode('latin-1'))
        if not os.path.islink(p) or os.readlink(p).decode('latin-1') != tgt:
            bad.append('symlink %r not restored' % rel)
    for rel in man['dirs']:
        disk = rel.split('/')[0]
        if only_disks is not None and disk not in only_disks:
            continue
        if not os.path.isdir(os.path.join(root.encode(), rel.encode('latin-1'))):
            bad.append('empty dir %r not restored' % rel)
    return bad


def wipe_disk(root, disk):
    d = os.path.join(root, disk)
    keep = None
    cp = os.path.join(d, 'snapraid.content')
    if os.path.exists(cp):
        keep = open(cp, 'rb').read()
    shutil.rmtree(d.encode())
    os.makedirs(d)
    return keep


def unpack(name, work, man):
    """unpack the tar; python's tarfile restores mtimes through a float, so the exact nanosecond mtimes are set from
    the manifest; the conf is written with the paths of the unpack location"""
    with tarfile.open(os.path.join(ARR, name + '.tar')) as t:
        t.extractall(work)
    root = os.path.join(work, name)
    for rel, m in man['data'].items():
        os.utime(os.path.join(root.encode(), rel.encode('latin-1')), ns=(1500000000 * 10 ** 9, m['mtime_ns']))
    open(os.path.join(root, 'snapraid.conf'), 'w').write(conf_text(man['spec'], root))
    return root


def replay(binary, name, work, thorough=False):
    """returns (failures, ncommands, details)"""
    man = json.load(open(os.path.join(ARR, name + '.json')))
    spec = man['spec']
    root = unpack(name, work, man)
    fails = []
    ncmd = 0
    det = {}

    def step(what, cmd, extra=(), expect=0):
        nonlocal ncmd
        ncmd += 1
        rc, out = run(binary, root, spec, cmd, list(extra))
        if rc != expect:
            fails.append({'array': name, 'step': what, 'cmd': ' '.join(cmd + list(extra)), 'rc': rc, 'output_tail': out[-600:]})
            return False, out
        return True, out

    b0 = compare_data(root, man)
    if b0:
        fails.append({'array': name, 'step': 'unpack', 'diff': b0[:5]})
        return fails, ncmd, det
    step('check', ['check'])
    ok, out = step('status', ['status'])
    ok, out = step('list', ['list'])
    if ok:
        listed = sum(1 for l in out.splitlines() if l.strip() and not l.startswith(('Loading', 'Listing', 'Using', ' ')) and ('/' in l or ' ' in l))
        det['list_lines'] = len(out.splitlines())
    disks = ['d%d' % (d + 1) for d in range(spec['nd'])]
    combos = [(d,) for d in disks]
    allc = list(itertools.combinations(disks, spec['np'])) if spec['np'] > 1 and spec['np'] <= spec['nd'] else []
    if thorough:
        for k in range(2, spec['np'] + 1):
            combos += list(itertools.combinations(disks, k))
    else:
        # deterministic spread of np-subsets: first, last and two in the middle
        pick = sorted(set([0, len(allc) - 1, len(allc) // 3, (2 * len(allc)) // 3])) if allc else []
        combos += [allc[i] for i in pick]
    det['erasure_sets'] = [list(c) for c in combos]
    for combo in combos:
        for d in combo:
            wipe_disk(root, d)
        args = []
        for d in combo:
            args += ['-d', d]
        ok, out = step('fix ' + '+'.join(combo), ['fix'], args)
        bad = compare_data(root, man, set(combo))
        if bad:
            fails.append({'array': name, 'step': 'fix ' + '+'.join(combo), 'restored_data_differs': bad[:6], 'output_tail': out[-400:]})
            # restore pristine state for the next round
            shutil.rmtree(root.encode())
            unpack(name, work, man)
    # parity regeneration: delete every parity file, fix must rebuild them bit for bit
    for n in man['parity']:
        os.remove(os.path.join(root, 'par', n))
    ok, out = step('fix (parity rebuild)', ['fix'])
    pbad = []
    for n, m in man['parity'].items():
        p = os.path.join(root, 'par', n)
        if not os.path.exists(p):
            pbad.append('%s missing' % n)
        else:
            got = open(p, 'rb').read()
            # a rebuilt parity file may be allocated longer; the vendored bytes must be a prefix and the rest zero
            ref_sha = m['sha256']
            if hashlib.sha256(got[:m['size']]).hexdigest() != ref_sha or any(got[m['size']:]):
                pbad.append('%s differs from the reference parity' % n)
    if pbad:
        fails.append({'array': name, 'step': 'parity rebuild', 'parity_differs': pbad, 'output_tail': out[-400:]})
    step('check after rebuild', ['check'])
    # split layouts: every used split file lost or cut short, together with data whose parity lives elsewhere; what the
    # pinned binary brought back must come back, the parity must be rebuilt in the recorded layout, and check must pass
    scen = man.get('split_scenarios', [])
    if not thorough:
        # quick: every (split, mode) once, disks in rotation
        seen, pick = set(), []
        for k, x in enumerate(scen):
            key = (x['split'], x['mode'])
            if key not in seen and (k % max(1, spec['nd'])) == (len(seen) % max(1, spec['nd'])):
                seen.add(key)
                pick.append(x)
        for x in scen:
            if (x['split'], x['mode']) not in seen:
                seen.add((x['split'], x['mode']))
                pick.append(x)
        scen = pick
    det['split_scenarios'] = len(scen)
    for x in scen:
        shutil.rmtree(root.encode())
        unpack(name, work, man)
        damage_split(root, x['split'], x['mode'])
        if x['files'] is None:
            wipe_disk(root, x['disk'])
        else:
            for rel in x['files']:
                os.remove(os.path.join(root.encode(), rel.encode('latin-1')))
        what = 'fix after %s of parity split %s and loss of %s' % (x['mode'], x['split'], x['disk'] if x['files'] is None else '%d files of %s' % (len(x['files']), x['disk']))
        ok, out = step(what, ['fix'])
        bad = compare_data(root, man)
        if bad:
            fails.append({'array': name, 'step': what, 'restored_data_differs': bad[:6], 'output_tail': out[-400:]})
        pbad = parity_state(root, man)
        if pbad:
            fails.append({'array': name, 'step': what, 'parity_layout_or_bytes_differ': pbad, 'output_tail': out[-400:]})
        step('check after: ' + what, ['check'])
    return fails, ncmd, det


if __name__ == '__main__':
    if len(sys.argv) > 1 and sys.argv[1] == 'make':
        # make <binary> [array names...]: existing arrays are only rewritten when named (their hash seeds are random)
        make_all(sys.argv[2] if len(sys.argv) > 2 else '/repo/snapraid', only=sys.argv[3:] or None)
    elif len(sys.argv) > 1 and sys.argv[1] == 'scenarios':
        # scenarios <pinned binary> <array name>: add 'split_scenarios' to the manifest of an existing array
        import tempfile
        binary, n = sys.argv[2], sys.argv[3]
        man = json.load(open(os.path.join(ARR, n + '.json')))
        w = tempfile.mkdtemp(prefix='c16s.', dir='/dev/shm')
        try:
            root = unpack(n, w, man)
            man['split_scenarios'] = record_split_scenarios(binary, root, man['spec'], man)
            json.dump(man, open(os.path.join(ARR, n + '.json'), 'w'), indent=1, sort_keys=True)
            print(n, [(x['split'], x['mode'], x['disk'], 'ALL' if x['files'] is None else len(x['files'])) for x in man['split_scenarios']])
        finally:
            shutil.rmtree(w, ignore_errors=True)
    elif len(sys.argv) > 1 and sys.argv[1] == 'replay':
        import tempfile
        binary = sys.argv[2]
        for n in list_specs():
            w = tempfile.mkdtemp(prefix='c16r.', dir='/dev/shm')
            try:
                f, nc, det = replay(binary, n, w)
                print(n, 'commands', nc, 'FAIL' if f else 'ok', json.dumps(f)[:1500] if f else '')
            finally:
                shutil.rmtree(w, ignore_errors=True)
