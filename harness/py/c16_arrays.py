"""C16: vendored reference arrays.

  make_all(binary)     (run ONCE, with the unmodified pinned binary /repo/snapraid) creates the tiny arrays under
                       vectors/C16/arrays/<name>.tar + <name>.json (manifest: sha256 / size / mtime_ns of every data
                       file, sha256 of every parity file, the conf template, the options used)
  replay(binary, name, workdir)  unpacks one array and runs the binary under test on it: check, status, list,
                       fix after deleting every single data disk in turn, fix after deleting `np` disks at once
                       (needs every parity level), and regeneration of the deleted parity files.
                       Returns (list of failures, number of commands run).

python3 harness/py/c16_arrays.py make     regenerates the vendored arrays (not done by the check)."""
import os, sys, json, tarfile, hashlib, shutil, subprocess, random, itertools, io

HERE = os.path.dirname(os.path.abspath(__file__))
VERIF = os.path.dirname(os.path.dirname(HERE))
ARR = os.path.join(VERIF, 'vectors', 'C16', 'arrays')
FLAGS = ['--test-skip-device', '--test-skip-self', '--no-warnings', '--test-force-order-alpha']
LEVELS = ['parity', '2-parity', '3-parity', '4-parity', '5-parity', '6-parity']

# name, hash option, hashsize, number of parities, z mode, data disks, split (files per parity), parity limit
SPECS = [
    dict(name='a1_murmur3_h16_p1', hash='murmur3', hashsize=16, np=1, z=False, nd=2, split=1),
    dict(name='a2_spooky2_h16_p2', hash='spooky2', hashsize=16, np=2, z=False, nd=3, split=1),
    dict(name='a3_spooky2_h8_p3', hash='spooky2', hashsize=8, np=3, z=False, nd=4, split=1),
    dict(name='a4_murmur3_h2_z3', hash='murmur3', hashsize=2, np=3, z=True, nd=4, split=1),
    dict(name='a5_spooky2_h16_p4', hash='spooky2', hashsize=16, np=4, z=False, nd=5, split=1),
    dict(name='a6_murmur3_h4_p5', hash='murmur3', hashsize=4, np=5, z=False, nd=6, split=1),
    dict(name='a7_spooky2_h16_p6', hash='spooky2', hashsize=16, np=6, z=False, nd=7, split=1),
    dict(name='a8_murmur3_h16_p2_split3', hash='murmur3', hashsize=16, np=2, z=False, nd=3, split=3, limit=2500),
]

ODD_NAMES = [b'plain.bin', b'with space.txt', b'caf\xc3\xa9-\xe2\x82\xac.dat', b'bad\xff\xfeutf8', b'ctl\x01\x7fx',
             b'star*quest?[br]', b'back\\slash', b'sub/dir/deep/file', b'sub/  lead trail  ', b"quote'dq\"", b'#hash;semi', b'-dash']
SIZES = [0, 1, 1023, 1024, 1025, 3000, 5 * 1024, 2048, 777, 4096 + 17, 1, 1500]
MTIMES = [(-86400 * 365 - 7, 123456789),      # 1968-12-31..., before the epoch, with nanoseconds
          (1, 0), (951782400, 999999999), (1700000000, 1), (2 ** 31 + 5, 500), (1234567890, 0)]


def sha(path):
    h = hashlib.sha256()
    with open(path, 'rb') as f:
        h.update(f.read())
    return h.hexdigest()


def conf_text(spec, root):
    lines = ['blocksize 1']
    if spec['hashsize'] != 16:
        lines.append('hashsize %d' % spec['hashsize'])
    for l in range(spec['np']):
        tag = LEVELS[l]
        if spec['z'] and l == 2:
            tag = 'z-parity'
        files = ','.join(os.path.join(root, 'par', 'p%d_%d.par' % (l, s)) for s in range(spec['split']))
        lines.append('%s %s' % (tag, files))
    lines.append('content %s' % os.path.join(root, 'content', 'snapraid.content'))
    lines.append('content %s' % os.path.join(root, 'd1', 'snapraid.content'))
    for d in range(spec['nd']):
        lines.append('data d%d %s/' % (d + 1, os.path.join(root, 'd%d' % (d + 1))))
    return '\n'.join(lines) + '\n'


def extra_opts(spec):
    o = ['--test-force-%s' % spec['hash']]
    if spec.get('limit'):
        o.append('--test-parity-limit=%d' % spec['limit'])
    return o


def run(binary, root, spec, cmd, extra=()):
    p = subprocess.run([binary] + FLAGS + extra_opts(spec) + ['-c', os.path.join(root, 'snapraid.conf')] + list(cmd) + list(extra),
                       stdout=subprocess.PIPE, stderr=subprocess.STDOUT, timeout=120)
    return p.returncode, p.stdout.decode('utf-8', 'replace')


def populate(root, spec, rng):
    """deterministic files; returns manifest {relpath(latin-1 escaped): {...}}"""
    files = {}
    k = 0
    for d in range(spec['nd']):
        droot = os.path.join(root, 'd%d' % (d + 1)).encode()
        os.makedirs(droot, exist_ok=True)
        nfiles = 3 + (d % 3)
        for j in range(nfiles):
            name = ODD_NAMES[(k * 5 + d) % len(ODD_NAMES)]
            if j and name in [f[1] for f in files.get(d, [])]:
                name = name + b'_%d' % j
            size = SIZES[(k * 7 + 3 * d + j) % len(SIZES)]
            p = os.path.join(droot, name)
            os.makedirs(os.path.dirname(p), exist_ok=True)
            data = bytes(rng.getrandbits(8) for _ in range(size))
            if j == 1 and size >= 1024:
                data = bytes(1024) + data[1024:]        # a block of zeros
            with open(p, 'wb') as f:
                f.write(data)
            mt = MTIMES[(k + d) % len(MTIMES)]
            os.utime(p, ns=(1500000000 * 10 ** 9, mt[0] * 10 ** 9 + mt[1]))
            files.setdefault(d, []).append((p, name))
            k += 1
        if d == 0:
            os.symlink(b'plain.bin', os.path.join(droot, b'a symlink'))
            os.makedirs(os.path.join(droot, b'empty dir'), exist_ok=True)
    return files


def manifest_of(root, spec):
    man = {'data': {}, 'parity': {}, 'links': {}, 'dirs': []}
    for d in range(spec['nd']):
        droot = os.path.join(root, 'd%d' % (d + 1)).encode()
        for dp, dn, fn in os.walk(droot):
            for n in fn:
                p = os.path.join(dp, n)
                rel = os.path.relpath(p, root.encode()).decode('latin-1')
                if n == b'snapraid.content':
                    continue
                if os.path.islink(p):
                    man['links'][rel] = os.readlink(p).decode('latin-1')
                    continue
                st = os.stat(p)
                man['data'][rel] = {'sha256': sha(p), 'size': st.st_size, 'mtime_ns': st.st_mtime_ns}
            for n in dn:
                p = os.path.join(dp, n)
                if not os.listdir(p):
                    man['dirs'].append(os.path.relpath(p, root.encode()).decode('latin-1'))
    for n in sorted(os.listdir(os.path.join(root, 'par'))):
        p = os.path.join(root, 'par', n)
        man['parity'][n] = {'sha256': sha(p), 'size': os.path.getsize(p)}
    return man


def make_one(binary, spec, base):
    root = os.path.join(base, spec['name'])
    shutil.rmtree(root, ignore_errors=True)
    for sub in ('par', 'content'):
        os.makedirs(os.path.join(root, sub))
    rng = random.Random('c16-' + spec['name'])
    populate(root, spec, rng)
    open(os.path.join(root, 'snapraid.conf'), 'w').write(conf_text(spec, root))
    rc, out = run(binary, root, spec, ['sync'])
    if rc != 0:
        raise RuntimeError('sync failed for %s:\n%s' % (spec['name'], out))
    rc, out = run(binary, root, spec, ['check'])
    if rc != 0:
        raise RuntimeError('check failed for %s:\n%s' % (spec['name'], out))
    man = manifest_of(root, spec)
    man['spec'] = spec
    man['content_sha256'] = sha(os.path.join(root, 'content', 'snapraid.content'))
    man['content_magic'] = open(os.path.join(root, 'content', 'snapraid.content'), 'rb').read(8).decode()
    man['created_by'] = subprocess.run([binary, '--version'], stdout=subprocess.PIPE).stdout.decode().strip()
    os.remove(os.path.join(root, 'snapraid.conf'))
    for f in os.listdir(root):
        if f.endswith('.lock'):
            os.remove(os.path.join(root, f))
    os.makedirs(ARR, exist_ok=True)
    tp = os.path.join(ARR, spec['name'] + '.tar')
    with tarfile.open(tp, 'w', format=tarfile.PAX_FORMAT) as t:
        t.add(root, arcname=spec['name'])
    json.dump(man, open(os.path.join(ARR, spec['name'] + '.json'), 'w'), indent=1, sort_keys=True)
    return tp, man


def make_all(binary='/repo/snapraid'):
    base = os.path.join('/dev/shm' if os.path.isdir('/dev/shm') else '/var/tmp', 'c16_mkarrays.%d' % os.getpid())
    os.makedirs(base)
    try:
        for spec in SPECS:
            tp, man = make_one(binary, spec, base)
            print('%s: %d bytes, %d files, parity %s, content %s' % (spec['name'], os.path.getsize(tp), len(man['data']),
                  {k: v['size'] for k, v in man['parity'].items()}, man['content_magic']))
    finally:
        shutil.rmtree(base, ignore_errors=True)


# ------------------------------------------------------------------------------------------------------
def list_specs():
    return sorted(f[:-5] for f in os.listdir(ARR) if f.endswith('.json')) if os.path.isdir(ARR) else []


def compare_data(root, man, only_disks=None):
    """compare the data files under root with the manifest; returns list of differences"""
    bad = []
    for rel, m in man['data'].items():
        disk = rel.split('/')[0]
        if only_disks is not None and disk not in only_disks:
            continue
        p = os.path.join(root.encode(), rel.encode('latin-1'))
        if not os.path.isfile(p):
            bad.append('%r missing' % rel)
            continue
        if sha(p) != m['sha256']:
            bad.append('%r content differs' % rel)
        elif os.stat(p).st_mtime_ns != m['mtime_ns']:
            bad.append('%r mtime %d != %d' % (rel, os.stat(p).st_mtime_ns, m['mtime_ns']))
    for rel, tgt in man['links'].items():
        disk = rel.split('/')[0]
        if only_disks is not None and disk not in only_disks:
            continue
        p = os.path.join(root.encode(), rel.encode('latin-1'))
        if not os.path.islink(p) or os.readlink(p).decode('latin-1') != tgt:
            bad.append('symlink %r not restored' % rel)
    for rel in man['dirs']:
        disk = rel.split('/')[0]
        if only_disks is not None and disk not in only_disks:
            continue
        if not os.path.isdir(os.path.join(root.encode(), rel.encode('latin-1'))):
            bad.append('empty dir %r not restored' % rel)
    return bad


def wipe_disk(root, disk):
    d = os.path.join(root, disk)
    keep = None
    cp = os.path.join(d, 'snapraid.content')
    if os.path.exists(cp):
        keep = open(cp, 'rb').read()
    shutil.rmtree(d.encode())
    os.makedirs(d)
    return keep


def unpack(name, work, man):
    """unpack the tar; python's tarfile restores mtimes through a float, so the exact nanosecond mtimes are set from
    the manifest; the conf is written with the paths of the unpack location"""
    with tarfile.open(os.path.join(ARR, name + '.tar')) as t:
        t.extractall(work)
    root = os.path.join(work, name)
    for rel, m in man['data'].items():
        os.utime(os.path.join(root.encode(), rel.encode('latin-1')), ns=(1500000000 * 10 ** 9, m['mtime_ns']))
    open(os.path.join(root, 'snapraid.conf'), 'w').write(conf_text(man['spec'], root))
    return root


def replay(binary, name, work, thorough=False):
    """returns (failures, ncommands, details)"""
    man = json.load(open(os.path.join(ARR, name + '.json')))
    spec = man['spec']
    root = unpack(name, work, man)
    fails = []
    ncmd = 0
    det = {}

    def step(what, cmd, extra=(), expect=0):
        nonlocal ncmd
        ncmd += 1
        rc, out = run(binary, root, spec, cmd, list(extra))
        if rc != expect:
            fails.append({'array': name, 'step': what, 'cmd': ' '.join(cmd + list(extra)), 'rc': rc, 'output_tail': out[-600:]})
            return False, out
        return True, out

    b0 = compare_data(root, man)
    if b0:
        fails.append({'array': name, 'step': 'unpack', 'diff': b0[:5]})
        return fails, ncmd, det
    step('check', ['check'])
    ok, out = step('status', ['status'])
    ok, out = step('list', ['list'])
    if ok:
        listed = sum(1 for l in out.splitlines() if l.strip() and not l.startswith(('Loading', 'Listing', 'Using', ' ')) and ('/' in l or ' ' in l))
        det['list_lines'] = len(out.splitlines())
    disks = ['d%d' % (d + 1) for d in range(spec['nd'])]
    combos = [(d,) for d in disks]
    allc = list(itertools.combinations(disks, spec['np'])) if spec['np'] > 1 and spec['np'] <= spec['nd'] else []
    if thorough:
        for k in range(2, spec['np'] + 1):
            combos += list(itertools.combinations(disks, k))
    else:
        # deterministic spread of np-subsets: first, last and two in the middle
        pick = sorted(set([0, len(allc) - 1, len(allc) // 3, (2 * len(allc)) // 3])) if allc else []
        combos += [allc[i] for i in pick]
    det['erasure_sets'] = [list(c) for c in combos]
    for combo in combos:
        for d in combo:
            wipe_disk(root, d)
        args = []
        for d in combo:
            args += ['-d', d]
        ok, out = step('fix ' + '+'.join(combo), ['fix'], args)
        bad = compare_data(root, man, set(combo))
        if bad:
            fails.append({'array': name, 'step': 'fix ' + '+'.join(combo), 'restored_data_differs': bad[:6], 'output_tail': out[-400:]})
            # restore pristine state for the next round
            shutil.rmtree(root.encode())
            unpack(name, work, man)
    # parity regeneration: delete every parity file, fix must rebuild them bit for bit
    for n in man['parity']:
        os.remove(os.path.join(root, 'par', n))
    ok, out = step('fix (parity rebuild)', ['fix'])
    pbad = []
    for n, m in man['parity'].items():
        p = os.path.join(root, 'par', n)
        if not os.path.exists(p):
            pbad.append('%s missing' % n)
        else:
            got = open(p, 'rb').read()
            # a rebuilt parity file may be allocated longer; the vendored bytes must be a prefix and the rest zero
            ref_sha = m['sha256']
            if hashlib.sha256(got[:m['size']]).hexdigest() != ref_sha or any(got[m['size']:]):
                pbad.append('%s differs from the reference parity' % n)
    if pbad:
        fails.append({'array': name, 'step': 'parity rebuild', 'parity_differs': pbad, 'output_tail': out[-400:]})
    step('check after rebuild', ['check'])
    return fails, ncmd, det


if __name__ == '__main__':
    if len(sys.argv) > 1 and sys.argv[1] == 'make':
        make_all(sys.argv[2] if len(sys.argv) > 2 else '/repo/snapraid')
    elif len(sys.argv) > 1 and sys.argv[1] == 'replay':
        import tempfile
        binary = sys.argv[2]
        for n in list_specs():
            w = tempfile.mkdtemp(prefix='c16r.', dir='/dev/shm')
            try:
                f, nc, det = replay(binary, n, w)
                print(n, 'commands', nc, 'FAIL' if f else 'ok', json.dumps(f)[:1500] if f else '')
            finally:
                shutil.rmtree(w, ignore_errors=True)
