"""C16 helpers: the deterministic test messages of the vendored vectors, and small INDEPENDENT reference
implementations (bitwise CRC-32C, the packed-integer format) used as oracle by check_C16.py.
Nothing here is derived from the C sources or from the Coq models."""
import os

SEEDS = ['00000000000000000000000000000000',
         'ffffffffffffffffffffffffffffffff',
         '000102030405060708090a0b0c0d0e0f',
         '243f6a8885a308d313198a2e03707344',
         '0123456789abcdeffedcba9876543210',
         '80000000000000000000000000000000',
         '00000000000000000000000000000001',
         'deadbeefcafebabe0badf00d8badf00d']
VEC_MAXLEN = 1100


def vec_byte(sid, n, i):
    return ((((i + 1) * (n + 13) * 40503 + i * i * 7 + sid * 977) // 16) & 255)


def vec_data(sid, n):
    return bytes(vec_byte(sid, n, i) for i in range(n))


def hx(b):
    return bytes(b).hex() if len(b) else '-'


def unhx(s):
    return b'' if s == '-' else bytes.fromhex(s)


# ---- CRC-32C, bit by bit (reflected, polynomial 0x1EDC6F41 -> 0x82F63B78) ----
def crc32c_plain(crc, data):
    for b in data:
        crc ^= b
        for _ in range(8):
            crc = (crc >> 1) ^ (0x82F63B78 if crc & 1 else 0)
    return crc


def crc32c(crc, data):
    return crc32c_plain(crc ^ 0xffffffff, data) ^ 0xffffffff


# ---- packed integers: 7-bit groups, least significant first, the last byte has bit 7 set ----
def putb(v):
    out = []
    while True:
        b = v & 0x7f
        v >>= 7
        if v:
            out.append(b)
        else:
            out.append(b | 0x80)
            return bytes(out)


def getb(data, width):
    """reference reader for the on-disk format as the reference version reads it: returns ('ok', v, consumed) |
    ('eof',) | ('bad',).  Groups beyond `width` bits are dropped; more than ceil(width/7) bytes is an error."""
    v = 0
    s = 0
    for k, b in enumerate(data):
        if b & 0x80:
            v |= ((b & 0x7f) << s) & ((1 << width) - 1)
            return ('ok', v, k + 1)
        v |= (b << s) & ((1 << width) - 1)
        s += 7
        if s >= width:
            return ('bad',)
    return ('eof',)


def putbs(s):
    return putb(len(s)) + bytes(s)


def getbs(data, size):
    r = getb(data, 32)
    if r[0] != 'ok':
        return r
    ln, used = r[1], r[2]
    if ln >= size:
        return ('bad',)          # the format rule (the reference snapshot let ln = 2^32-1 through: uint32 wrap)
    if len(data) - used < ln:
        return ('eof',)
    return ('ok', bytes(data[used:used + ln]), used + ln)


def load_hash_vectors(path):
    """lines: kind sid seedhex n digesthex"""
    out = []
    with open(path) as f:
        for l in f:
            if l.startswith('#') or not l.strip():
                continue
            k, sid, seed, n, dig = l.split()
            out.append((k, int(sid), seed, int(n), dig))
    return out
