"""Candidate finding (C17, coverage round): fix re-lays a lost last-used split over the next split when there is less room
than recorded, reports success, but does not record the new layout (fix never writes the content file).

  sync            -> recorded split sizes [8192, 0]
  rm p0           (the parity disk holding the last used split is lost and replaced by a smaller one:
                   --test-parity-limit gives split 0 room for 5 blocks only)
  fix             -> exit 0, "Everything OK"; files are [5120, 3072]: blocks 5..7 were written to split 1
  check           -> the content file still says [8192, 0]: 3 errors (blocks 5..7 are looked up in split 0)
  sync            -> since /repo 03a455c refused ("parity files are smaller than expected": the interlock looks at the bytes really
                     present); before, it silently recorded [5120, 3072]
  sync -F         -> records [5120, 3072] and recomputes; check passes again

Between the fix and the next sync the address map of the content file does not match the parity on disk; a data disk lost
in that window cannot use those parity blocks.  Run: python3 harness/py/c17_repro_fix_relayout.py
"""
import os, sys, random, json
sys.path.insert(0, os.path.dirname(os.path.abspath(__file__)))
from common import *

BASE = ['--test-skip-device', '--test-skip-self', '--no-warnings', '--test-force-order-alpha']


def _limit(limit, s, level):
    return limit + ((123562341 + s * 634542351 + level * 983491341) & 0xffffffff) % limit


def reproduce(tool, D):
    rng = random.Random(3)
    os.makedirs(os.path.join(D, 'd1')); os.makedirs(os.path.join(D, 'd2'))
    open(os.path.join(D, 'd1', 'a'), 'wb').write(bytes(rng.getrandbits(8) for _ in range(8192)))
    open(os.path.join(D, 'd2', 'b'), 'wb').write(bytes(rng.getrandbits(8) for _ in range(8192)))
    open(os.path.join(D, 'conf'), 'w').write('blocksize 1\nparity %s/p0,%s/p1\ncontent %s/content\ndata d1 %s/d1/\ndata d2 %s/d2/\n' % ((D,) * 5))

    def sr(cmd, L=None):
        r = run([tool] + BASE + (['--test-parity-limit=%d' % L] if L else []) + ['-c', os.path.join(D, 'conf')] + cmd, timeout=60)
        return r.returncode, r.stdout
    sz = lambda: [os.path.getsize(os.path.join(D, 'p%d' % i)) for i in range(2)]
    res = {}
    res['sync1_rc'] = sr(['sync'])[0]; res['sizes_after_sync1'] = sz()
    os.remove(os.path.join(D, 'p0'))
    L = next(L for L in range(3000, 5000) if 5120 <= _limit(L, 0, 0) < 6144)
    res['limit'] = L
    res['fix_rc'] = sr(['fix'], L)[0]; res['sizes_after_fix'] = sz()
    rc, out = sr(['check'], L); res['check_after_fix_rc'] = rc; res['check_after_fix_tail'] = ' '.join(out.split()[-8:])
    rc, out = sr(['sync'], L); res['sync2_rc'] = rc; res['sync2_refused_by_interlock'] = rc != 0 and 'smaller than expected' in out
    if rc != 0:
        res['sync2_forced_rc'] = sr(['-F', 'sync'], L)[0]
    res['sizes_after_sync2'] = sz()
    res['check_after_sync2_rc'] = sr(['check'], L)[0]
    res['healed'] = ((rc == 0 or (res['sync2_refused_by_interlock'] and res['sync2_forced_rc'] == 0)) and
                     sum(res['sizes_after_sync2']) == 8192 and res['check_after_sync2_rc'] == 0)
    res['observed'] = res['fix_rc'] == 0 and res['check_after_fix_rc'] != 0
    return res


if __name__ == '__main__':
    snap = snapshot_repo()
    print(json.dumps(reproduce(build_tool(snap), os.path.join(mkscratch(), 'r')), indent=1))
