"""Candidate finding (C17, coverage round): fix leaves a cut split file cut when the missing bytes are zeros.

  two data files of 100 bytes -> one parity block whose bytes 100..1023 are zero; parity in 2 split files (so that the
  sizes are recorded: 'Q' record)
  truncate p0 to 500 bytes
  fix    -> parity_chsize extends p0 to 1024 (zeros), the block compares equal, nothing is written, valid_size stays 500 and
            parity_truncate cuts p0 back to 500: exit 0 "Everything OK", p0 has 500 bytes
  check  -> "Unexpected end of file", 1 error;  fix / check can be repeated with the same result
  sync   -> since /repo 03a455c refused ("parity files are smaller than expected"); before, it silently regrew p0
  sync -F -> regrows p0 to 1024 and recomputes; check passes
Run: python3 harness/py/c17_repro_fix_short.py
"""
import os, sys, json
sys.path.insert(0, os.path.dirname(os.path.abspath(__file__)))
from common import *

BASE = ['--test-skip-device', '--test-skip-self', '--no-warnings', '--test-force-order-alpha']


def reproduce(tool, D):
    os.makedirs(os.path.join(D, 'd1')); os.makedirs(os.path.join(D, 'd2'))
    open(os.path.join(D, 'd1', 'a'), 'wb').write(bytes((7 * i + 1) & 255 for i in range(100)))
    open(os.path.join(D, 'd2', 'b'), 'wb').write(bytes((3 * i + 5) & 255 for i in range(100)))
    open(os.path.join(D, 'conf'), 'w').write('blocksize 1\nparity %s/p0,%s/p1\ncontent %s/content\ndata d1 %s/d1/\ndata d2 %s/d2/\n' % ((D,) * 5))

    def sr(cmd):
        r = run([tool] + BASE + ['-c', os.path.join(D, 'conf')] + cmd, timeout=60)
        return r.returncode, r.stdout
    p0 = os.path.join(D, 'p0')
    res = {'sync_rc': sr(['sync'])[0], 'p0_after_sync': os.path.getsize(p0)}
    os.truncate(p0, 500)
    rc, out = sr(['fix']); res['fix_rc'] = rc; res['fix_tail'] = ' '.join(out.split()[-3:]); res['p0_after_fix'] = os.path.getsize(p0)
    rc, out = sr(['check']); res['check_rc'] = rc; res['check_tail'] = ' '.join(out.split()[-9:])
    rc, out = sr(['fix']); res['fix2_rc'] = rc; res['p0_after_fix2'] = os.path.getsize(p0)
    res['check2_rc'] = sr(['check'])[0]
    rc, out = sr(['sync']); res['sync2_rc'] = rc; res['sync2_refused_by_interlock'] = rc != 0 and 'smaller than expected' in out
    if rc != 0:
        res['sync2_forced_rc'] = sr(['-F', 'sync'])[0]
    res['p0_after_sync2'] = os.path.getsize(p0)
    res['check3_rc'] = sr(['check'])[0]
    res['healed'] = ((rc == 0 or (res['sync2_refused_by_interlock'] and res['sync2_forced_rc'] == 0)) and
                     res['p0_after_sync2'] == 1024 and res['check3_rc'] == 0)
    res['observed'] = res['fix_rc'] == 0 and res['check_rc'] != 0
    return res


if __name__ == '__main__':
    snap = snapshot_repo()
    print(json.dumps(reproduce(build_tool(snap), os.path.join(mkscratch(), 'r')), indent=1))
