"""Regression scenario of the C17 finding repaired by /repo commit 391ce18 (real snapraid binary).

  sync #1 with --test-parity-limit chosen so that split 0 and split 2 can hold one 1 KiB block and split 1 none:
          recorded sizes become [1024, 0, 1024]
  sync #2 after adding a file, without the limit (= space was freed on the first parity disk).
          OLD behaviour: parity_split_is_fixed(0) looked at split 1 only (size 0) -> split 0 was "growing" -> it was
          extended to 3072 and split 2, which holds the parity of block 1, truncated to 0; sync exited 0 with
          "Everything OK" and check then reported 1 error.   -> 'defect_reproduced'
          EXPECTED now: split 0 and 1 keep their sizes, the last split takes the growth ([1024, 0, 2048]), check passes.
                                                               -> 'passed'
Run:  python3 harness/py/c17_repro_midzero.py        (builds the tool from VERIF_REPO or /repo)
"""
import os, sys, random
sys.path.insert(0, os.path.dirname(os.path.abspath(__file__)))
from common import *

BASE = ['--test-skip-device', '--test-skip-self', '--no-warnings', '--test-force-order-alpha']


def _limit(limit, s, level):
    return limit + ((123562341 + s * 634542351 + level * 983491341) & 0xffffffff) % limit


def reproduce(tool, D):
    os.makedirs(os.path.join(D, 'd1'))
    os.makedirs(os.path.join(D, 'd2'))
    L = next(L for L in range(513, 1024) if 1024 <= _limit(L, 0, 0) < 2048 and _limit(L, 1, 0) < 1024 and 1024 <= _limit(L, 2, 0))
    rng = random.Random(1)
    open(os.path.join(D, 'd1', 'a'), 'wb').write(bytes(rng.getrandbits(8) for _ in range(2048)))
    open(os.path.join(D, 'd2', 'b'), 'wb').write(bytes(rng.getrandbits(8) for _ in range(2048)))
    with open(os.path.join(D, 'conf'), 'w') as f:
        f.write('blocksize 1\nparity %s/p0,%s/p1,%s/p2\ncontent %s/content\ndata d1 %s/d1/\ndata d2 %s/d2/\n' % ((D,) * 6))

    def sr(cmd, extra=()):
        r = run([tool] + BASE + list(extra) + ['-c', os.path.join(D, 'conf')] + cmd, timeout=60)
        return r.returncode, r.stdout
    sizes = lambda: [os.path.getsize(os.path.join(D, 'p%d' % i)) for i in range(3)]
    res = {'test_parity_limit_first_sync': L, 'per_split_limits': [_limit(L, s, 0) for s in range(3)]}
    res['sync1_rc'] = sr(['sync'], ['--test-parity-limit=%d' % L])[0]
    res['sizes_after_sync1'] = sizes()
    res['check1_rc'] = sr(['check'], ['--test-parity-limit=%d' % L])[0]
    open(os.path.join(D, 'd1', 'c'), 'wb').write(bytes(rng.getrandbits(8) for _ in range(1024)))
    res['sync2_rc'] = sr(['sync'])[0]
    res['sizes_after_sync2'] = sizes()
    rc, out = sr(['check'])
    res['check2_rc'] = rc
    res['check2_tail'] = ' '.join(out.split()[-12:])
    res['defect_reproduced'] = (res['sizes_after_sync1'] == [1024, 0, 1024] and (res['sizes_after_sync2'][0] != 1024 or res['sizes_after_sync2'][2] < 1024 or rc != 0))
    res['passed'] = (res['sync1_rc'] == 0 and res['check1_rc'] == 0 and res['sizes_after_sync1'] == [1024, 0, 1024] and
                     res['sync2_rc'] == 0 and res['sizes_after_sync2'] == [1024, 0, 2048] and rc == 0)
    return res


if __name__ == '__main__':
    snap = snapshot_repo()
    tool = build_tool(snap)
    import json
    print(json.dumps(reproduce(tool, os.path.join(mkscratch(), 'repro')), indent=1))
