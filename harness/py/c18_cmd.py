"""C18 command-level correspondence: generated configurations (exclude/include rules, nohidden) + generated file
trees; `sync`, `list -l`, `check -v -f/-d`, `fix -f/-d`, `fix -m` of the real binary against (a) an independent
evaluation of the documented rules on a walk of the tree done here and (b) the extracted Coq model."""
import os, shutil, subprocess, json
import c18_gen as g

FLAGS = ['--test-skip-device', '--test-skip-self', '--no-warnings', '--test-force-order-alpha']


def hx(b):
    return b.hex() if b else '-'


def esc_untag(s):
    out = bytearray()
    i = 0
    while i < len(s):
        c = s[i]
        if c == 0x5c and i + 1 < len(s):
            n = s[i + 1]
            out.append({0x6e: 0x0a, 0x72: 0x0d, 0x64: 0x3a, 0x5c: 0x5c}.get(n, n))
            i += 2
        else:
            out.append(c)
            i += 1
    return bytes(out)


def parse_log(path):
    """-> dict tag -> list of field lists (bytes, unescaped)"""
    res = {}
    try:
        data = open(path, 'rb').read()
    except FileNotFoundError:
        return res
    for line in data.split(b'\n'):
        f = line.split(b':')
        if len(f) < 2:
            continue
        tag = f[0].decode('latin1')
        if tag == 'status' and len(f) >= 4:
            res.setdefault('status_' + f[1].decode('latin1'), []).append((f[2], esc_untag(f[3])))
        elif tag in ('file', 'link_symlink', 'link_hardlink', 'dir_fixed', 'symlink_fixed') and len(f) >= 3:
            res.setdefault(tag, []).append((f[1], esc_untag(f[2])))
            if tag == 'link_hardlink' and len(f) >= 4:
                res.setdefault('hardlink_to', {})[(f[1], esc_untag(f[2]))] = esc_untag(f[3])
    return res


class Scenario:
    def __init__(self, rng, idx):
        self.idx = idx
        self.disks = [b'd1', b'd2'] if rng.random() < 0.8 else [b'd1', b'data_2']
        self.trees = {}
        for d in self.disks:
            t = g.gen_tree(rng, maxdepth=3, fan=5)
            # forbid names the file system or the harness cannot hold
            t = [(s, k) for s, k in t if b'\0' not in s and b'\n' not in s and len(s) < 200]
            self.trees[d] = t
        # d1 holds a copy of the content file: its lock file name must be skipped by the scan
        t1 = self.trees[self.disks[0]]
        names1 = set(s for s, k in t1)
        self.extra = []
        if b'content.lock' not in names1 and not any(s.startswith(b'content.lock/') for s in names1):
            t1.append((b'content.lock', 'f'))
        if b'content' in names1 or any(s.startswith(b'content/') for s in names1):
            self.trees[self.disks[0]] = [(s, k) for s, k in t1 if s != b'content' and not s.startswith(b'content/')]
        # a stale copy of the temporary content file: skipped by the scan (and replaced when the state is saved)
        t1 = self.trees[self.disks[0]]
        if rng.random() < 0.5 and b'content.tmp' not in set(s for s, k in t1) and not any(s.startswith(b'content.tmp/') for s, k in t1):
            t1.append((b'content.tmp', 'f'))
        # user files whose names only LOOK like the tool's own files: they must enter the array (elem.c compares the whole path
        # with <content>, <content>.tmp and <content>.lock)
        have = set(s for s, k in t1)
        for nm in rng.sample([b'content.tmp.bak', b'content.tmp2', b'content.locked-2026', b'content.lock~', b'content.tmpx', b'content.lock.old',
                              b'content2', b'contents', b'content.bak', b'xcontent', b'content.tm', b'content.loc'], rng.choice([2, 3, 4])):
            if nm not in have:
                t1.append((nm, 'f'))
        # hard links (a second name of a regular file of the same disk) and special files (fifo)
        self.hard = {}
        for d in self.disks:
            t = self.trees[d]
            names = set(s for s, k in t)
            parents = [b''] + [s + b'/' for s, k in t if k == 'd']
            regular = [s for s, k in t if k == 'f' and not s.startswith(b'content')]
            hd = {}
            for _ in range(rng.choice([0, 1, 1, 2])):
                if not regular:
                    break
                target = rng.choice(regular)
                nm = rng.choice(parents) + rng.choice([b'hl', b'0hard', b'zz.c', b'.hl', b'h l', b'tmp']) + rng.choice([b'', b'1', b'.txt'])
                if nm in names or any(x.startswith(nm + b'/') for x in names):
                    continue
                names.add(nm)
                t.append((nm, 'h'))
                hd[nm] = target
            for _ in range(rng.choice([1, 2, 3])):
                nm = rng.choice(parents) + rng.choice([b'sl', b'lnk.c', b'.ln', b'l k', b'tmp.l']) + rng.choice([b'', b'2'])
                if nm in names or any(x.startswith(nm + b'/') for x in names):
                    continue
                names.add(nm)
                t.append((nm, 'l'))
            for _ in range(rng.choice([0, 0, 1])):
                nm = rng.choice(parents) + rng.choice([b'fifo', b'pipe.c', b'.sock', b'tmp'])
                if nm in names or any(x.startswith(nm + b'/') for x in names):
                    continue
                names.add(nm)
                t.append((nm, 's'))
            self.hard[d] = hd
        allent = [(d, s, k) for d in self.disks for s, k in self.trees[d]]
        flat = [(s, k) for d, s, k in allent]
        self.nohidden = rng.random() < 0.4
        nr = rng.choice([0, 1, 2, 2, 3, 3, 4, 5])
        self.rules = []
        self.bad_rule = None
        for _ in range(nr):
            txt = g.gen_rule_text(rng, flat)
            if txt != txt.strip(b' \t') or not txt or b'\n' in txt or b'\r' in txt:
                continue
            incl = rng.random() < 0.4
            try:
                g.RefRule(incl, txt)
            except ValueError:
                if self.bad_rule is None and rng.random() < 0.5:
                    self.bad_rule = len(self.rules)
                    self.rules.append((incl, txt))
                continue
            self.rules.append((incl, txt))
        # a second rule list: the configuration is edited and sync runs again
        self.rules2 = None
        if self.bad_rule is None and rng.random() < 0.6:
            r2 = list(self.rules)
            for _ in range(rng.choice([1, 1, 2])):
                k = rng.random()
                if k < 0.35 and r2:
                    del r2[rng.randrange(len(r2))]
                else:
                    txt = g.gen_rule_text(rng, flat)
                    if txt != txt.strip(b' \t') or not txt or b'\n' in txt or b'\r' in txt:
                        continue
                    try:
                        g.RefRule(True, txt)
                    except ValueError:
                        continue
                    r2.insert(rng.randint(0, len(r2)), (rng.random() < 0.4, txt))
            if r2 != self.rules:
                self.rules2 = r2
        # selection variants
        self.sel = []
        for _ in range(2):
            fpat = []
            for _ in range(rng.choice([0, 1, 1, 2])):
                txt = g.gen_rule_text(rng, flat)
                try:
                    g.RefRule(True, txt)
                except ValueError:
                    continue
                if txt and not txt.startswith(b'-'):
                    fpat.append(txt)
            dpat = []
            if rng.random() < 0.45:
                dpat.append(rng.choice([self.disks[0], self.disks[1], b'd*', b'*2', b'd[12]', b'nomatch', b'?1']))
                if rng.random() < 0.2:
                    dpat.append(rng.choice([self.disks[1], b'x*']))
            self.sel.append((fpat, dpat))
        self.rng_missing = rng.random()
        self.rngstate = rng.getrandbits(32)

    @classmethod
    def from_desc(cls, j, idx=0):
        sc = cls.__new__(cls)
        sc.idx = idx
        sc.disks = [d.encode('latin1') for d in j['disks']]
        sc.trees = {d.encode('latin1'): [(s.encode('latin1'), k) for s, k in t] for d, t in j['trees'].items()}
        sc.nohidden = j['nohidden']
        sc.rules = [(i == 'include', t.encode('latin1')) for i, t in j['rules']]
        sc.sel = [([p.encode('latin1') for p in f], [p.encode('latin1') for p in d]) for f, d in j['selections']]
        sc.bad_rule = j.get('bad_rule')
        sc.hard = {d.encode('latin1'): {a.encode('latin1'): b.encode('latin1') for a, b in h.items()} for d, h in j.get('hard', {}).items()}
        for d in sc.disks:
            sc.hard.setdefault(d, {})
        sc.rules2 = [(i == 'include', t.encode('latin1')) for i, t in j['rules2']] if j.get('rules2') is not None else None
        sc.rngstate = j.get('rngstate', 0)
        return sc

    def describe(self):
        return {'bad_rule': self.bad_rule, 'rngstate': self.rngstate,
                'hard': {d.decode('latin1'): {a.decode('latin1'): b.decode('latin1') for a, b in h.items()} for d, h in self.hard.items()},
                'rules2': [[('include' if i else 'exclude'), t.decode('latin1')] for i, t in self.rules2] if self.rules2 is not None else None,
                'disks': [d.decode('latin1') for d in self.disks],
                'trees': {d.decode('latin1'): [[s.decode('latin1'), k] for s, k in t] for d, t in self.trees.items()},
                'nohidden': self.nohidden,
                'rules': [[('include' if i else 'exclude'), t.decode('latin1')] for i, t in self.rules],
                'selections': [[[p.decode('latin1') for p in f], [p.decode('latin1') for p in d]] for f, d in self.sel]}

    def rule_tokens(self):
        return [('i' if i else 'e') + hx(t) for i, t in self.rules]


def symlink_target(sc, d, sub, n):
    """what a generated symlink points to: nothing that exists (dangling), or a regular file of the same disk (valid)"""
    regular = [s for s, k in sc.trees[d] if k == 'f' and not s.startswith(b'content')]
    if n % 2 == 0 or not regular:
        return b'target'
    return b'../' * sub.count(b'/') + regular[n % len(regular)]


def materialize(root, sc, only=None):
    """create the trees; files hold a few bytes (one in eight is empty)"""
    for d in sc.disks:
        base = os.path.join(root, d.decode('latin1')).encode('latin1')
        os.makedirs(base, exist_ok=True)
        for n, (sub, k) in enumerate(sc.trees[d]):
            if only is not None and (d, sub) not in only:
                continue
            p = os.path.join(base, sub)
            if k in ('d', 'e'):
                os.makedirs(p, exist_ok=True)
            else:
                os.makedirs(os.path.dirname(p), exist_ok=True)
                if k == 'l':
                    if not os.path.lexists(p):
                        os.symlink(symlink_target(sc, d, sub, n), p)
                elif k == 's':
                    if not os.path.lexists(p):
                        os.mkfifo(p)
                elif k == 'h':
                    if not os.path.lexists(p):
                        os.link(os.path.join(base, sc.hard[d][sub]), p)
                else:
                    with open(p, 'wb') as f:
                        if n % 8 != 7:
                            f.write(b'%d:' % n + sub[:40] + b'\n')
                        if n % 5 == 1:
                            f.write(bytes((n * 7 + i) & 255 for i in range(2500)))     # three blocks


def write_conf(root, sc, rules=None):
    conf = os.path.join(root, 'conf')
    with open(conf, 'wb') as f:
        f.write(b'blocksize 1\n')
        f.write(('parity %s/p/parity\n2-parity %s/q/parity2\n' % (root, root)).encode())
        f.write(('content %s/c/content\n' % root).encode())
        f.write(('content %s/%s/content\n' % (root, sc.disks[0].decode('latin1'))).encode())
        for d in sc.disks:
            f.write(b'data ' + d + b' ' + root.encode() + b'/' + d + b'\n')
        if sc.nohidden:
            f.write(b'nohidden\n')
        for incl, txt in (sc.rules if rules is None else rules):
            f.write((b'include ' if incl else b'exclude ') + txt + b'\n')
    for x in ('p', 'q', 'c'):
        os.makedirs(os.path.join(root, x), exist_ok=True)
    return conf


def nest(tree):
    """flat (sub, kind) list -> nested {name: (kind, children)}"""
    rootd = {}
    for sub, k in tree:
        comps = sub.split(b'/')
        cur = rootd
        for c in comps[:-1]:
            cur = cur[c][1]
        cur[comps[-1]] = (k, {} if k in ('d', 'e') else None)
    return rootd


KINDWORD = {'f': b'file', 'h': b'file', 'l': b'link', 'd': b'directory', 'e': b'directory', 's': b'special file'}


class ScanResult:
    def __init__(self):
        self.files, self.symlinks, self.dirs = set(), set(), set()
        self.hardlinks = {}          # (disk, sub) -> sub of the name that is the file
        self.msgs = set()            # verbose messages: (b'hidden', path) (b'content', path) (kind word, path, rule text)

    @property
    def links(self):
        return self.symlinks | set(self.hardlinks)

    def key(self):
        return (self.files, self.symlinks, self.hardlinks, self.dirs)


def expected_scan(sc, root, decide, rules=None):
    """walk as scan_sub does (scan.c:1302-1529) with --test-force-order-alpha: entries of a directory in byte order,
    directories entered when met.  decide(disk, sub, name, isdir) -> falsy when the entry is kept, else
    ('hidden',) ('content',) ('rule', index).  Special files are never stored and do not make a directory non-empty;
    the first accepted name of an inode is the file, later ones are hard links."""
    rules = sc.rules if rules is None else rules
    res = ScanResult()

    def scan(disk, entries, prefix, seen):
        processed = False
        for name in sorted(entries):
            k, ch = entries[name]
            sub = prefix + name
            isdir = k in ('d', 'e')
            why = decide(disk, sub, name, isdir)
            path = root.encode() + b'/' + disk + b'/' + sub
            if why:
                if why[0] == 'rule':
                    incl, txt = rules[why[1]]
                    res.msgs.add((KINDWORD[k], path, (b'include ' if incl else b'exclude ') + txt))
                else:
                    res.msgs.add((why[0].encode(), path))
                continue
            if isdir:
                if not scan(disk, ch, sub + b'/', seen):
                    res.dirs.add((disk, sub))
                processed = True
            elif k == 'l':
                res.symlinks.add((disk, sub))
                processed = True
            elif k == 's':
                pass
            else:
                gid = sc.hard[disk].get(sub, sub)
                if gid in seen:
                    res.hardlinks[(disk, sub)] = seen[gid]
                else:
                    seen[gid] = sub
                    res.files.add((disk, sub))
                processed = True
        return processed
    for d in sc.disks:
        scan(d, nest(sc.trees[d]), b'', {})
    return res


def ref_decider(sc, root, rules=None):
    """the independent reading of the documentation"""
    rules = [g.RefRule(i, t) for i, t in (sc.rules if rules is None else rules)]
    d1 = root.encode() + b'/' + sc.disks[0] + b'/'
    contents = set()
    for c in (root.encode() + b'/c/content', d1 + b'content'):
        contents.update([c, c + b'.tmp', c + b'.lock'])

    def decide(disk, sub, name, isdir):
        if sc.nohidden and name.startswith(b'.'):
            return ('hidden',)
        if root.encode() + b'/' + disk + b'/' + sub in contents:
            return ('content',)
        ex, idx = g.ref_decide_reason(rules, sub, isdir, default_include=isdir)
        return ('rule', idx) if ex else None
    return decide


def table_decider(tab):
    """decide() from the answers of the 'why' command of the model / of the C unit driver"""
    def decide(disk, sub, name, isdir):
        o = tab[(disk, sub)]
        if o == '0':
            return None
        if o == 'h':
            return ('hidden',)
        if o == 'c':
            return ('content',)
        return ('rule', int(o[1:]) if o[1:] != '-' else -1)
    return decide


def model_lines_scan(sc, root, rules=None):
    """one 'why' line per tree entry for the extracted model / the C unit driver"""
    lines, keys = [], []
    rt = [('i' if i else 'e') + hx(t) for i, t in (sc.rules if rules is None else rules)]
    ct = ['c' + hx(root.encode() + b'/c/content'), 'c' + hx(root.encode() + b'/' + sc.disks[0] + b'/content')]
    for d in sc.disks:
        dirp = root.encode() + b'/' + d + b'/'
        for sub, k in sc.trees[d]:
            name = sub.split(b'/')[-1]
            isdir = k in ('d', 'e')
            lines.append('why %d %d %s %s %s %s %s' % (sc.nohidden, isdir, hx(name), hx(d), hx(dirp), hx(sub), ' '.join(rt + ct)))
            keys.append((d, sub))
    return lines, keys


import re as _re
_RX_RULE = _re.compile(rb"^Excluding (file|link|directory|special file) '(.*)' for rule '(.*)'$")
_RX_PLAIN = _re.compile(rb"^Excluding (hidden|content) '(.*)'$")


def parse_verbose(out):
    """the 'Excluding ...' lines of sync -v"""
    msgs = set()
    for line in out.split(b'\n'):
        m = _RX_RULE.match(line)
        if m:
            msgs.add((m.group(1), m.group(2), m.group(3)))
            continue
        m = _RX_PLAIN.match(line)
        if m:
            msgs.add((m.group(1), m.group(2)))
    return msgs


def ref_selected(sc, fpat, dpat, disk, sub, isdir):
    """True = selected (not excluded) by -f / -d, by the documentation"""
    if dpat:
        m = [g.ref_match(p, disk, False) for p in dpat]
        if not any(m):
            return False
    if fpat:
        rules = [g.RefRule(True, t) for t in fpat]
        r = g.ref_decide(rules, sub, isdir, default_include=False)
        if r is None:
            return None
        if r:
            return False
    return True


def sel_line(fpat, dpat, missing, error, kind, present, hasbad, disk, sub):
    kind = 'l' if kind == 'h' else kind        # hard links are links for state_filter
    toks = ['i' + hx(t) for t in fpat] + ['D' + hx(t) for t in dpat]
    return 'sel %d %d %s %d %d %s %s %s' % (missing, error, kind, present, hasbad, hx(disk), hx(sub), ' '.join(toks))


def run_tool(tool, root, args, log=None):
    cmd = [tool] + FLAGS + ['-c', os.path.join(root, 'conf')]
    if log:
        try:
            os.remove(log)
        except FileNotFoundError:
            pass
        cmd += ['-l', log]
    cmd += args
    r = subprocess.run(cmd, stdout=subprocess.PIPE, stderr=subprocess.STDOUT, cwd=root,
                       env=dict(os.environ, LC_ALL='C', TZ='UTC'), timeout=120)
    return r.returncode, r.stdout


def wipe_data(root, sc, keep=()):
    """remove everything below the data roots except the content copy on the first disk"""
    for d in sc.disks:
        base = os.path.join(root.encode(), d)
        for name in os.listdir(base):
            if d == sc.disks[0] and name == b'content':
                continue
            p = os.path.join(base, name)
            if os.path.isdir(p) and not os.path.islink(p):
                shutil.rmtree(p)
            else:
                os.remove(p)


def fs_present(root, sc):
    """files and links present below the data roots -> set of (disk, sub)"""
    out = set()
    for d in sc.disks:
        base = os.path.join(root.encode(), d)
        for dp, dn, fn in os.walk(base):
            for f in fn:
                sub = os.path.relpath(os.path.join(dp, f), base)
                if d == sc.disks[0] and sub in (b'content', b'content.lock', b'content.tmp'):
                    continue
                out.add((d, sub))
            for x in list(dn):
                if os.path.islink(os.path.join(dp, x)):
                    out.add((d, os.path.relpath(os.path.join(dp, x), base)))
    return out


def fmt(keys):
    return sorted('%s:%s' % (d.decode('latin1'), s.decode('latin1')) for d, s in keys)
