"""C18 "nothing outside the selection is written": selection runs of fix/check (-m -f -d -e and combinations) on
arrays where things OUTSIDE the selection are damaged too: a silent error in a used parity block, a lost 2-parity
file, a silently damaged data file that is not selected, a deleted file that is not selected.
Oracle: a byte snapshot of every data file and of every parity file (existence, size, bytes) before and after;
only selected elements may change, and a parity file may change or be (re)created only when the selection keeps
it (manual, -d: "You can also specify parity disks"; state_filter: without -d, any -f or -m leaves the parity
alone).  The same rule is evaluated by the extracted model (parity_excluded, sel_excluded)."""
import os, shutil, random, collections
import c18_gen as g
import c18_cmd as cm
from common import run_lines

PNAMES = [b'parity', b'2-parity']
PFILES = {b'parity': 'p/parity', b'2-parity': 'q/parity2'}
DISKS = [b'd1', b'd2']


def hx(b):
    return b.hex() if b else '-'


class Layout:
    """one-block files: with --test-force-order-alpha the k-th file (depth-first, alphabetical) of each disk is in stripe k"""

    @classmethod
    def from_seed(cls, seed, idx=0):
        class _R:
            def getrandbits(self, n):
                return seed
        return cls(_R(), idx)

    def __init__(self, rng, idx):
        self.idx = idx
        self.seed = rng.getrandbits(32)
        r = random.Random(self.seed)
        n = r.choice([6, 7, 8])
        self.files = {}
        for d, stem in ((b'd1', b'f'), (b'd2', b'g')):
            names = []
            for k in range(n):
                nm = stem + b'%d' % k + r.choice([b'.c', b'.txt', b'', b' x', b'[1]'])
                if k < 2:
                    nm = b'a/' + nm
                elif k < 4:
                    nm = (b'b/' if k == 2 else r.choice([b'b/', b'b/sub/'])) + nm
                else:
                    nm = b'k' + nm              # sorts after the directories a, b
                names.append(nm)
            self.files[d] = names
        self.n = n
        st = list(range(n))
        r.shuffle(st)
        # distinct stripes for every damage
        self.s_missing1, self.s_missing2, self.s_parity, self.s_damaged, self.s_missing_d2 = st[:5]
        self.variants = None

    def content(self, d, k):
        r = random.Random(self.seed * 31 + k * 7 + (1 if d == b'd1' else 2))
        return bytes(r.getrandbits(8) for _ in range(r.choice([1024, 1024, 700, 1000])))

    def describe(self):
        return {'kind': 'damaged-array selection', 'seed': self.seed, 'idx': self.idx,
                'files': {d.decode(): [x.decode('latin1') for x in v] for d, v in self.files.items()},
                'deleted': ['d1:' + self.files[b'd1'][self.s_missing1].decode('latin1'), 'd1:' + self.files[b'd1'][self.s_missing2].decode('latin1'),
                            'd2:' + self.files[b'd2'][self.s_missing_d2].decode('latin1')],
                'silently_damaged_data': 'd2:' + self.files[b'd2'][self.s_damaged].decode('latin1'),
                'silent_error_in_parity_stripe': self.s_parity, 'lost': '2-parity file'}


def build(root, lay):
    for x in ('p', 'q', 'c', 'd1', 'd2'):
        os.makedirs(os.path.join(root, x))
    for d in DISKS:
        for k, nm in enumerate(lay.files[d]):
            p = os.path.join(root.encode(), d, nm)
            os.makedirs(os.path.dirname(p), exist_ok=True)
            with open(p, 'wb') as f:
                f.write(lay.content(d, k))
    with open(os.path.join(root, 'conf'), 'w') as f:
        f.write('blocksize 1\nparity %s/p/parity\n2-parity %s/q/parity2\ncontent %s/c/content\ndata d1 %s/d1\ndata d2 %s/d2\n' % ((root,) * 5))


def snapshot(root):
    """{relative path: bytes} of every data file and parity file"""
    out = {}
    for top in ('d1', 'd2', 'p', 'q'):
        base = os.path.join(root, top)
        for dp, dn, fn in os.walk(base):
            for f in fn:
                p = os.path.join(dp, f)
                out[os.path.relpath(p, root)] = open(p, 'rb').read()
    return out


def damage(root, lay, with_missing=True):
    def path(d, k):
        return os.path.join(root.encode(), d, lay.files[d][k])
    if with_missing:
        os.remove(path(b'd1', lay.s_missing1))
        os.remove(path(b'd1', lay.s_missing2))
        os.remove(path(b'd2', lay.s_missing_d2))
        os.remove(os.path.join(root, 'q/parity2'))
    # silent damage of a data file: same size, same time stamp
    p = path(b'd2', lay.s_damaged)
    st = os.lstat(p)
    with open(p, 'r+b') as f:
        f.seek(3)
        f.write(b'SILENTLY-DAMAGED')
    os.utime(p, ns=(st.st_atime_ns, st.st_mtime_ns))
    # silent error in a used parity block
    with open(os.path.join(root, 'p/parity'), 'r+b') as f:
        f.seek(1024 * lay.s_parity + 100)
        f.write(b'SILENT-CORRUPTION')


def restore_tree(src, dst):
    for top in ('d1', 'd2', 'p', 'q', 'c'):
        shutil.rmtree(os.path.join(dst, top), ignore_errors=True)
        shutil.copytree(os.path.join(src, top), os.path.join(dst, top), symlinks=True)


def key_of(rel):
    top, sub = rel.split('/', 1)
    return (top.encode(), sub.encode('latin1', 'surrogateescape') if isinstance(sub, str) else sub)


def variants_for(lay, rng):
    f1 = lay.files[b'd1']
    m1 = f1[lay.s_missing1]
    pat_m1 = b'/' + g.glob_escape(m1)
    pat_dir = b'a/' if m1.startswith(b'a/') else (b'b/' if m1.startswith(b'b/') else b'kf*')
    allv = [
        ('fix', [], [], True, False),                       # -m alone: the undelete of the manual
        ('fix', [pat_m1], [], False, False),
        ('fix', [pat_dir], [], False, False),
        ('fix', [], [b'd1'], False, False),
        ('fix', [], [b'parity'], False, False),
        ('fix', [], [b'2-parity'], False, False),
        ('fix', [pat_dir], [], True, False),
        ('fix', [], [b'd1'], True, False),
        ('fix', [], [b'd?', b'2-parity'], True, False),
        ('fix', [b'*.c', b'*.txt'], [b'd2'], False, False),
        ('fix', [], [b'*parity'], False, False),
        ('check', [], [], True, False),
        ('check', [pat_dir], [], False, False),
        ('check', [], [b'parity'], False, False),
        ('check', [], [], False, False),
    ]
    chosen = [allv[0]] + rng.sample(allv[1:], 4)
    return chosen, ('fix', [], [], False, False)


def ref_parity_kept(fpat, dpat, missing, pname):
    """the manual's rule"""
    if dpat:
        return any(g.ref_match(p, pname, False) for p in dpat)
    return not (fpat or missing)


def run_variant(tool, model, root, lay, orig, before, cmd, fpat, dpat, missing, error, problems, cnt, extra_desc=None):
    args = [cmd] + (['-m'] if missing else []) + (['-e'] if error else [])
    for p in fpat:
        args += ['-f', p]
    for p in dpat:
        args += ['-d', p]
    log = os.path.join(root, 'run.log')
    rc, out = cm.run_tool(tool, root, args, log=log)
    lg = cm.parse_log(log)
    after = snapshot(root)
    desc = dict(lay.describe())
    desc.update(extra_desc or {})
    desc['command'] = [a.decode('latin1') if isinstance(a, bytes) else a for a in args]
    shown = ' '.join(desc['command'])

    def bad(tag, what, no_input=False):
        rep = dict(desc)
        rep['output_tail'] = out.decode('latin1')[-500:]
        problems.append((tag, what, rep, no_input))

    # ---- the selection, by the manual and by the model
    elems = [(d, nm) for d in DISKS for nm in lay.files[d]]
    sel_ref = {}
    for d, nm in elems:
        rel = d.decode() + '/' + nm.decode('latin1')
        present = rel in before
        r = cm.ref_selected(None, fpat, dpat, d, nm, False)
        if r and missing and present:
            r = False
        sel_ref[(d, nm)] = r
    lines = [cm.sel_line(fpat, dpat, int(missing), 0, 'f', 1 if (d.decode() + '/' + nm.decode('latin1')) in before else 0, 0, d, nm) for d, nm in elems]
    toks = ' '.join(['i' + hx(t) for t in fpat] + ['D' + hx(t) for t in dpat])
    plines = ['par %d %d %s %s' % (int(missing), int(error), hx(pn), toks) for pn in PNAMES]
    mo = run_lines(model, lines + plines, shards=1)
    sel_mod = {e: o == '0' for e, o in zip(elems, mo[:len(elems)])}
    kept_mod = {pn: o == '0' for pn, o in zip(PNAMES, mo[len(elems):])}
    kept_ref = {pn: ref_parity_kept(fpat, dpat, missing, pn) for pn in PNAMES}
    cnt['damage_runs'] += 1
    cnt['damage_runs_' + cmd] += 1

    changed = sorted(k for k in set(before) | set(after) if before.get(k) != after.get(k))
    cnt['damage_paths_changed'] += len(changed)
    cnt['damage_paths_unchanged'] += len(set(before) | set(after)) - len(changed)
    if cmd == 'check':
        if changed:
            bad('dmg_check_writes', '%s changed %s: check must never write' % (shown, changed))
        return
    drift = []
    for k in changed:
        top = k.split('/', 1)[0]
        if top in ('p', 'q'):
            pn = b'parity' if top == 'p' else b'2-parity'
            what_happened = 'created' if k not in before else ('removed' if k not in after else 'rewritten')
            if not kept_ref[pn]:
                bad('dmg_parity_written', '%s: the %s file was %s (%s -> %s bytes) although the selection leaves the parity alone: '
                    'something outside the selection is written' % (shown, pn.decode(), what_happened, len(before.get(k, b'')) if k in before else 'absent',
                                                                    len(after.get(k, b'')) if k in after else 'absent'))
            elif not kept_mod[pn]:
                drift.append('parity_excluded(%s) = true in the model but the manual keeps it' % pn.decode())
        else:
            d = top.encode()
            nm = k.split('/', 1)[1].encode('latin1')
            if (d, nm) not in sel_ref:
                bad('dmg_stray_file', '%s: unexpected path %s appeared or changed in a data disk' % (shown, k))
            elif sel_ref[(d, nm)] is False:
                bad('dmg_unselected_written', '%s: %s is outside the selection but was %s' %
                    (shown, k, 'created' if k not in before else ('removed' if k not in after else 'rewritten')))
            elif not sel_mod[(d, nm)]:
                drift.append('sel_excluded(%s) = true in the model but the manual selects it' % k)
    for pn in PNAMES:
        if kept_ref[pn] != kept_mod[pn]:
            drift.append('parity %s: manual keeps=%s model keeps=%s' % (pn.decode(), kept_ref[pn], kept_mod[pn]))
    # ---- what is selected and recoverable must be back, with its original bytes
    for (d, nm), s in sel_ref.items():
        rel = d.decode() + '/' + nm.decode('latin1')
        if s and after.get(rel) != orig.get(rel):
            bad('dmg_selected_not_fixed', '%s: %s is selected and recoverable (one failure in its stripe) but was not restored' % (shown, rel))
        if s is not None and s != sel_mod[(d, nm)]:
            drift.append('selection of %s: manual %s model %s' % (rel, s, sel_mod[(d, nm)]))
    # every data file reported as recovered must be selected
    for d, s in lg.get('status_recovered', []):
        if sel_ref.get((d, s)) is False:
            bad('dmg_report', '%s: reports %s:%s as recovered, which is outside the selection' % (shown, d.decode(), s.decode('latin1')))
    if drift:
        bad('dmg_model_drift', 'MODEL-DRIFT (%s): %s' % (shown, '; '.join(drift[:4])), no_input=True)
    if rc != 0 and not any(p[0].startswith('dmg_') for p in problems):
        # an exit code alone is not a C18 matter (unselected damage stays): recorded only
        cnt['damage_fix_nonzero_exit'] += 1


def run_damage_scenario(tool, model, lay, base):
    root = os.path.join(base, 'dmg%d' % lay.idx)
    keep = os.path.join(base, 'dmg%d.keep' % lay.idx)
    healthy = os.path.join(base, 'dmg%d.healthy' % lay.idx)
    problems = []
    cnt = collections.Counter()
    rng = random.Random(lay.seed + 17)
    try:
        os.makedirs(root)
        build(root, lay)
        rc, out = cm.run_tool(tool, root, ['sync'])
        if rc != 0:
            problems.append(('dmg_sync', 'sync failed on the plain array of the damage scenario (exit %d)' % rc,
                             dict(lay.describe(), output_tail=out.decode('latin1')[-400:]), True))
            return problems, cnt
        orig = snapshot(root)
        os.makedirs(healthy)
        restore_tree(root, healthy)
        damage(root, lay)
        os.makedirs(keep)
        restore_tree(root, keep)
        before = snapshot(root)
        chosen, plain = variants_for(lay, rng)
        # sanity of the scenario itself: an unrestricted fix repairs everything (so every damage is real and recoverable)
        rc, out = cm.run_tool(tool, root, ['fix'])
        after = snapshot(root)
        cnt['damage_scenarios'] += 1
        if after != orig:
            diff = sorted(k for k in set(orig) | set(after) if orig.get(k) != after.get(k))
            problems.append(('dmg_plain_fix', 'an unrestricted fix does not bring the damaged array back (%s differ): the scenario is not what it is meant to be' % diff,
                             dict(lay.describe(), output_tail=out.decode('latin1')[-400:]), True))
            return problems, cnt
        cnt['damage_plain_fix_repairs_all'] += 1
        for cmd, fpat, dpat, missing, error in chosen:
            restore_tree(keep, root)
            run_variant(tool, model, root, lay, orig, before, cmd, fpat, dpat, missing, error, problems, cnt)

        # ---- -e : silent damage only, scrub marks the stripes bad, then -e with and without -f
        restore_tree(healthy, root)
        damage(root, lay, with_missing=False)
        rc, out = cm.run_tool(tool, root, ['scrub', '-p', 'full'])
        if b'marked as bad' in out:
            shutil.rmtree(keep)
            os.makedirs(keep)
            restore_tree(root, keep)
            before_e = snapshot(root)
            dmg_name = lay.files[b'd2'][lay.s_damaged]
            for cmd, fpat, opt in (('fix', [b'/' + g.glob_escape(dmg_name)], '-e'), ('fix', [b'nothing-has-this-name'], '-e'), ('fix', [], '-e'),
                                   ('check', [], '-e'),
                                   # -b: as -e, and only the blocks marked bad are processed (check.c block_is_enabled)
                                   ('fix', [b'/' + g.glob_escape(dmg_name)], '-b'), ('fix', [], '-b'), ('check', [b'*'], '-b')):
                restore_tree(keep, root)
                run_variant_error(tool, model, root, lay, orig, before_e, cmd, fpat, problems, cnt, opt)
            cnt['damage_error_scenarios'] += 1
        else:
            cnt['damage_error_scrub_did_not_mark'] += 1
    except Exception:
        import traceback
        problems.append(('dmg_harness', 'harness error in damage scenario: %s' % traceback.format_exc()[-800:], lay.describe(), True))
    finally:
        shutil.rmtree(root, ignore_errors=True)
        shutil.rmtree(keep, ignore_errors=True)
        shutil.rmtree(healthy, ignore_errors=True)
    return problems, cnt


def run_variant_error(tool, model, root, lay, orig, before, cmd, fpat, problems, cnt, opt='-e'):
    """-e [-f pat] after a scrub marked the damaged stripes: with -f the parity is outside the selection"""
    args = [cmd, opt]
    for p in fpat:
        args += ['-f', p]
    log = os.path.join(root, 'run.log')
    rc, out = cm.run_tool(tool, root, args, log=log)
    after = snapshot(root)
    desc = dict(lay.describe())
    desc['after'] = 'scrub -p full marked the damaged stripes as bad (no file deleted, 2-parity present)'
    desc['command'] = [a.decode('latin1') if isinstance(a, bytes) else a for a in args]
    shown = ' '.join(desc['command'])
    toks = ' '.join('i' + hx(t) for t in fpat)
    mo = run_lines(model, ['par 0 1 %s %s' % (hx(pn), toks) for pn in PNAMES], shards=1)
    kept_mod = {pn: o == '0' for pn, o in zip(PNAMES, mo)}
    kept_ref = {pn: not fpat for pn in PNAMES}
    cnt['damage_runs'] += 1
    cnt['damage_runs_error_%s_%s' % (opt[1:], cmd)] += 1
    changed = sorted(k for k in set(before) | set(after) if before.get(k) != after.get(k))

    def bad(tag, what, no_input=False):
        rep = dict(desc)
        rep['output_tail'] = out.decode('latin1')[-500:]
        problems.append((tag, what, rep, no_input))
    if cmd == 'check':
        if changed:
            bad('dmg_check_writes', '%s changed %s: check must never write' % (shown, changed))
        return
    dmg_rel = 'd2/' + lay.files[b'd2'][lay.s_damaged].decode('latin1')
    for k in changed:
        top = k.split('/', 1)[0]
        if top in ('p', 'q'):
            pn = b'parity' if top == 'p' else b'2-parity'
            if not kept_ref[pn]:
                bad('dmg_parity_written', '%s: the %s file was rewritten although -f leaves the parity alone: something outside the selection is written' % (shown, pn.decode()))
        else:
            d, nm = top.encode(), k.split('/', 1)[1].encode('latin1')
            r = cm.ref_selected(None, fpat, [], d, nm, False)
            if r is False or k != dmg_rel:
                bad('dmg_unselected_written', '%s: %s changed; only files with bad blocks inside the selection may' % (shown, k))
    if kept_ref != kept_mod:
        bad('dmg_model_drift', 'MODEL-DRIFT (%s): parity kept by the manual %s, by the model %s' % (shown, kept_ref, kept_mod), no_input=True)
    if fpat and cm.ref_selected(None, fpat, [], b'd2', lay.files[b'd2'][lay.s_damaged], False):
        if after.get(dmg_rel) != orig.get(dmg_rel):
            bad('dmg_selected_not_fixed', '%s: the damaged file %s is selected and has a bad block but was not repaired' % (shown, dmg_rel))
    if not fpat:
        # -e / -b alone keep the parity: the bad parity block and the damaged file are repaired
        if after.get('p/parity') != orig.get('p/parity') or after.get(dmg_rel) != orig.get(dmg_rel):
            bad('dmg_error_not_fixed', '%s: every block marked bad is selected and the parity is kept, but %s still differ from the synced bytes' %
                (shown, [k for k in ('p/parity', dmg_rel) if after.get(k) != orig.get(k)]))
