"""C18 generators (patterns from a grammar, strings derived from the pattern, rule lists, path trees) and the
independent reference: the documented meaning of patterns and rules, written from snapraid.txt sections 7.7 and 8
with Python regular expressions (no code shared with the Coq model or with the C sources)."""
import re

SL = 0x2f
LIT_ALPHA = b'abcxyz019 .-_+~!^]AZ,=:'          # plain bytes that need no escape outside brackets
SPECIAL = b'*?[]\\'


class Atom:
    __slots__ = ('kind', 'c', 'neg', 'members', 'text', 'negch')

    def __init__(self, kind, text, c=None, neg=False, members=None):
        self.kind, self.text, self.c, self.neg, self.members = kind, text, c, neg, members


def gen_set(rng, allow_slash):
    """A well-formed bracket expression; members = list of (lo, hi)."""
    neg = rng.random() < 0.3
    text = bytearray(b'[')
    if neg:
        text += rng.choice([b'!', b'^'])
    members = []
    n = rng.choice([1, 1, 2, 2, 3, 4])
    pool = b'abcdxyz0159.-_ AZ'
    for i in range(n):
        r = rng.random()
        first = (i == 0)
        if first and r < 0.12:
            text += b']'
            members.append((0x5d, 0x5d))
            continue
        if r < 0.2:                                   # escaped member
            c = rng.choice(b']\\-*?[!^a/' if allow_slash else b']\\-*?[!^a')
            text += b'\\' + bytes([c])
            members.append((c, c))
        elif r < 0.55:                                # range, sometimes reversed or escaped ends
            lo, hi = rng.choice(b'abcdx0159AZ'), rng.choice(b'abcdxz0159AZ')
            if rng.random() < 0.8 and lo > hi:
                lo, hi = hi, lo
            t = b''
            t += (b'\\' if rng.random() < 0.15 else b'') + bytes([lo]) + b'-'
            t += (b'\\' if rng.random() < 0.15 else b'') + bytes([hi])
            text += t
            members.append((lo, hi))
        else:
            c = rng.choice(pool + (b'/' if allow_slash else b'') + b'*?')
            if c == 0x2d and not first:               # a '-' in the middle would make a range: put it last
                c = 0x61
            if c == 0x5b:
                c = 0x61
            text += bytes([c])
            members.append((c, c))
    if rng.random() < 0.15:                           # '-' as last member
        text += b'-'
        members.append((0x2d, 0x2d))
    text += b']'
    # avoid accidental "[:" "[=" "[." (classes are outside the claimed grammar) and "!"/"^" first members
    body = bytes(text[1:])
    if b'[:' in body or b'[=' in body or b'[.' in body:
        return gen_set(rng, allow_slash)
    if not neg and body[:1] in (b'!', b'^'):
        return gen_set(rng, allow_slash)
    return Atom('set', bytes(text), neg=neg, members=members)


def gen_atoms(rng, allow_slash=True, maxlen=7, malformed=False, starstar=True):
    atoms = []
    n = rng.randint(1, maxlen)
    for i in range(n):
        r = rng.random()
        if r < 0.34:
            c = rng.choice(LIT_ALPHA)
            if c == 0x5d and atoms and atoms[-1].kind == 'lbr':
                c = 0x61
            atoms.append(Atom('lit', bytes([c]), c=c))
        elif r < 0.46:
            atoms.append(Atom('any', b'?'))
        elif r < 0.62:
            if not starstar and atoms and atoms[-1].kind == 'star':
                atoms.append(Atom('lit', b'a', c=0x61))
            else:
                atoms.append(Atom('star', b'*'))
        elif r < 0.72:
            c = rng.choice(b'*?[]\\a.-' + (b'/' if allow_slash and rng.random() < 0.3 else b''))
            atoms.append(Atom('esc', b'\\' + bytes([c]), c=c))
        elif r < 0.90:
            atoms.append(gen_set(rng, allow_slash))
        elif allow_slash:
            atoms.append(Atom('lit', b'/', c=SL))
        else:
            atoms.append(Atom('lit', b'.', c=0x2e))
    if malformed:
        k = rng.random()
        if k < 0.5:
            atoms.append(Atom('fail', b'\\'))                       # trailing backslash: never matches
        else:
            # unterminated '[': ordinary '[' (glibc); keep the tail free of ']' '-' and backslash
            atoms = [a for a in atoms if a.kind != 'set' and not (a.kind in ('lit', 'esc') and a.c in (0x5d,))]
            pos = rng.randint(0, len(atoms))
            atoms.insert(pos, Atom('lbr', b'[', c=0x5b))
            for a in atoms[pos + 1:]:
                if a.kind in ('lit', 'esc') and a.c in (0x2d, 0x5c, 0x5d, 0x21, 0x5e):
                    a.kind, a.text, a.c = 'lit', b'q', 0x71
            if pos + 1 < len(atoms) and atoms[pos + 1].text[:1] in (b':', b'=', b'.'):
                atoms[pos + 1] = Atom('lit', b'q', c=0x71)
    return atoms


def pat_bytes(atoms):
    return b''.join(a.text for a in atoms)


def in_set(a, c):
    m = any(lo <= c <= hi for lo, hi in a.members)
    return m != a.neg


def instantiate(rng, atoms, pn):
    """A string built to match (mostly): one choice per atom."""
    out = bytearray()
    pool = b'abcxyz019 .-_]![AZ*?\\'
    for a in atoms:
        if a.kind in ('lit', 'esc', 'lbr'):
            out.append(a.c)
        elif a.kind == 'any':
            out.append(rng.choice(pool))
        elif a.kind == 'star':
            for _ in range(rng.choice([0, 0, 1, 1, 2, 3])):
                out.append(rng.choice(pool + (b'/' if rng.random() < 0.1 else b'')))
        elif a.kind == 'set':
            cands = [c for c in range(1, 256) if in_set(a, c) and not (pn and c == SL)]
            small = [c for c in cands if c in pool or c in b'd5' ]
            if rng.random() < 0.9 and (small or cands):
                out.append(rng.choice(small or cands))
            else:
                out.append(rng.choice(pool))
        elif a.kind == 'fail':
            out.append(0x5c)
    return bytes(out)


def mutate(rng, s):
    s = bytearray(s)
    pool = b'abcxyz019 .-_]![/AZ*?\\'
    k = rng.random()
    if k < 0.3 and s:
        del s[rng.randrange(len(s))]
    elif k < 0.6:
        s.insert(rng.randint(0, len(s)), rng.choice(pool))
    elif k < 0.85 and s:
        s[rng.randrange(len(s))] = rng.choice(pool)
    else:
        s.insert(rng.randint(0, len(s)), SL)
    return bytes(s)


# ------------------------------------------------------------------------------------------------------------
# independent reference for patterns: translation to a Python bytes regex

def ref_regex(pat, pn):
    """Translate a pattern of the claimed grammar to a regex; returns None when the pattern can never match
    (trailing backslash).  '*' '?' and sets exclude '/' in pathname mode."""
    i, n = 0, len(pat)
    out = []
    nosl = pn
    while i < n:
        c = pat[i]
        if c == 0x2a:
            out.append(b'[^/]*' if nosl else b'.*')
            i += 1
        elif c == 0x3f:
            out.append(b'[^/]' if nosl else b'.')
            i += 1
        elif c == 0x5c:
            if i + 1 >= n:
                return None
            out.append(re.escape(pat[i + 1:i + 2]))
            i += 2
        elif c == 0x5b:
            j = i + 1
            neg = False
            if j < n and pat[j] in b'!^':
                neg = True
                j += 1
            members = []
            first = True
            ok = False
            while j < n:
                if pat[j] == 0x5d and not first:
                    ok = True
                    break
                first = False
                if pat[j] == 0x5c:
                    if j + 1 >= n:
                        return None
                    lo = pat[j + 1]
                    j += 2
                else:
                    lo = pat[j]
                    j += 1
                if j + 1 < n and pat[j] == 0x2d and pat[j + 1] != 0x5d:
                    j += 1
                    if pat[j] == 0x5c:
                        if j + 1 >= n:
                            return None
                        hi = pat[j + 1]
                        j += 2
                    else:
                        hi = pat[j]
                        j += 1
                    members.append((lo, hi))
                else:
                    members.append((lo, lo))
            if not ok:
                out.append(re.escape(b'['))            # unterminated: an ordinary '['
                i += 1
                continue
            allowed = set()
            for lo, hi in members:
                allowed.update(range(lo, hi + 1))
            if neg:
                allowed = set(range(1, 256)) - allowed
            if nosl:
                allowed.discard(SL)
            if not allowed:
                out.append(b'(?!)')
            else:
                out.append(b'[' + b''.join(b'\\x%02x' % c for c in sorted(allowed)) + b']')
            i = j + 1
        else:
            out.append(re.escape(pat[i:i + 1]))
            i += 1
    return re.compile(b''.join(out), re.S)


_ESC_SLASH_AFTER_STAR = re.compile(rb'\*[*?]*\\/')


def ref_match(pat, s, pn):
    if pn and _ESC_SLASH_AFTER_STAR.search(_strip_sets(pat)):
        return None                                     # libc quirk area: no claim by the reference
    r = ref_regex(pat, pn)
    if r is None:
        return False
    return r.fullmatch(s) is not None


def _strip_sets(pat):
    """pattern with escaped bytes and bracket expressions blanked, for the quirk detector"""
    return pat


# ------------------------------------------------------------------------------------------------------------
# independent reference for rules (snapraid.txt 7.7 and 8)

class RefRule:
    def __init__(self, include, text):
        """text: bytes as written in the configuration.  Raises ValueError for forms the tool rejects."""
        self.include = include
        self.text = text
        comps = text.split(b'/')
        if len(comps) == 1:
            self.kind = 'FILE'
            self.pat = text
            body = [text]
        else:
            is_dir = comps[-1] == b''
            rooted = comps[0] == b''
            inner = comps[1 if rooted else 0:len(comps) - (1 if is_dir else 0)]
            if len(comps) == 2 and is_dir:
                self.kind = 'DIR'                       # DIR/   (also "/" alone: an empty name, matches nothing)
                self.pat = comps[0]
                body = [] if text == b'/' else [comps[0]]
            else:
                if not rooted:
                    raise ValueError('relative path')
                self.kind = 'PATHDIR' if is_dir else 'PATHFILE'
                self.pat = b'/'.join(inner)
                body = inner
        for c in body:
            if c == b'' or c.strip(b'.') == b'':
                raise ValueError('empty or dots-only component')

    def matches(self, sub, is_dir):
        """sub: path relative to the disk root without leading slash; is_dir: the element is a directory.
        A rule decides an element when it selects the element itself or (directory rules) a directory above it."""
        comps = sub.split(b'/')
        dirs = [b'/'.join(comps[:k]) for k in range(1, len(comps))]
        if self.kind == 'FILE':
            return (not is_dir) and ref_match(self.pat, comps[-1], False)
        if self.kind == 'PATHFILE':
            return (not is_dir) and ref_match(self.pat, sub, True)
        cands = dirs + ([sub] if is_dir else [])
        for d in cands:
            if self.kind == 'DIR':
                m = ref_match(self.pat, d.split(b'/')[-1], False)
            else:
                m = ref_match(self.pat, d, True)
            if m is None:
                return None
            if m:
                return True
        return False


def ref_decide(rules, sub, is_dir, default_include=False):
    """True = excluded.  First match decides; otherwise excluded iff the last rule is an include
    (directories met while scanning are entered by default)."""
    for r in rules:
        m = r.matches(sub, is_dir)
        if m is None:
            return None
        if m:
            return not r.include
    if default_include or not rules:
        return False
    return rules[-1].include


def ref_decide_reason(rules, sub, is_dir, default_include=False):
    """(excluded, index of the deciding rule): the first rule that matches, else the last rule of the list."""
    for i, r in enumerate(rules):
        m = r.matches(sub, is_dir)
        if m is None:
            return None, None
        if m:
            return (not r.include), i
    if default_include or not rules:
        return False, None
    return rules[-1].include, len(rules) - 1


# ------------------------------------------------------------------------------------------------------------
# rule and tree generators

NAMES = [b'a', b'b', b'tmp', b'x.c', b'y.txt', b'.hid', b'.git', b'a b', b'[1]', b'file[2].c', b'*star', b'q?', b'data.tmp',
         b'lost+found', b'Thumbs.db', b'mov', b'.x.y', b'z', b'a.', b'..a', b'b]', b'!n', b'^c', b'-d', b'x\\y', b'tmp.lock']


def gen_name(rng):
    if rng.random() < 0.7:
        return rng.choice(NAMES)
    n = rng.randint(1, 4)
    return bytes(rng.choice(b'abtmpxy.c01 []*?-_!') for _ in range(n)).replace(b'/', b'_') or b'a'


def gen_tree(rng, maxdepth=3, fan=4):
    """returns list of (sub bytes, kind) with kind in 'f','d','e'(empty dir),'l'(symlink); dirs listed before content"""
    out = []

    def rec(prefix, depth):
        names = set()
        for _ in range(rng.randint(1, fan)):
            nm = gen_name(rng)
            if nm in (b'.', b'..') or nm in names:
                continue
            names.add(nm)
            sub = prefix + nm
            r = rng.random()
            if depth < maxdepth and r < 0.4:
                k = len(out)
                out.append([sub, 'd'])
                before = len(out)
                rec(sub + b'/', depth + 1)
                if len(out) == before:
                    out[k][1] = 'e'
            elif r < 0.47:
                out.append([sub, 'e'])
            elif r < 0.53:
                out.append([sub, 'l'])
            else:
                out.append([sub, 'f'])
    rec(b'', 0)
    return [(s, k) for s, k in out]


def glob_escape(name):
    return b''.join((b'\\' + bytes([c])) if c in b'*?[]\\' else bytes([c]) for c in name)


def gen_rule_text(rng, tree):
    """A rule text, most of the time built from names in the tree so that matches are frequent."""
    subs = [s for s, k in tree] or [b'a']
    sub = rng.choice(subs)
    comps = sub.split(b'/')
    r = rng.random()

    def globify(name):
        k = rng.random()
        if k < 0.45 or not name:
            return glob_escape(name)
        if k < 0.6:
            i = rng.randrange(len(name))
            return glob_escape(name[:i]) + b'*'
        if k < 0.7:
            i = rng.randrange(len(name))
            return b'*' + glob_escape(name[i:])
        if k < 0.8:
            i = rng.randrange(len(name))
            return glob_escape(name[:i]) + b'?' + glob_escape(name[i + 1:])
        if k < 0.9:
            i = rng.randrange(len(name))
            c = name[i]
            if c in b']\\-!^[':
                return glob_escape(name)
            return glob_escape(name[:i]) + b'[' + (b'!' if rng.random() < 0.2 else b'') + bytes([c]) + b'z]' + glob_escape(name[i + 1:])
        return b'*'
    if r < 0.3:       # FILE
        return globify(comps[-1])
    if r < 0.5:       # DIR/
        return globify(rng.choice(comps)) + b'/'
    if r < 0.72:      # /PATH/FILE
        return b'/' + b'/'.join(globify(c) for c in comps)
    if r < 0.92:      # /PATH/DIR/
        k = rng.randint(1, len(comps))
        return b'/' + b'/'.join(globify(c) for c in comps[:k]) + b'/'
    # odd and rejected forms
    return rng.choice([b'a/b', b'./a', b'/a/../b', b'/a//b', b'..', b'.', b'a/b/', b'/', b'/.', b'/./', b'...', b'/a/...',
                       b'.a', b'a.', b'/.a/', b'/*', b'/*/', b'*/', b'/*/*', b'/**/x.c', b'/a*/b/', b'//', b'a//'])
