"""C20: what `status` must report, computed from the content file as decoded by harness/py/content.py (independent of
the tool and of the Coq model), and a small editor that installs chosen info words into a content file the tool wrote."""
import struct
import content as cnt

STATE_NUM = {cnt.BLK: 1, cnt.CHG: 2, cnt.REP: 3, cnt.DELETED: 4}


def load(path):
    return cnt.parse(open(path, 'rb').read())


def stripes(st):
    """per stripe: (info or None, [block state number per disk in the order of the map records])"""
    bm = st['blockmax']
    names = [m['name'] for m in st['maps']]
    per = {n: [0] * bm for n in names}
    for n in names:
        d = st['disks'][n]
        for f in d['files']:
            for s, pos, h in f['blocks']:
                per[n][pos] = STATE_NUM[s]
        for pos in d['deleted']:
            if per[n][pos] == 0:
                per[n][pos] = 4
    infos = list(st['info']) + [None] * (bm - len(st['info']))
    return [(infos[i], [per[n][i] for n in names]) for i in range(bm)], names


def word(info):
    if info is None:
        return 0
    return (info['time'] & ~7) | (1 if info['bad'] else 0) | (2 if info['rehash'] else 0) | (4 if info['justsynced'] else 0)


def expected(st):
    """every counter and tag of status, from the decoded content (definitions, not the loop of status.c)"""
    sp, names = stripes(st)
    used = [i for i, (inf, bl) in enumerate(sp) if word(inf) != 0]
    bad = [i for i in used if sp[i][0]['bad']]
    res = {
        'blockmax': len(sp),
        'unsynced': [i for i, (inf, bl) in enumerate(sp) if any(b in (1, 2, 3) for b in bl) and any(b in (2, 3, 4) for b in bl)],
        'bad': bad,
        'has_bad': [len(bad), bad[0] if bad else 0, bad[-1] if bad else 0],
        'rehash': [i for i in used if sp[i][0]['rehash']],
        'unscrubbed': [i for i in used if sp[i][0]['justsynced']],
        'count': len(used),
    }
    lines = []
    for i, (inf, bl) in enumerate(sp):
        u = 'used' if any(b in (1, 2, 3) for b in bl) else ''
        un = 'unsynced' if any(b in (2, 3, 4) for b in bl) else ''
        if word(inf) != 0:
            lines.append('block:%d:%d:%s:%s:%s:%s' % (i, inf['time'] & ~7, u, un, 'bad' if inf['bad'] else '', 'rehash' if inf['rehash'] else ''))
        else:
            lines.append('block_noinfo:%d:%s:%s' % (i, u, un))
    res['block_lines'] = lines
    # the sorted time map with the "new" mark in the lowest bit
    tm = sorted((sp[i][0]['time'] & ~7) | (1 if sp[i][0]['justsynced'] else 0) for i in used)
    it = []
    k = 0
    while k < len(tm):
        j = k
        while j < len(tm) and tm[j] == tm[k]:
            j += 1
        it.append('info_time:%d:%d:%s' % (tm[k] & ~1, j - k, 'new' if tm[k] & 1 else 'scrubbed'))
        k = j
    res['info_time_lines'] = it
    res['timemap'] = tm
    res['model_line'] = 'status %d %s %s' % (len(sp), ','.join(str(word(inf)) for inf, bl in sp) or '-',
                                           ';'.join(','.join(str(bl[k]) for inf, bl in sp) or '-' for k in range(len(names))))
    res['flag_combinations'] = sorted(set((bool(inf['bad']), bool(inf['rehash']), bool(inf['justsynced'])) for inf, bl in sp if word(inf) != 0))
    return res


def days(tm, now):
    def ago(t):
        return 0 if now < t else (now - t) // 86400
    if not tm:
        return None
    return (ago(tm[0]), ago(tm[len(tm) // 2]), ago(tm[-1]))


# ---------------------------------------------------------------------------------------------------------
def _vb(v):
    out = bytearray()
    while v >= 0x80:
        out.append(v & 0x7f)
        v >>= 7
    out.append(v | 0x80)
    return bytes(out)


def encode_info(infos, oldest):
    """the 'i' record as state_write() lays it out: runs of equal info words"""
    out = bytearray(b'i' + _vb(oldest))
    i = 0
    while i < len(infos):
        j = i + 1
        while j < len(infos) and word(infos[j]) == word(infos[i]):
            j += 1
        out += _vb(j - i)
        if word(infos[i]) != 0:
            inf = infos[i]
            out += _vb(1 | (2 if inf['bad'] else 0) | (4 if inf['rehash'] else 0) | (8 if inf['justsynced'] else 0))
            out += _vb(inf['time'] - oldest)
        else:
            out += _vb(0)
        i = j
    return bytes(out)


def install_info(path, new_infos):
    """replace the info record of a content file written by the tool; returns False when the record cannot be located
    (its re-encoding is searched for, which also validates the encoder).  The result is re-read with content.parse."""
    data = open(path, 'rb').read()
    st = cnt.parse(data)
    infos = list(st['info'])
    times = [x['time'] for x in infos if x is not None]
    if not times or len(new_infos) != len(infos):
        return False
    span = None
    for oldest in sorted(set([min(times)] + [min(times) - k for k in range(1, 9)])):
        if oldest < 0:
            continue
        enc = encode_info(infos, oldest)
        k = data.find(enc)
        if k >= 0 and data.find(enc, k + 1) < 0:
            span = (k, k + len(enc))
            break
    if span is None:
        return False
    ntimes = [x['time'] for x in new_infos if x is not None]
    body = data[:span[0]] + encode_info(new_infos, min(ntimes)) + data[span[1]:]
    if body[-5:-4] != b'N':
        return False
    body = body[:-4]
    body += struct.pack('<I', cnt.crc32c(body))
    back = cnt.parse(body)
    if [word(x) for x in back['info']] != [word(x) for x in new_infos]:
        return False
    open(path, 'wb').write(body)
    return True
