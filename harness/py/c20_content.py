"""C20: what `status` must report, computed from the content file as decoded by harness/py/content.py (independent of
the tool and of the Coq model), and a small editor that installs chosen info words into a content file the tool wrote."""
import struct
import content as cnt

STATE_NUM = {cnt.BLK: 1, cnt.CHG: 2, cnt.REP: 3, cnt.DELETED: 4}


def load(path):
    return cnt.parse(open(path, 'rb').read())


def stripes(st):
    """per stripe: (info or None, [block state number per disk in the order of the map records])"""
    bm = st['blockmax']
    names = [m['name'] for m in st['maps']]
    per = {n: [0] * bm for n in names}
    for n in names:
        d = st['disks'][n]
        for f in d['files']:
            for s, pos, h in f['blocks']:
                per[n][pos] = STATE_NUM[s]
        for pos in d['deleted']:
            if per[n][pos] == 0:
                per[n][pos] = 4
    infos = list(st['info']) + [None] * (bm - len(st['info']))
    return [(infos[i], [per[n][i] for n in names]) for i in range(bm)], names


def word(info):
    if info is None:
        return 0
    return (info['time'] & ~7) | (1 if info['bad'] else 0) | (2 if info['rehash'] else 0) | (4 if info['justsynced'] else 0)


def expected(st):
    """every counter and tag of status, from the decoded content (definitions, not the loop of status.c)"""
    sp, names = stripes(st)
    used = [i for i, (inf, bl) in enumerate(sp) if word(inf) != 0]
    bad = [i for i in used if sp[i][0]['bad']]
    res = {
        'blockmax': len(sp),
        'unsynced': [i for i, (inf, bl) in enumerate(sp) if any(b in (1, 2, 3) for b in bl) and any(b in (2, 3, 4) for b in bl)],
        'bad': bad,
        'has_bad': [len(bad), bad[0] if bad else 0, bad[-1] if bad else 0],
        'rehash': [i for i in used if sp[i][0]['rehash']],
        'unscrubbed': [i for i in used if sp[i][0]['justsynced']],
        'count': len(used),
    }
    lines = []
    for i, (inf, bl) in enumerate(sp):
        u = 'used' if any(b in (1, 2, 3) for b in bl) else ''
        un = 'unsynced' if any(b in (2, 3, 4) for b in bl) else ''
        if word(inf) != 0:
            lines.append('block:%d:%d:%s:%s:%s:%s' % (i, inf['time'] & ~7, u, un, 'bad' if inf['bad'] else '', 'rehash' if inf['rehash'] else ''))
        else:
            lines.append('block_noinfo:%d:%s:%s' % (i, u, un))
    res['block_lines'] = lines
    # the sorted time map with the "new" mark in the lowest bit
    tm = sorted((sp[i][0]['time'] & ~7) | (1 if sp[i][0]['justsynced'] else 0) for i in used)
    it = []
    k = 0
    while k < len(tm):
        j = k
        while j < len(tm) and tm[j] == tm[k]:
            j += 1
        it.append('info_time:%d:%d:%s' % (tm[k] & ~1, j - k, 'new' if tm[k] & 1 else 'scrubbed'))
        k = j
    res['info_time_lines'] = it
    res['timemap'] = tm
    res['model_line'] = 'status %d %s %s' % (len(sp), ','.join(str(word(inf)) for inf, bl in sp) or '-',
                                           ';'.join(','.join(str(bl[k]) for inf, bl in sp) or '-' for k in range(len(names))))
    res['flag_combinations'] = sorted(set((bool(inf['bad']), bool(inf['rehash']), bool(inf['justsynced'])) for inf, bl in sp if word(inf) != 0))
    return res


def days(tm, now):
    """ages in days of the oldest / median / newest recorded time (the not-yet-scrubbed mark in the lowest bit is not a time)"""
    def ago(t):
        t &= ~1
        return 0 if now < t else (now - t) // 86400
    if not tm:
        return None
    return (ago(tm[0]), ago(tm[len(tm) // 2]), ago(tm[-1]))


# ---------------------------------------------------------------------------------------------------------
def _vb(v):
    out = bytearray()
    while v >= 0x80:
        out.append(v & 0x7f)
        v >>= 7
    out.append(v | 0x80)
    return bytes(out)


def encode_info(infos, oldest):
    """the 'i' record as state_write() lays it out: runs of equal info words"""
    out = bytearray(b'i' + _vb(oldest))
    i = 0
    while i < len(infos):
        j = i + 1
        while j < len(infos) and word(infos[j]) == word(infos[i]):
            j += 1
        out += _vb(j - i)
        if word(infos[i]) != 0:
            inf = infos[i]
            out += _vb(1 | (2 if inf['bad'] else 0) | (4 if inf['rehash'] else 0) | (8 if inf['justsynced'] else 0))
            out += _vb(inf['time'] - oldest)
        else:
            out += _vb(0)
        i = j
    return bytes(out)


def install_info(path, new_infos):
    """replace the info record of a content file written by the tool; returns False when the record cannot be located
    (its re-encoding is searched for, which also validates the encoder).  The result is re-read with content.parse."""
    data = open(path, 'rb').read()
    st = cnt.parse(data)
    infos = list(st['info'])
    times = [x['time'] for x in infos if x is not None]
    if not times or len(new_infos) != len(infos):
        return False
    span = None
    for oldest in sorted(set([min(times)] + [min(times) - k for k in range(1, 9)])):
        if oldest < 0:
            continue
        enc = encode_info(infos, oldest)
        k = data.find(enc)
        if k >= 0 and data.find(enc, k + 1) < 0:
            span = (k, k + len(enc))
            break
    if span is None:
        return False
    ntimes = [x['time'] for x in new_infos if x is not None]
    body = data[:span[0]] + encode_info(new_infos, min(ntimes)) + data[span[1]:]
    if body[-5:-4] != b'N':
        return False
    body = body[:-4]
    body += struct.pack('<I', cnt.crc32c(body))
    back = cnt.parse(body)
    if [word(x) for x in back['info']] != [word(x) for x in new_infos]:
        return False
    open(path, 'wb').write(body)
    return True


# ---------------------------------------------------------------------------------------------------------
def summary_expected(st):
    """the summary: tags of status that are functions of the content file (file/block/fragment counts, free space
    arithmetic, sizes), as 'key[:disk]' -> value"""
    bs = st['blocksize']
    bm = st['blockmax']
    names = [m['name'] for m in st['maps']]
    pfree = None
    for lev in sorted(st['levels']):
        f = st['levels'][lev]['free']
        pfree = f if pfree is None or f < pfree else pfree
    pfree = pfree or 0
    out = {'block_size': bs, 'parity_block_count': bm, 'parity_block_free_min': pfree}
    tot = {'file_count': 0, 'file_block_count': 0, 'fragmented_file_count': 0, 'excess_fragment_count': 0, 'zerosubsecond_file_count': 0, 'file_size': 0}
    rows = []
    for m in st['maps']:
        n = m['name']
        d = st['disks'][n]
        fc = bc = ff = ef = zs = 0
        size = 0
        latest = 0
        for f in d['files']:
            pos = [p for s, p, h in f['blocks']]
            if f['nsec'] in (0, -1):
                zs += 1
            if pos:
                frag = 0
                for a, b in zip(pos, pos[1:]):
                    if a + 1 != b:
                        frag = 1
                        ef += 1
                ff += frag
                latest = max(latest, pos[-1])
                bc += len(pos)
            fc += 1
            size += f['size']
        by_space = bc + m['free']
        by_parity = bm + pfree
        out.update({'disk_file_count:' + n: fc, 'disk_block_count:' + n: bc, 'disk_fragmented_file_count:' + n: ff, 'disk_excess_fragment_count:' + n: ef,
                    'disk_zerosubsecond_file_count:' + n: zs, 'disk_file_size:' + n: size, 'disk_block_allocated:' + n: latest + 1,
                    'disk_block_total:' + n: m['total'], 'disk_block_free:' + n: m['free'], 'disk_block_max_by_space:' + n: by_space,
                    'disk_block_max_by_parity:' + n: by_parity, 'disk_block_max:' + n: min(by_space, by_parity), 'disk_space_wasted:' + n: (by_space - by_parity) * bs})
        rows.append((fc, ff, ef, n))
        tot['file_count'] += fc; tot['file_block_count'] += bc; tot['fragmented_file_count'] += ff
        tot['excess_fragment_count'] += ef; tot['zerosubsecond_file_count'] += zs; tot['file_size'] += size
    out.update(tot)
    out['parity_size'] = bm * bs
    out['parity_size_max'] = (bm + pfree) * bs
    out['hash'] = st['hash']
    out['prev_hash'] = st['prevhash'] or 'undefined'
    return out, rows + [(tot['file_count'], tot['fragmented_file_count'], tot['excess_fragment_count'], None)]


def graph_expected(tm):
    """the 15 x 70 graph of status, from the sorted time map (lowest bit = not yet scrubbed)"""
    count = len(tm)
    oldest, newest = tm[0], tm[-1]
    pos = 0
    barmax = 0
    sc, nw = [], []
    for i in range(70):
        limit = oldest + (newest - oldest) * (i + 1) // 70
        a = b = 0
        while pos < count and tm[pos] <= limit:
            if tm[pos] & 1:
                b += 1
            else:
                a += 1
            pos += 1
        barmax = max(barmax, a + b)
        sc.append(a)
        nw.append(b)
    rows = []
    for y in range(15):
        if y == 0:
            r = '%3u%%|' % (barmax * 100 // count)
        elif y == 14:
            r = '  0%|'
        elif y == 7:
            r = '%3u%%|' % (barmax * 50 // count)
        else:
            r = '    |'
        for x in range(70):
            up = barmax * (15 - y) // 15
            lo = barmax * (14 - y) // 15
            both = sc[x] + nw[x]
            if both > up:
                r += '*' if sc[x] > lo else 'o'
            elif both > lo:
                r += '*' if sc[x] == both else 'o'
            else:
                r += '_' if y == 14 else ' '
        rows.append(r)
    return rows


def bad_line_expected(sp_bad, n_bad, first, last):
    """'They are from block a to b, specifically at blocks: ...' (at most 101 positions, then ' and N more...')"""
    s = 'They are from block %u to %u, specifically at blocks:' % (first, last)
    printed = 0
    for i in sp_bad:
        s += ' %u' % i
        printed += 1
        if printed > 100:
            s += ' and %u more...' % (n_bad - printed)
            break
    return s


def _bs(b):
    return _vb(len(b)) + b


def install_free(path, disk_free, parity_free):
    """rewrite the recorded total/free block counts of the data disks ('M' records) and of the parity levels ('P' records)
    of a content file written by the tool; the records are located by searching their re-encoding.  False if not found."""
    data = open(path, 'rb').read()
    st = cnt.parse(data)
    body = data
    for m in st['maps']:
        if m['name'] not in disk_free:
            continue
        old = b'M' + _bs(m['name'].encode('latin1')) + _vb(m['pos']) + _vb(m['total']) + _vb(m['free']) + _bs(m['uuid'])
        if body.count(old) != 1:
            return False
        t, f = disk_free[m['name']]
        body = body.replace(old, b'M' + _bs(m['name'].encode('latin1')) + _vb(m['pos']) + _vb(t) + _vb(f) + _bs(m['uuid']))
    for lev, (t, f) in parity_free.items():
        L = st['levels'][lev]
        old = b'P' + _vb(lev) + _vb(L['total']) + _vb(L['free']) + _bs(L['splits'][0]['uuid'])
        if L['splits'][0]['path'] is not None or body.count(old) != 1:
            return False
        body = body.replace(old, b'P' + _vb(lev) + _vb(t) + _vb(f) + _bs(L['splits'][0]['uuid']))
    if body[-5:-4] != b'N':
        return False
    body = body[:-4]
    body += struct.pack('<I', cnt.crc32c(body))
    back = cnt.parse(body)
    for m in back['maps']:
        if m['name'] in disk_free and (m['total'], m['free']) != tuple(disk_free[m['name']]):
            return False
    open(path, 'wb').write(body)
    return True
