"""C20: generation of adversarial trees, the harness's own walk (independent oracle) and small parsers of the
model runner's result lines."""
import os, stat, time, hashlib, re

BLOCK = 1024

FIXED_NAMES = [
    b'a\nb', b'sp ace', b'co:lon', b'back\\slash', b'trail\\', b'\\n', b'\\d\\\\', b'q"uote\'s', b'\xff\xfe\x80', b'\xc3\x28',
    b'\r', b'\n', b' lead', b'tab\there', b'~`#$&*()|[]{};<>?', b'x\r\ny', b': \nsummary:has_bad:9:9:9',
    b'a\n           5 2020/01/01 00:00 b', b'n\n123456789012', b'n\n123456789012 2020', b'-> x', b'a -> b', b'=', b'x = y',
    b'\x01\x02\x1b[31m', b'file:d1:x:1:1:1:1', b'e\\', b'e\\:', b'dup:d1:a:d1:b:1: dup',
]


def gen_names(rng, per_byte=True, extra=20):
    """every byte 1..255 except '/' occurs in some name; plus hand-made and random multi-byte names"""
    names = []
    if per_byte:
        for b in range(1, 256):
            if b == 0x2f:
                continue
            names.append(b'b' + bytes([b]) + b'%d' % b)
    names += FIXED_NAMES
    alphabet = [b'\n', b':', b'\\', b' ', b'\r', b'"', b"'", b'a', b'1', b'\xff', b'n', b'd', b'-', b'>', b'=']
    seen = set(names)
    while extra > 0:
        n = b''.join(rng.choice(alphabet) for _ in range(rng.randrange(1, 9)))
        if n in seen or n in (b'.', b'..'):
            continue
        seen.add(n)
        names.append(n)
        extra -= 1
    return names


class Tree:
    """a generated array: conf, disks, the files written so far"""

    def __init__(self, root, ndisks, pool=True, share=None, nparity=1, hashsize=None):
        self.root = root
        self.disks = [('d%d' % (i + 1), os.path.join(root, 'disk%d' % (i + 1))) for i in range(ndisks)]
        for _, d in self.disks:
            os.makedirs(d)
        os.makedirs(os.path.join(root, 'par'))
        self.pool = os.path.join(root, 'pool')
        os.makedirs(self.pool)
        self.conf = os.path.join(root, 'snapraid.conf')
        self.has_pool = pool
        self.nparity = nparity
        self.hashsize = hashsize
        self.write_conf(share)

    def write_conf(self, share=None):
        """(re)write the configuration, e.g. with another share prefix between two pool runs"""
        with open(self.conf, 'w') as f:
            f.write('blocksize 1\nparity %s/par/p.par\ncontent %s/content\n' % (self.root, self.root))
            if self.hashsize:
                f.write('hashsize %d\n' % self.hashsize)
            for k in range(2, self.nparity + 1):
                f.write('%d-parity %s/par/p%d.par\n' % (k, self.root, k))
            for n, d in self.disks:
                f.write('data %s %s\n' % (n, d))
            if self.has_pool:
                f.write('pool %s\n' % self.pool)
            if share:
                f.write('share %s\n' % share)

    def path(self, di, sub):
        return os.path.join(os.fsencode(self.disks[di][1]), sub)

    def write(self, di, sub, data, mtime_ns):
        p = self.path(di, sub)
        os.makedirs(os.path.dirname(p), exist_ok=True)
        with open(p, 'wb') as f:
            f.write(data)
        os.utime(p, ns=(mtime_ns, mtime_ns))

    def symlink(self, di, sub, target):
        p = self.path(di, sub)
        os.makedirs(os.path.dirname(p), exist_ok=True)
        os.symlink(target, p)

    def hardlink(self, di, sub, existing):
        p = self.path(di, sub)
        os.makedirs(os.path.dirname(p), exist_ok=True)
        os.link(self.path(di, existing), p)


def walk_disk(ddir):
    """what `snapraid sync --test-force-order-alpha` records for a disk: entries of each directory in strcmp order,
    directories entered when met; the first path of an inode is the file, later ones are hard links.
    Returns (files, links): files = [(sub, size, sec, nsec, inode, data)], links = [(kind, sub, target)]"""
    files, links = [], []
    inode_first = {}

    def rec(dpath, prefix):
        for name in sorted(os.listdir(dpath)):
            p = os.path.join(dpath, name)
            st = os.lstat(p)
            sub = prefix + name
            if stat.S_ISDIR(st.st_mode):
                rec(p, sub + b'/')
            elif stat.S_ISLNK(st.st_mode):
                links.append(('symlink', sub, os.readlink(p)))
            elif stat.S_ISREG(st.st_mode):
                if st.st_nlink > 1 and st.st_ino in inode_first:
                    links.append(('hardlink', sub, inode_first[st.st_ino]))
                else:
                    inode_first[st.st_ino] = sub
                    with open(p, 'rb') as f:
                        data = f.read()
                    files.append((sub, st.st_size, st.st_mtime_ns // 10 ** 9, st.st_mtime_ns % 10 ** 9, st.st_ino, data))
    rec(os.fsencode(ddir), b'')
    return files, links


def hx(b):
    return b.hex() if b else '-'


def unhx(s):
    return b'' if s == '-' else bytes.fromhex(s)


def blocks_of(data):
    return [data[i:i + BLOCK] for i in range(0, len(data), BLOCK)]


def state_tokens(disks, unhashed=None):
    """the model runner's state syntax.  disks = [(name, files, links)].  unhashed: set of (disk name, sub, block index)
    whose block has state CHG instead of BLK"""
    toks = []
    for name, files, links in disks:
        toks += ['D', hx(name.encode())]
        for sub, size, sec, nsec, ino, data in files:
            bl = ','.join('%d.%s' % (2 if unhashed and (name, sub, i) in unhashed else 1, hashlib.md5(b).hexdigest())
                          for i, b in enumerate(blocks_of(data))) or '-'
            toks += ['F', hx(sub), str(size), str(sec), str(nsec), str(ino), bl]
        for kind, sub, target in links:
            toks += ['K', kind, hx(sub), hx(target)]
    return toks


def parse_records(out):
    """result of `parselog`: list of tuples ('F', disk, name, size, sec, nsec, inode) / ('L', kind, disk, name, to) /
    ('D', disk, name, disk2, name2, size) / ('O', [fields]) / ('X',)"""
    assert out.startswith('ok'), out[:200]
    body = out[3:]
    res = []
    if not body:
        return res
    for r in body.split('|'):
        f = r.split(',')
        if f[0] == 'F':
            res.append(('F', unhx(f[1]), unhx(f[2]), int(f[3]), int(f[4]), int(f[5]), int(f[6])))
        elif f[0] == 'L':
            res.append(('L', f[1], unhx(f[2]), unhx(f[3]), unhx(f[4])))
        elif f[0] == 'D':
            res.append(('D', unhx(f[1]), unhx(f[2]), unhx(f[3]), unhx(f[4]), int(f[5])))
        elif f[0] == 'O':
            res.append(('O', [unhx(x) for x in f[1:]]))
        else:
            res.append(('X',))
    return res


def parse_trecs(out):
    if not out.startswith('ok'):
        return None
    res = []
    body = out[3:]
    if not body:
        return res
    for r in body.split('|'):
        f = r.split(',')
        if f[0] == 'F':
            res.append(('F', int(f[1]), unhx(f[2]), unhx(f[3]), unhx(f[4])))
        else:
            res.append(('K', f[1], unhx(f[2]), unhx(f[3])))
    return res


def date_tokens(sec):
    t = time.gmtime(sec)
    return (b'%04u/%02u/%02u' % (t.tm_year, t.tm_mon, t.tm_mday), b'%02u:%02u' % (t.tm_hour, t.tm_min))


# independent re-statement of the two inverses (the property, evaluated on the C output)
def py_unesc_tag(b):
    out = bytearray()
    i = 0
    m = {0x6e: 10, 0x72: 13, 0x64: 58, 0x5c: 0x5c}
    while i < len(b):
        if b[i] == 0x5c:
            if i + 1 >= len(b) or b[i + 1] not in m:
                return None
            out.append(m[b[i + 1]])
            i += 2
        else:
            out.append(b[i])
            i += 1
    return bytes(out)


def py_unesc_shell(b):
    out = bytearray()
    i = 0
    while i < len(b):
        if b[i] == 0x5c and i + 1 < len(b):
            out.append(b[i + 1])
            i += 2
        else:
            out.append(b[i])
            i += 1
    return bytes(out)


def cstr(b):
    k = b.find(b'\0')
    return b if k < 0 else b[:k]
