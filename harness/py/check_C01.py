"""C01 -- complete recovery from any loss within the parity level.

   Real arrays synced cleanly; every subset of <= np devices destroyed (small geometries), sampled per-stripe patterns with
   <= np damaged blocks per stripe spread over more than np devices; `fix` then `check`; the judge is the independent
   byte+mtime snapshot taken after the sync.  The extracted model of check.c (coq/Fix/FixModel.v) replays every fix run
   from the real pre-state and must predict the per-file outcomes and the error tags (MODEL-DRIFT otherwise)."""
import os, sys, json, time, shutil, itertools
import concurrent.futures as cf
from common import *
from arraylib import *
from c01_lib import *
import c01_model

# extra geometries (7th field): 'hist' = the synced state is reached through a history (touches, rewrites, deletes, adds,
# several syncs); 'twins' = the same, aimed at stripes mixing touched and rewritten files; 'rehash' = a hash migration is
# in progress (snapraid rehash after the sync; the fix model does not cover the migration: snapshot oracle only)
GEOMS_EXH_QUICK = [  # (nd, np, zmode, hashsize, ncontent, nfiles[, kind])
    (2, 1, False, None, 1, 6), (3, 1, False, 4, 2, 8), (2, 2, False, None, 2, 7), (3, 2, False, None, 1, 10),
    (4, 2, False, 4, 1, 12), (2, 3, True, None, 1, 6), (3, 3, False, None, 1, 9), (2, 4, False, None, 1, 6),
    (2, 6, False, 8, 1, 5), (4, 1, False, None, 3, 20), (3, 3, True, 4, 1, 8), (2, 5, False, None, 1, 4),
    (3, 2, False, None, 1, 8, 'hist'), (2, 2, False, None, 1, 4, 'twins'), (3, 1, False, None, 1, 5, 'twins'), (3, 2, False, None, 1, 8, 'rehash'), (2, 1, False, 8, 1, 6, 'rehash'), (3, 2, False, None, 1, 6, 'rehash_sync'), (3, 2, False, None, 2, 5, 'holes'),
]
GEOMS_EXH_THOROUGH = GEOMS_EXH_QUICK + [
    (4, 3, False, None, 1, 14), (3, 4, False, None, 1, 10), (4, 4, False, 4, 1, 12), (3, 5, False, None, 1, 8), (3, 6, False, None, 1, 8),
    (4, 3, True, None, 2, 16), (2, 2, False, 4, 1, 5), (3, 2, False, None, 3, 1), (4, 6, False, None, 1, 18),
    (2, 2, False, None, 2, 5, 'rehash_sync'), (4, 3, False, None, 1, 10, 'rehash_sync'), (2, 1, False, None, 1, 6, 'holes'), (4, 3, False, 4, 1, 7, 'holes'),
]


class Trial:
    """one synced array, many damage trials (each starting from the exact saved state)"""

    def __init__(self, chk, binary, model, geom, seed):
        self.chk, self.binary, self.model, self.geom, self.seed = chk, binary, model, geom, seed
        nd, np_, z, hs, nc, nf = geom[:6]
        self.kind = geom[6] if len(geom) > 6 else None
        self.rng = random.Random(seed)
        self.arr = Array(binary, nd=nd, np_=np_, zmode=z, hashsize=hs, ncontent=nc)
        if self.kind in ('twins', 'holes'):
            # the same file names and sizes on every disk: every stripe holds a block of every disk
            self.recipe = []
            base = 1700000000 * 10**9
            for k in range(nf):
                size = self.rng.choice([1024, 2048, 3000, 1500])
                for d in self.arr.disks:
                    self.arr.write(d, 'f%d' % k, self.rng.randbytes(size), mtime_ns=base + k * 10**9 + self.rng.randrange(10**9))
                    self.recipe.append(('file', d, 'f%d' % k, size))
        else:
            self.recipe = populate(self.arr, self.rng, nf)
        r = self.arr.run('sync', '--test-force-murmur3')
        if r.rc == 0 and self.kind in ('hist', 'twins'):
            r = self.history()
        if r.rc == 0 and self.kind == 'holes':
            # the files that occupy the same positions on EVERY disk are deleted (one in the middle, the last one) and the array is
            # synced again: fully unused stripes in the middle and at the end of the parity range; sometimes a small file lands in
            # the first position of the middle hole of one disk
            nf_ = geom[5]
            for k in sorted(set([1, nf_ - 1])):
                for d in self.arr.disks:
                    self.arr.remove(d, 'f%d' % k)
                self.recipe.append(('remove_everywhere', 'f%d' % k))
            if self.rng.random() < 0.5:
                self.arr.write(self.arr.disks[0], 'g', self.rng.randbytes(700))
                self.recipe.append(('file', self.arr.disks[0], 'g', 700))
            r = self.arr.run('sync', '--test-force-murmur3')
        if r.rc == 0 and self.kind in ('rehash', 'rehash_sync'):
            r = self.arr.run('rehash')
            self.recipe.append(('rehash', r.rc))
            model = None
            if r.rc == 0 and self.kind == 'rehash_sync':
                # BEFORE the migration is completed a sync adds and rewrites files: their blocks land in stripes still flagged
                # (used by the other disks) as well as in new ones; the other stripes keep the old hash kind
                a = self.arr
                base = 1700001000 * 10**9
                for k, d in enumerate(a.disks):
                    for n in (['n%d' % k, 'sub/n%d' % k] if self.rng.random() < 0.5 else ['n%d' % k]):
                        size = self.rng.choice([700, 1024, 3500, 2048, 5000])
                        a.write(d, n, self.rng.randbytes(size), mtime_ns=base + self.rng.randrange(10**9))
                        self.recipe.append(('file', d, n, size))
                ex = sorted((d, rel) for (d, rel), v in a.snapshot_data().items() if v[0] == 'f' and v[4] == 1 and len(v[1]) > 0 and not rel.startswith(('n', 'sub/n')))
                if ex:
                    d, rel = self.rng.choice(ex)
                    size = self.rng.choice([1024, 3000, 100])
                    a.write(d, rel, self.rng.randbytes(size), mtime_ns=base + self.rng.randrange(10**9))
                    self.recipe.append(('rewrite', d, rel, size))
                r = a.run('sync')
                self.recipe.append(('sync', r.rc))
        self.ok = (r.rc == 0)
        self.ntrials = self.nmodel = self.nblocks_damaged = 0
        self.samples = []
        if not self.ok:
            chk.violation('sync_failed', 'initial sync of a generated array failed: rc=%d %s' % (r.rc, r.err[-200:]), {'geom': geom, 'seed': seed}, no_input=True)
            return
        self.st = self.arr.content()
        self.sv = Saved(self.arr)
        perr, n = self.arr.check_parity(self.st)
        for e in (self.arr.check_map(self.st) + perr)[:2]:
            chk.violation('sync_inv', 'after the initial sync: %s' % e, {'geom': geom, 'seed': seed, 'recipe': self.recipe})
            self.ok = False
        self.stripes, self.order = self.arr.stripes(self.st)
        self.mb = c01_model.ModelSide(self.arr, self.st, model) if (model and self.kind not in ('rehash', 'rehash_sync')) else None

    def history(self):
        """1-2 rounds of changes followed by a full sync: files touched (same bytes, new time-stamp), rewritten with the same or
        another size, removed, added; the final state is again 'synced cleanly'"""
        a, rng = self.arr, self.rng
        r = None
        for rd in range(rng.randint(1, 2)):
            files = sorted((d, rel) for (d, rel), v in a.snapshot_data().items() if v[0] == 'f' and v[4] == 1)
            first_changed = False
            for (d, rel) in files:
                p = a.path(d, rel)
                c = rng.random()
                if self.kind == 'twins':
                    # the first disk's copy really changes, the others are only touched (or the other way round)
                    really = (d == a.disks[0]) if rd % 2 == 0 else (d == a.disks[-1])
                    c = 0.5 if really else 0.1
                    if rng.random() < 0.25:
                        c = 0.95
                if c < 0.3:
                    st = os.stat(p)
                    os.utime(p, ns=(st.st_mtime_ns + 10**9, st.st_mtime_ns + 10**9))
                    a.note_version(d, rel)
                    self.recipe.append(('touch', d, rel))
                elif c < 0.6:
                    st = os.stat(p)
                    size = st.st_size if rng.random() < 0.7 else rng.choice(SIZES)
                    a.write(d, rel, rng.randbytes(size), mtime_ns=st.st_mtime_ns + 2 * 10**9)
                    self.recipe.append(('rewrite', d, rel, size))
                elif c < 0.7:
                    a.remove(d, rel)
                    self.recipe.append(('remove', d, rel))
            for k in range(rng.randint(0, 2)):
                d = rng.choice(a.disks)
                size = rng.choice(SIZES)
                a.write(d, 'n%d_%d' % (rd, k), rng.randbytes(size))
                self.recipe.append(('add', d, 'n%d_%d' % (rd, k), size))
            for (d, n) in list(a.store):
                a.store[(d, os.fsencode(n).decode('latin1'))] = a.store[(d, n)]
            r = a.run('sync', '--force-empty', '--force-zero')
            self.recipe.append(('sync', r.rc))
            if r.rc != 0:
                break
        return r

    def geomstr(self):
        nd, np_, z, hs, nc, nf = self.geom[:6]
        return 'nd=%d np=%d%s hash=%s content_copies=%d%s' % (nd, np_, ' z' if z else '', hs or 16, nc, (' ' + self.kind) if self.kind else '')

    # -------------------------------------------------------------------------------------------
    def judge(self, label, desc, replay):
        """fix, then check, against the snapshot"""
        a, chk = self.arr, self.chk
        self.ntrials += 1
        pred = None
        if self.mb:
            try:
                pred = self.mb.predict('fix', [])
            except Exception as e:
                chk.violation('model_error', 'the fix model could not be run: %s' % e, replay, no_input=True)
        r = a.run('fix')
        tags = interesting(r.tags)
        bad = []
        if r.rc != 0:
            bad.append('fix exits %d (%s)' % (r.rc, (r.err.strip().splitlines() or [''])[-1][:120]))
        unrec = [t for t in tags if t.startswith(('unrecoverable:', 'status:unrecoverable'))]
        if unrec:
            bad.append('fix reports %s' % unrec[0])
        bad += compare_with_saved(a, self.sv, self.st)[:3]
        # a file that grew is cut back AND reported recovered (FIXED is set by the truncation since 993feac)
        for d, rel in getattr(self, 'grown', []):
            if not any(t.startswith('status:recovered:%s:' % d) and t[len('status:recovered:%s:' % d):].replace('\\', '') == os.fsencode(rel).decode('latin1') for t in tags):
                bad.append('%s:%s grew and was cut back by fix but is not reported `status:recovered`' % (d, rel))
        self.grown = []
        r2 = a.run('check')
        t2 = [t for t in interesting(r2.tags) if not t.startswith('summary:')]
        if r2.rc != 0 or t2:
            bad.append('check after fix exits %d and reports %s' % (r2.rc, t2[:2]))
        perr, n = a.check_parity(self.st)
        if perr:
            bad.append('after fix the independent parity checker says: %s' % perr[0])
        for pf, saved in sorted(self.sv.parity.items()):
            now_size = os.path.getsize(pf) if os.path.exists(pf) else None
            if saved is not None and now_size != len(saved):
                bad.append('after fix the parity file %s has %s bytes, the synced one had %d' % (os.path.basename(pf), now_size, len(saved)))
        for b in bad[:2]:
            chk.violation(label, '%s, damage within the parity level (%s): %s' % (self.geomstr(), '; '.join(desc)[:300], b),
                          dict(replay, fix_rc=r.rc, fix_tags=tags[:60], problems=bad))
        if pred is not None and not bad:
            self.nmodel += 1
            d = self.mb.compare(pred, r, 'fix')
            if d:
                chk.violation('drift_' + label, 'MODEL-DRIFT: the fix model disagrees with the real fix (which satisfies the property here): %s' % d[0],
                              dict(replay, diffs=d[:6], fix_tags=tags[:60]), no_input=True)
        if len(self.samples) < 2 and desc:
            self.samples.append({'geom': self.geomstr(), 'damage': desc[:6], 'fix_rc': r.rc, 'check_rc': r2.rc})
        return not bad

    def second_fix(self, tseed):
        """coverage round: a file lost together with ALL the parity is unrecoverable: fix recreates it, cannot fill it and renames it
        to <name>.unrecoverable; once the parity is back a second fix must take the .unrecoverable file back under its name
        (handle_create) and restore everything"""
        a, chk = self.arr, self.chk
        restore(a, self.sv)
        rng = random.Random(tseed)
        files = [(d, f) for d, dd in sorted(self.st['disks'].items()) for f in dd['files'] if f['size'] > a.bs]
        if not files:
            return True
        d, f = rng.choice(files)
        rel = sub2rel(f['sub'])
        p = a.path(d, rel)
        if not os.path.isfile(p) or os.stat(p).st_nlink > 1:
            return True
        os.unlink(p)
        for l in range(a.np):
            for pf in a.parity_files[l]:
                if os.path.exists(pf):
                    os.unlink(pf)
        self.ntrials += 1
        r1 = a.run('fix')
        desc = ['rm %s:%s and every parity file; fix (exit %d); parity files restored; fix' % (d, rel, r1.rc)]
        replay = {'kind': 'second_fix', 'geom': self.geom, 'seed': self.seed, 'trial_seed': tseed, 'recipe': self.recipe, 'damage': desc}
        bad = []
        if r1.rc == 0 or not os.path.exists(p + '.unrecoverable'):
            bad.append('the first fix (file and all parity lost) exits %d and %s.unrecoverable %s' % (r1.rc, rel, 'exists' if os.path.exists(p + '.unrecoverable') else 'does not exist'))
        restore(a, self.sv, what=('parity',))
        r = a.run('fix')
        tags = interesting(r.tags)
        if r.rc != 0:
            bad.append('the second fix exits %d (%s)' % (r.rc, (r.err.strip().splitlines() or [''])[-1][:120]))
        bad += compare_with_saved(a, self.sv, self.st)[:3]
        r2 = a.run('check')
        t2 = [t for t in interesting(r2.tags) if not t.startswith('summary:')]
        if r2.rc != 0 or t2:
            bad.append('check after the second fix exits %d and reports %s' % (r2.rc, t2[:2]))
        for b in bad[:2]:
            chk.violation('second_fix', '%s, %s: %s' % (self.geomstr(), desc[0], b), dict(replay, fix_rc=r.rc, fix_tags=tags[:40], problems=bad))
        return not bad

    def objects_trial(self, tseed):
        """coverage round: the entries checked after the stripes, damaged on EVERY data disk at once (they need no parity): empty
        files filled, hard link names turned into independent copies, plus removed links and dirs"""
        a = self.arr
        restore(a, self.sv)
        rng = random.Random(tseed)
        desc = []
        self.grown = []
        for d in a.disks:
            done = damage_data_disk(a, d, 'objects', rng) + damage_data_disk(a, d, 'rmlinks', rng)
            if done:
                desc.append('%s[objects]: ' % d + ', '.join(done)[:200])
        replay = {'kind': 'objects', 'geom': self.geom, 'seed': self.seed, 'trial_seed': tseed, 'recipe': self.recipe, 'damage': desc}
        # check (no fix) must notice every such damage: non-zero exit and one error line per damaged entry kind
        r0 = a.run('check')
        t0 = [t for t in interesting(r0.tags) if t.startswith(('error:', 'hardlink_error:', 'symlink_error:', 'dir_error:'))]
        if desc and (r0.rc == 0 or not t0):
            self.chk.violation('objects_check', '%s, damaged entries (%s): check exits %d and reports %s' % (self.geomstr(), '; '.join(desc)[:300], r0.rc, t0[:2]), dict(replay, check_tags=t0[:20]))
        return self.judge('objects', desc or ['no damage'], replay)

    def parity_rebuild_trials(self):
        """every parity level lost or truncated alone (the array has fully unused stripes in the middle and at the end of the parity
        range), rebuilt by fix: judged as every trial (bytes, independent parity recomputation of every used stripe, exact parity
        sizes, check quiet) and then a FOLLOWING loss of as many data disks as there are levels must still be recovered"""
        a, chk = self.arr, self.chk
        for l in range(a.np):
            for kind in ('delete', 'truncate'):
                restore(a, self.sv)
                rng = random.Random(self.rng.getrandbits(32))
                self.grown = []
                desc = damage_parity(a, l, kind, rng)
                replay = {'kind': 'parity_rebuild', 'geom': self.geom, 'seed': self.seed, 'recipe': self.recipe, 'damage': desc}
                if not self.judge('parity_rebuild', desc or ['%s %s' % (kind, levname(a, l))], replay):
                    continue
                lost = a.disks[:min(a.np, a.nd)]
                for d in lost:
                    wipe_disk(a, d)
                self.ntrials += 1
                r = a.run('fix')
                bad = (['fix exits %d' % r.rc] if r.rc else []) + compare_with_saved(a, self.sv, self.st)[:2]
                for b in bad[:1]:
                    chk.violation('parity_rebuild_then_loss', '%s, %s rebuilt by fix, then the data disks %s lost: %s' % (self.geomstr(), '; '.join(desc)[:200], lost, b),
                                  dict(replay, lost=lost, problems=bad, fix_tags=interesting(r.tags)[:30]))
                if len(chk.violations) > 8:
                    return

    def apply_devices(self, subset, rng):
        a = self.arr
        desc = []
        self.grown = []
        for kind, dev in subset:
            if kind == 'd':
                k = rng.choice(DATA_KINDS)
                done = damage_data_disk(a, dev, k, rng)
                self.grown += [(dev, x[len('grow '):x.rindex(' by ')]) for x in done if x.startswith('grow ')]
                desc += ['%s[%s]: ' % (dev, k) + ', '.join(done)[:200]]
            else:
                k = rng.choice(PAR_KINDS)
                desc += damage_parity(a, dev, k, rng)
        # content copies: all but one may vanish
        if len(a.content_files) > 1 and rng.random() < 0.5:
            keep = rng.randrange(len(a.content_files))
            for i, c in enumerate(a.content_files):
                if i != keep and rng.random() < 0.7:
                    os.unlink(c); desc.append('content copy %d deleted' % i)
        return desc

    def exhaustive(self, rounds):
        a = self.arr
        devs = devices(a)
        for k in range(0, a.np + 1):
            for subset in itertools.combinations(devs, k):
                for rd in range(rounds if k else 1):
                    tseed = self.rng.getrandbits(32)
                    self.one_subset(subset, tseed)
                    if len(self.chk.violations) > 8:
                        return

    def one_subset(self, subset, tseed):
        restore(self.arr, self.sv)
        rng = random.Random(tseed)
        desc = self.apply_devices(subset, rng)
        replay = {'kind': 'devices', 'geom': self.geom, 'seed': self.seed, 'subset': [list(s) for s in subset], 'trial_seed': tseed, 'recipe': self.recipe, 'damage': desc}
        return self.judge('subset', desc or ['no damage'], replay)

    # -------------------------------------------------------------------------------------------
    def one_pattern(self, tseed):
        """<= np damaged blocks in every stripe, spread over as many devices as possible"""
        a = self.arr
        restore(a, self.sv)
        rng = random.Random(tseed)
        budget = {}      # stripe -> remaining
        npos = self.st['blockmax']
        desc = []
        for pos in range(npos):
            budget[pos] = rng.randint(0, a.np)
        byfile = {}
        for pos, blocks in self.stripes.items():
            for dp, (s, d, f, i, h) in blocks.items():
                byfile.setdefault((d, f['sub']), []).append((pos, i))
        # whole-file losses first (each block of the file uses budget of its stripe)
        files = sorted(byfile)
        rng.shuffle(files)
        gone = set()
        for (d, sub) in files:
            if rng.random() < 0.3 and all(budget[p] > 0 for p, i in byfile[(d, sub)]):
                rel = sub2rel(sub)
                p = a.path(d, rel)
                k = rng.choice(['rm', 'truncate0', 'shorten'])
                if os.stat(p).st_nlink > 1:
                    continue
                if k == 'rm':
                    os.unlink(p)
                elif k == 'truncate0':
                    rewrite_keep_stamp(p, b'')
                else:
                    data = open(p, 'rb').read()
                    rewrite_keep_stamp(p, data[:rng.randrange(len(data))])
                for pp, i in byfile[(d, sub)]:
                    budget[pp] -= 1
                gone.add((d, sub))
                desc.append('%s %s:%s' % (k, d, rel))
                self.nblocks_damaged += len(byfile[(d, sub)])
        for pos in range(npos):
            blocks = self.stripes.get(pos, {})
            cands = [('d', dp) for dp, b in blocks.items() if (b[1], b[2]['sub']) not in gone] + [('p', l) for l in range(a.np)]
            rng.shuffle(cands)
            for c in cands[:max(0, budget[pos])]:
                sh = rng.choice(SHAPES)
                if c[0] == 'd':
                    s, d, f, i, h = blocks[c[1]]
                    damage_file_block(a, d, sub2rel(f['sub']), i, rng, sh)
                    desc.append('%s stripe %d %s:%s[%d]' % (sh, pos, d, sub2rel(f['sub']), i))
                else:
                    damage_parity_block(a, c[1], pos, rng, sh)
                    desc.append('%s stripe %d %s' % (sh, pos, levname(a, c[1])))
                self.nblocks_damaged += 1
        replay = {'kind': 'pattern', 'geom': self.geom, 'seed': self.seed, 'trial_seed': tseed, 'recipe': self.recipe, 'damage': desc}
        return self.judge('pattern', desc or ['no damage'], replay)

    def close(self):
        shutil.rmtree(self.arr.root, ignore_errors=True)


def swap_trials(chk, binary, rng, n):
    """two files of one disk with the same size and the same mtime SECOND but different nanoseconds exchange their names (so
    each name now sits on the inode the content file records for the other one): every stripe has one damaged block; fix must
    bring back bytes AND the nanosecond-exact time-stamps (the escape clause of the property needs the same size and the same
    time-stamp, not the same second).  Fresh arrays, no restore: the recorded inodes must be the real ones."""
    done = 0
    for t in range(n):
        nd = rng.choice([1, 2, 3]); np_ = rng.choice([1, 2])
        a = Array(binary, nd=nd, np_=np_)
        try:
            d = rng.choice(a.disks)
            size = rng.choice([1024, 2048, 3000, 1500])
            sec = 1700000000 + rng.randrange(100000)
            ns1, ns2 = rng.sample([1, 123456789, 500000000, 987654321, 999999999], 2)
            if done % 3 == 2:
                ns2 = ns1      # identical time-stamps: the inode of each restored file belongs to its twin -> `collision:`, time not set
            a.write(d, 'sw1', rng.randbytes(size), mtime_ns=sec * 10**9 + ns1)
            a.write(d, 'sw2', rng.randbytes(size), mtime_ns=sec * 10**9 + ns2)
            for od in a.disks:
                a.write(od, 'other', rng.randbytes(rng.choice([1024, 4096, 2500])))
            r = a.run('sync')
            if r.rc != 0:
                continue
            st = a.content(); sv = Saved(a)
            p1, p2, tmp = a.path(d, 'sw1'), a.path(d, 'sw2'), a.path(d, 'sw.tmp')
            os.rename(p1, tmp); os.rename(p2, p1); os.rename(tmp, p2)
            r = a.run('fix')
            errs = compare_with_saved(a, sv, st)
            r2 = a.run('check')
            bad = (['fix exits %d' % r.rc] if r.rc else []) + errs[:2] + (['check after fix exits %d' % r2.rc] if r2.rc else [])
            if ns1 == ns2 and not any(t.startswith('collision:') for t in r.tags):
                bad.append('the two files have the same size and time-stamp and exchanged their inodes, but fix reports no `collision:`')
            done += 1
            for b in bad[:1]:
                chk.violation('swap', 'nd=%d np=%d: %s:sw1 and %s:sw2 (%d bytes, same second, nanoseconds %d / %d) exchanged their names; after fix: %s' % (nd, np_, d, d, size, ns1, ns2, b),
                              {'kind': 'swap', 'nd': nd, 'np': np_, 'disk': d, 'size': size, 'sec': sec, 'nsec': [ns1, ns2], 'problems': bad, 'fix_tags': interesting(r.tags)[:30]})
        finally:
            shutil.rmtree(a.root, ignore_errors=True)
        if len(chk.violations) > 8:
            break
    return done


OBS_KEYS = {'parity-unaligned': 'F-C01-unaligned-parity-refused', 'no-blocks': 'F-C01-no-blocks-nothing-restored'}


def report_obs(chk, name, msg, replay):
    """an observation becomes a (known-finding) violation as soon as the lead lists its key in known_findings.json
    (open: KNOWN-FINDING line; fixed: plain VIOLATION if the behaviour is still there); until then it is an evidence note"""
    key = OBS_KEYS[name]
    if any(k.get('property') == 'C01' and k.get('key') == key for k in chk.kf):
        chk.violation('obs_' + name, msg, replay, finding_key=key)
    else:
        chk.notes.append('OBSERVATION %s (proposed key %s): %s' % (name, key, msg))


def observations(chk, binary):
    """Two behaviours at the edge of the property's damage class, measured on every run and recorded in the evidence notes
    (not violations: the quantifier of C01 lists lost / truncated / flipped / corrupted, not these two shapes):
    (1) a single-file parity whose size is not a multiple of the block size makes `fix` refuse outright;
    (2) a file that GREW behind the tool's back is truncated by fix but its mtime is not restored."""
    rng = random.Random(5)
    out = {}
    a = Array(binary, nd=2, np_=2)
    a.write('d1', 'a', rng.randbytes(5000), mtime_ns=1700000000 * 10**9 + 5)
    a.write('d2', 'c', rng.randbytes(7000), mtime_ns=1700000000 * 10**9 + 7)
    if a.run('sync', '--test-force-murmur3').rc == 0:
        sv = Saved(a)
        f = a.parity_files[0][0]
        data = open(f, 'rb').read()
        open(f, 'wb').write(data[:3584])            # 3.5 blocks
        os.unlink(a.path('d1', 'a'))
        r = a.run('fix')
        out['unaligned_parity'] = {'fix_rc': r.rc, 'stderr': r.err.strip().splitlines()[:2], 'file_restored': os.path.exists(a.path('d1', 'a'))}
        if r.rc != 0:
            report_obs(chk, 'parity-unaligned', 'with one of 2 parity files truncated to 3.5 blocks and a data file lost (within the parity level), `fix` exits %d without restoring anything: %s' % (r.rc, (r.err.strip().splitlines() or [''])[0][:160]),
                       {'recipe': '2 data disks, 2 parities, blocksize 1; d1/a 5000 B, d2/c 7000 B; sync; truncate parity to 3584 bytes; rm d1/a; fix'})
        restore(a, sv)
        p = a.path('d1', 'a')
        st0 = os.stat(p)
        with open(p, 'ab') as fh:
            fh.write(b'xxxx')
        os.utime(p, ns=(st0.st_mtime_ns, st0.st_mtime_ns))
        r = a.run('fix')
        st1 = os.stat(p)
        out['grown_file'] = {'fix_rc': r.rc, 'size_restored': st1.st_size == st0.st_size, 'mtime_restored': st1.st_mtime_ns == st0.st_mtime_ns}
        if st1.st_size != st0.st_size or st1.st_mtime_ns != st0.st_mtime_ns:
            # repaired by 993feac (F-C01-grown-file-mtime-not-restored): no longer attributed to a known finding
            chk.violation('obs_grown-file', 'a file grown by 4 bytes (mtime kept) is %s by fix ("Fixed size") but its mtime is %s, although no other file has its size and time-stamp'
                          % ('truncated back' if st1.st_size == st0.st_size else 'NOT truncated back', 'left at the time of the fix' if st1.st_mtime_ns != st0.st_mtime_ns else 'restored'),
                          {'recipe': 'd1/a 5000 B synced; append 4 bytes, restore mtime; fix; stat d1/a'})
    shutil.rmtree(a.root, ignore_errors=True)
    # an array made only of zero-size files, links and dirs: blockmax is 0 and state_check skips everything
    a = Array(binary, nd=2, np_=1)
    a.write('d1', 'empty', b'')
    os.symlink('empty', a.path('d1', 'ln'))
    os.makedirs(a.path('d2', 'ed'))
    if a.run('sync', '--test-force-murmur3').rc == 0:
        os.unlink(a.path('d1', 'empty')); os.unlink(a.path('d1', 'ln')); os.rmdir(a.path('d2', 'ed'))
        r = a.run('fix')
        back = [os.path.lexists(a.path('d1', 'empty')), os.path.lexists(a.path('d1', 'ln')), os.path.isdir(a.path('d2', 'ed'))]
        out['only_empty_objects'] = {'fix_rc': r.rc, 'restored': back}
        if not all(back):
            report_obs(chk, 'no-blocks', 'in an array holding only a zero-size file, a symlink and an empty dir (no block at all), after their loss `fix` exits %d and restores %s of them (state_check skips the whole process when the parity size is 0)' % (r.rc, sum(back)),
                       {'recipe': '2 data disks, 1 parity; d1/empty (0 bytes), symlink d1/ln -> empty, dir d2/ed; sync; remove the three; fix; nothing comes back, exit 0'})
    shutil.rmtree(a.root, ignore_errors=True)
    return out


def main(tier, replay=None):
    chk = Check('C01', tier, 'proof')
    snap = snapshot_repo()
    regen(snap)
    try:
        binary = build_tool(snap)
    except BuildError as e:
        chk.violation('build', 'working tree does not build: ' + str(e)[:500], {'error': str(e)}, no_input=True)
        return chk.finish()
    ob = check_obligations('C01')
    proof_coverage(chk, ob, 'make -f Makefile.coq -k Props/Properties_C01*.vo (coqc 8.16.1) + Print Assumptions', c01_model.TRUSTED)
    try:
        model = build_model('Extract/Extract_C01.vo', 'ocaml/C01', 'c01_ext', 'driver.ml', 'model')
    except BuildError as e:
        model = None
        chk.violation('model_build', 'the extracted fix model does not build: %s' % str(e)[-400:], {'error': str(e)[-2000:]}, no_input=True)

    if replay:
        rp = json.load(open(replay))['replay']
        T = Trial(chk, binary, model, tuple(rp['geom']), rp['seed'])
        if rp['kind'] == 'devices':
            T.one_subset([tuple(s) for s in rp['subset']], rp['trial_seed'])
        else:
            T.one_pattern(rp['trial_seed'])
        T.close()
        return chk.finish()

    rng = chk.rng
    geoms = GEOMS_EXH_QUICK if tier == 'quick' else GEOMS_EXH_THOROUGH
    rounds = 1 if tier == 'quick' else 3
    npat = 12 if tier == 'quick' else 80
    jobs = [(g, rng.getrandbits(32)) for g in geoms]
    if tier != 'quick':
        jobs += [(g, rng.getrandbits(32)) for g in geoms[:12]]
    tot = {'trials': 0, 'model': 0, 'blocks': 0, 'arrays': 0}
    samples = []

    def one(job):
        g, seed = job
        T = Trial(chk, binary, model, g, seed)
        if T.ok:
            nd, np_ = g[0], g[1]
            if len(g) > 6 and tier == 'quick':
                # history / rehash geometries: whole-device losses only (single devices and pairs), plus patterns
                devs = devices(T.arr)
                for k in (1, 2):
                    if k <= np_:
                        for subset in itertools.combinations(devs, k):
                            T.one_subset(subset, T.rng.getrandbits(32))
            elif nd + np_ <= 8 or tier != 'quick':
                T.exhaustive(rounds if (nd + np_ <= 6) else 1)
            for _ in range(npat):
                if len(chk.violations) > 8:
                    break
                T.one_pattern(T.rng.getrandbits(32))
            if T.kind == 'holes':
                T.parity_rebuild_trials()
            if T.kind is None:
                for _ in range(1 if tier == 'quick' else 4):
                    T.second_fix(T.rng.getrandbits(32))
                    T.objects_trial(T.rng.getrandbits(32))
        T.close()
        return T
    lrng = random.Random(rng.getrandbits(32))
    with cf.ThreadPoolExecutor(max_workers=min(8, NCPU)) as ex:
        # a file larger than 4 GiB damaged beyond and below 2^32 bytes (thorough: also lost) and fixed (runs beside the arrays)
        lfs = [ex.submit(large_fix_trial, chk, binary, lrng, v, True, 'large_fix') for v in (['damage'] if tier == 'quick' else ['damage', 'lost'])]
        for T in ex.map(one, jobs):
            tot['trials'] += T.ntrials; tot['model'] += T.nmodel; tot['blocks'] += T.nblocks_damaged; tot['arrays'] += 1
            samples += T.samples[:1]
        try:
            chk.cov['large_offset_fix'] = [f.result() for f in lfs]
        except Exception as e:
            chk.notes.append('large offset fix trial failed: %s' % e)
    chk.cov.update({'evaluations': tot['trials'], 'distinct_nontrivial': tot['trials'],
                    'rule': 'arrays %s (nd, np, z-mode, hash size, content copies, files) synced cleanly; EVERY subset of <= np devices (data disk dir / parity level) damaged by a random kind among %s / %s (+ loss of all but one content copy), and %d sampled per-stripe patterns per array with <= np damaged blocks in every stripe; each trial = exact restore, damage, real `fix`, real `check`, independent snapshot comparison (bytes, mtime with the collide rule, links, hard links, dirs) + independent parity checker; non-trivial = trials' % (
                        [g[:4] + g[6:] for g in geoms], DATA_KINDS, PAR_KINDS, npat),
                    'arrays': tot['arrays'], 'blocks_damaged_in_patterns': tot['blocks'], 'fix_runs_replayed_by_model': tot['model'],
                    'traces_validated_against_impl': tot['model']})
    chk.cov['samples'] = samples
    chk.cov['name_exchange_trials'] = swap_trials(chk, binary, rng, 6 if tier == 'quick' else 40)
    try:
        chk.cov['observations'] = observations(chk, binary)
    except Exception as e:
        chk.notes.append('observations failed: %s' % e)
    if ob['failed'] and not chk.violations:
        chk.violation('obligation', 'proof obligation of C01 no longer checks: %s' % ob['failed'][0],
                      {'theorem_file': 'coq/Props/Properties_C01.v', 'failed': ob['failed'], 'log_tail': ob['log'][-1500:]}, no_input=True)
    chk.assumptions += c01_model.ASSUMPTIONS
    return chk.finish()
