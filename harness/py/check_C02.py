"""C02 -- parity equals its algebraic definition in every implementation."""
import os, sys, json, time
from common import *
import gfref

sys.path.insert(0, os.path.join(VERIF, 'harness', 'gen'))
import tables as tabgen

GENS = [('gen1_int32', 1, 'c'), ('gen1_int64', 1, 'c'), ('gen1_sse2', 1, 'c'), ('gen1_avx2', 1, 'c'),
        ('gen2_int32', 2, 'c'), ('gen2_int64', 2, 'c'), ('gen2_sse2', 2, 'c'), ('gen2_sse2ext', 2, 'c'), ('gen2_avx2', 2, 'c'),
        ('genz_int32', 3, 'z'), ('genz_int64', 3, 'z'), ('genz_sse2', 3, 'z'), ('genz_sse2ext', 3, 'z'), ('genz_avx2ext', 3, 'z'),
        ('gen3_int8', 3, 'c'), ('gen3_ssse3', 3, 'c'), ('gen3_ssse3ext', 3, 'c'), ('gen3_avx2ext', 3, 'c'),
        ('gen4_int8', 4, 'c'), ('gen4_ssse3', 4, 'c'), ('gen4_ssse3ext', 4, 'c'), ('gen4_avx2ext', 4, 'c'),
        ('gen5_int8', 5, 'c'), ('gen5_ssse3', 5, 'c'), ('gen5_ssse3ext', 5, 'c'), ('gen5_avx2ext', 5, 'c'),
        ('gen6_int8', 6, 'c'), ('gen6_ssse3', 6, 'c'), ('gen6_ssse3ext', 6, 'c'), ('gen6_avx2ext', 6, 'c'),
        ('gen3_int8', 3, 'z')]   # gen3_int8 reads raid_gfgen, so it also exists in z mode


def table_diff(snap):
    """compare raid/tables.c with the closed forms computed by the independent reference"""
    t = tabgen.parse(open(os.path.join(snap, 'raid/tables.c')).read())
    diffs = []

    def cmp(name, flat, expect, idx):
        for k, (a, b) in enumerate(zip(flat, expect)):
            if a != b:
                diffs.append({'table': name, 'index': idx(k), 'source_value': a, 'closed_form': b})
    for n in ('gfmul', 'gfexp', 'gfinv', 'gfvandermonde', 'gfcauchy', 'gfcauchypshufb', 'gfmulpshufb'):
        if n not in t:
            diffs.append({'table': n, 'index': None, 'source_value': 'missing', 'closed_form': None})
    if diffs:
        return diffs
    cmp('gfmul', tabgen.rows(*t['gfmul']), [gfref.MUL[a][b] for a in range(256) for b in range(256)], lambda k: [k // 256, k % 256])
    cmp('gfexp', tabgen.rows(*t['gfexp']), [gfref.POW2[k % 255] for k in range(256)], lambda k: [k])
    cmp('gfinv', tabgen.rows(*t['gfinv']), gfref.INV, lambda k: [k])
    cmp('gfvandermonde', tabgen.rows(*t['gfvandermonde']), [gfref.power(j, i) if i < 251 else 0 for j in range(3) for i in range(256)], lambda k: [k // 256, k % 256])
    cmp('gfcauchy', tabgen.rows(*t['gfcauchy']), [gfref.cauchy(j, i) if i < 251 else 0 for j in range(6) for i in range(256)], lambda k: [k // 256, k % 256])
    nib = lambda c: [gfref.MUL[c][k] for k in range(16)] + [gfref.MUL[c][16 * k] for k in range(16)]
    cmp('gfcauchypshufb', tabgen.rows(*t['gfcauchypshufb']), [x for i in range(251) for p in range(2, 6) for x in nib(gfref.cauchy(p, i))],
        lambda k: [k // 128, (k % 128) // 32, (k % 32) // 16, k % 16])
    cmp('gfmulpshufb', tabgen.rows(*t['gfmulpshufb']), [x for m in range(256) for x in nib(m)], lambda k: [k // 32, (k % 32) // 16, k % 16])
    return diffs


def pattern(nd, size, kind, rng):
    if kind == 'basis':      # every disk sees every byte value (size 256), in shifted lane positions
        return [bytes(((c + 37 * i) & 255) for c in range(size)) for i in range(nd)]
    if kind == 'basis2':     # values permuted so that each value meets other lanes
        return [bytes((((c * 9 + (c >> 5)) ^ (i * 11)) & 255) for c in range(size)) for i in range(nd)]
    if kind == 'ones':
        return [b'\xff' * size for i in range(nd)]
    if kind == 'onehot':     # a single non-zero disk
        k = rng.randrange(nd)
        return [bytes(c & 255 for c in range(size)) if i == k else bytes(size) for i in range(nd)]
    return [bytes(rng.getrandbits(8) for _ in range(size)) for i in range(nd)]


def do_replay(path):
    """re-run the recorded case line on a freshly built driver; exit 1 if it still differs from the expectation"""
    rp = json.load(open(path)).get('replay', {})
    line = rp.get('case_line')
    if not line:
        print('replay file has no concrete input (obligation-level violation): see', path)
        print(json.dumps(rp, indent=1)[:3000])
        return 1
    snap = snapshot_repo()
    drv = build_driver(snap, 'raid_drv.c', RAID_SRCS, 'raid_drv')
    out = run_lines(drv, [line], shards=1)[0]
    exp = rp.get('expected')
    print('case    :', line[:200], '...')
    print('C now   :', out[:200])
    print('expected:', (exp or rp.get('model') or '')[:200])
    return 0 if (exp is None or out == exp) else 1


def main(tier, replay=None):
    if replay:
        return do_replay(replay)
    chk = Check('C02', tier, 'proof')
    snap = snapshot_repo()
    regen_msgs = regen(snap)
    try:
        drv = build_driver(snap, 'raid_drv.c', RAID_SRCS, 'raid_drv')
    except BuildError as e:
        chk.violation('build', 'working tree does not build: ' + str(e)[:500], {'error': str(e)}, no_input=True)
        return chk.finish()

    # translation tie for the SIMD generators: regenerate coq/Gen/X86Progs.v from raid/x86.c, x86z.c and validate the
    # generated programs (run by the extracted interpreter) against the real functions; must precede the obligations
    try:
        import c02_simd
        c02_simd.run(chk, snap, drv)
    except Exception as e:
        import traceback
        chk.violation('simd', 'SIMD translation step failed: %s' % e, {'traceback': traceback.format_exc()[-2000:]}, no_input=True)
    # the same for the portable generators of raid/int.c, raid/intz.c (+ helpers of raid/gf.h): coq/Gen/IntProgs.v
    try:
        import c02_int
        c02_int.run(chk, snap, drv)
    except Exception as e:
        import traceback
        chk.violation('int', 'portable-generator translation step failed: %s' % e, {'traceback': traceback.format_exc()[-2000:]}, no_input=True)
    ob = check_obligations('C02')
    proof_coverage(chk, ob, 'make -f Makefile.coq -k Props/Properties_C02.vo (coqc 8.16.1, full .vo) + Print Assumptions',
                   ['Coq 8.16.1 kernel incl. vm_compute', 'harness/gen/tables.py (regex translator of raid/tables.c)',
                    'extraction (ExtrOcamlBasic only) + ocaml/driver.ml', 'harness/c/raid_drv.c', 'harness/py/gfref.py (independent reference)',
                    'hand models of raid/int.c, intz.c (GenModel.v); SIMD variants of x86.c/x86z.c tied by unit correspondence only'])
    if regen_msgs:
        chk.notes.append('translator: ' + '; '.join(regen_msgs))

    # ---- the tables themselves (part of the property statement)
    td = table_diff(snap)
    for d in td[:20]:
        chk.violation('table_%s_%s' % (d['table'], '_'.join(map(str, d['index'] or []))),
                      'lookup table raid_%s%s = %s differs from the closed form %s' % (d['table'], d['index'], d['source_value'], d['closed_form']), d)
    chk.cov['table_entries_compared'] = 65536 + 256 + 256 + 768 + 1536 + 32128 + 8192

    # ---- correspondence: every exported variant vs independent reference vs extracted model
    rng = chk.rng
    if tier == 'quick':
        nds = [1, 2, 3, 4, 31, 32, 33, 250, 251] + [rng.randrange(5, 250) for _ in range(2)]
        kinds = ['basis', 'random']
        extra_sizes = [64, 192]
    else:
        nds = list(range(1, 252))
        kinds = ['basis', 'basis2', 'random', 'ones', 'onehot']
        extra_sizes = [64, 128, 192, 320, 4096]
    cases = []      # (fn, np, mode, nd, size, data, kind)
    for nd in nds:
        for kind in kinds:
            size = 256 if kind.startswith('basis') else rng.choice(extra_sizes)
            if tier == 'thorough' and kind == 'random' and nd > 40:
                size = min(size, 320)
            data = pattern(nd, size, kind, rng)
            for fn, np_, mode in GENS:
                cases.append((fn, np_, mode, nd, size, data, kind))
    lines = ['gen %s %s %d %d %d %s' % (fn, mode, nd, np_, size, b''.join(data).hex()) for fn, np_, mode, nd, size, data, kind in cases]
    outs = run_lines(drv, lines)
    # reference, cached per (mode, np, data id)
    refcache = {}
    ran = skipped = 0
    variants_run = set()
    mism = []
    for (fn, np_, mode, nd, size, data, kind), line, out in zip(cases, lines, outs):
        if out == 'skip':
            skipped += 1
            continue
        ran += 1
        variants_run.add(fn + ('/z' if mode == 'z' and fn == 'gen3_int8' else ''))
        key = (mode if np_ >= 3 else 'c', np_, id(data))
        if key not in refcache:
            refcache[key] = 'ok ' + b''.join(gfref.gen(key[0], np_, data)).hex()
        if out != refcache[key]:
            mism.append((fn, mode, nd, np_, size, kind, line, out, refcache[key]))
    for fn, mode, nd, np_, size, kind, line, out, exp in mism[:10]:
        chk.violation('gen_%s_%s_nd%d' % (fn, mode, nd),
                      'raid_%s (mode %s, nd=%d, size=%d, %s data) does not compute the GF(2^8) matrix product / frame: got %s...' % (fn, mode, nd, size, kind, out[:40]),
                      {'driver': 'harness/c/raid_drv.c', 'case_line': line, 'got': out, 'expected': exp})
    # model vs C on a subset (the model is per family; small sizes for big nd)
    mcases = {}
    for (fn, np_, mode, nd, size, data, kind) in cases:
        fam = fn.split('_')[0]
        sz = size if nd <= 40 else 64
        k = (fam, mode, nd, id(data))
        if k not in mcases:
            mcases[k] = (fn, np_, mode, nd, sz, [d[:sz] for d in data])
    mlist = list(mcases.values())
    if tier == 'quick':
        mlist = [m for m in mlist if m[3] <= 40 or m[3] in (250, 251)]
    model = build_model()
    mlines = ['gen %s %s %d %d %d %s' % (fn, mode, nd, np_, sz, b''.join(data).hex()) for fn, np_, mode, nd, sz, data in mlist]
    mo = run_lines(model, mlines)
    co = run_lines(drv, ['gen %s_%s %s' % (l.split()[1].split('_')[0], 'int8' if l.split()[1].split('_')[0] in ('gen3', 'gen4', 'gen5', 'gen6') else 'int32', l.split(' ', 2)[2]) for l in mlines])
    drift = 0
    for (fn, np_, mode, nd, sz, data), l, a, b in zip(mlist, mlines, mo, co):
        if a != b:
            drift += 1
            ref = 'ok ' + b''.join(gfref.gen(mode if np_ >= 3 else 'c', np_, data)).hex()
            if b != ref:
                continue   # already reported as a C-vs-reference mismatch
            chk.violation('drift_%s_nd%d' % (fn, nd), 'MODEL-DRIFT: extracted model of %s disagrees with the portable C on nd=%d although C matches the reference' % (fn.split('_')[0], nd),
                          {'case_line': l, 'model': a, 'c': b}, no_input=True)
    chk.cov.update({'evaluations': ran, 'distinct_nontrivial': len(set((c[0], c[2], c[3], c[6]) for c in cases)) - skipped // max(1, len(kinds)) if ran else 0,
                    'rule': 'each exported raid_gen* variant the CPU supports x nd in %s x contents %s; non-trivial = distinct (function, mode, nd, content kind)' % (nds if len(nds) < 20 else '1..251', kinds),
                    'variants_run': sorted(variants_run), 'variants_skipped_cases': skipped,
                    'model_vs_c_cases': len(mlist), 'model_drift': drift, 'traces_validated_against_impl': len(mlist)})
    chk.cov['samples'] = [{'fn': c[0], 'mode': c[2], 'nd': c[3], 'size': c[4], 'kind': c[6]} for c in cases[:3] + cases[-3:]]
    dis = run_lines(drv, ['dispatch'], shards=1)
    chk.cov['dispatch_on_this_cpu'] = dis[0]

    # ---- the DISPATCHER raid_gen() itself, on large block sizes that are multiples of 64 but not powers of two (the variants
    #      above are called directly with small sizes; raid_gen is the entry the tool uses, with blocks up to 16 MiB)
    def lcg_blocks(seed, nd, size):
        x = (seed * 6364136223846793005 + 1442695040888963407) & (2 ** 64 - 1)
        out = []
        for _ in range(nd):
            b = bytearray(size)
            for k in range(size):
                x = (x * 6364136223846793005 + 1442695040888963407) & (2 ** 64 - 1)
                b[k] = x >> 56
            out.append(bytes(b))
        return out

    def fnv(b):
        h = 1469598103934665603
        for c in b:
            h = ((h ^ c) * 1099511628211) & (2 ** 64 - 1)
        return '%016x' % h
    big_sizes = [32768 + 64, 40000] if tier == 'quick' else [32768 + 64, 40000, 65536 + 192, 98304 + 64, 131072 - 64, 262144 + 64]
    big_nd = 2 if tier == 'quick' else 3
    rcases = []
    for size in big_sizes:
        seed = rng.randrange(1, 2 ** 31)
        data = lcg_blocks(seed, big_nd, size)
        refs = {'c': [fnv(x) for x in gfref.gen('c', 6, data)], 'z': [fnv(x) for x in gfref.gen('z', 3, data)]}
        for fam in ('disp', 'int8', 'ssse3', 'ssse3ext', 'avx2'):
            for mode, np_ in [('c', n) for n in range(1, 7)] + [('z', 3)]:
                rcases.append((fam, mode, big_nd, np_, size, seed, refs[mode][:np_]))
    routs = run_lines(drv, ['rgen %s %s %d %d %d %d' % c[:6] for c in rcases])
    rran = 0
    for c, out in zip(rcases, routs):
        if out == 'skip':
            continue
        rran += 1
        exp = 'ok ' + ' '.join(c[6])
        if out != exp:
            chk.violation('rgen_%s_%s_np%d_size%d' % (c[0], c[1], c[3], c[4]),
                          'raid_gen (dispatcher, family %s, mode %s, nd=%d, np=%d, block size %d) does not compute the GF(2^8) matrix product on the whole block: digests %s, expected %s'
                          % (c[0], c[1], c[2], c[3], c[4], out, exp),
                          {'driver': 'harness/c/raid_drv.c', 'case_line': 'rgen %s %s %d %d %d %d' % c[:6], 'data': '64-bit LCG stream of the seed (see raid_drv.c rgen)', 'got': out, 'expected_fnv64_per_parity': exp})
    chk.cov['dispatcher_large_block_cases'] = rran
    chk.cov['dispatcher_block_sizes'] = big_sizes

    # ---- verdict for broken obligations
    if ob['failed']:
        if not chk.violations:
            chk.violation('obligation', 'proof obligation of C02 no longer checks: %s' % ob['failed'][0],
                          {'theorem_file': 'coq/Props/Properties_C02.v', 'failed': ob['failed'], 'log_tail': ob['log'][-1500:]}, no_input=True)
    chk.assumptions += ['alignment faults, movntdq/sfence ordering and register clobbers are outside the model (canaries + byte comparison only)',
                        'SIMD variants are tied to the specification by unit correspondence on a complete per-disk byte basis, not by a theorem about the asm']
    return chk.finish()
