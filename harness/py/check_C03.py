"""C03 -- any erasure pattern within the parity count is exactly recoverable."""
import os, sys, json, time, itertools
from common import *
import gfref

sys.path.insert(0, os.path.join(VERIF, 'harness', 'gen'))

FAMS = ['int8', 'ssse3', 'ssse3ext', 'avx2', 'disp']


def rnd_block(rng, size):
    return bytes(rng.getrandbits(8) for _ in range(size))


def make_stripe(rng, mode, nd, np_, size, kind='random'):
    if kind == 'basis':
        data = [bytes(((c * 5 + 37 * i) & 255) for c in range(size)) for i in range(nd)]
    else:
        data = [rnd_block(rng, size) for _ in range(nd)]
    par = gfref.gen(mode, np_, data)
    return data, par


def garble(rng, blk):
    g = bytearray(rnd_block(rng, len(blk)))
    for k in range(len(blk)):          # make sure every byte differs (so a skipped write is visible)
        if g[k] == blk[k]:
            g[k] ^= 0x5a
    return bytes(g)


def subsets_upto(n, k):
    for r in range(0, k + 1):
        for c in itertools.combinations(range(n), r):
            yield list(c)


def sample_ir(rng, nd, np_, nr):
    """failure sets aimed at the boundaries: disks 0, 1, 31, 32, last; parities first/last"""
    pool = sorted(set([0, 1, 31, 32, nd - 2, nd - 1] + [rng.randrange(nd) for _ in range(4)]) & set(range(nd)))
    ppool = list(range(nd, nd + np_))
    k = rng.randint(0, min(nr, len(pool)))
    kp = min(nr - k, len(ppool))
    k = nr - kp
    if k > len(pool):
        return None
    return sorted(rng.sample(pool, k) + rng.sample(ppool, kp))


def do_replay(path):
    """re-run the recorded case line on a freshly built driver; exit 1 if it still differs from the expectation"""
    rp = json.load(open(path)).get('replay', {})
    line = rp.get('case_line')
    if not line:
        print('replay file has no concrete input (obligation-level violation): see', path)
        print(json.dumps(rp, indent=1)[:3000])
        return 1
    snap = snapshot_repo()
    drv = build_driver(snap, 'raid_drv.c', RAID_SRCS, 'raid_drv')
    out = run_lines(drv, [line], shards=1)[0]
    exp = rp.get('expected')
    print('case    :', line[:200], '...')
    print('C now   :', out[:200])
    print('expected:', (exp or rp.get('model') or '')[:200])
    return 0 if (exp is None or out == exp) else 1


def main(tier, replay=None):
    if replay:
        return do_replay(replay)
    chk = Check('C03', tier, 'proof')
    snap = snapshot_repo()
    regen(snap)
    try:
        drv = build_driver(snap, 'raid_drv.c', RAID_SRCS, 'raid_drv')
    except BuildError as e:
        chk.violation('build', 'working tree does not build: ' + str(e)[:500], {'error': str(e)}, no_input=True)
        return chk.finish()
    import c03_simd
    c03_simd.run(chk, snap, drv)
    # the same for the portable decoders of raid/int.c, raid/raid.c: coq/Gen/IntRecProgs.v
    try:
        import c03_int
        c03_int.run(chk, snap, drv)
    except Exception as e:
        import traceback
        chk.violation('int_rec', 'portable-decoder translation step failed: %s' % e, {'traceback': traceback.format_exc()[-2000:]}, no_input=True)
    ob = check_obligations('C03')
    proof_coverage(chk, ob, 'make -f Makefile.coq -k Props/Properties_C03.vo (coqc 8.16.1, full .vo) + Print Assumptions',
                   ['Coq 8.16.1 kernel incl. vm_compute', 'MathComp 1.15 (ssreflect, algebra: poly root counting, matrices)',
                    'harness/gen/tables.py', 'extraction (ExtrOcamlBasic only) + ocaml/driver.ml', 'harness/c/raid_drv.c',
                    'harness/py/gfref.py (independent reference: the harness knows the original stripe)',
                    'hand models of raid/raid.c, raid/int.c rec*, raid/check.c, raid/combo.h, raid/helper.c (RecModel.v)',
                    'harness/gen/x86asm_rec.py (translator of the six SSSE3/AVX2 decoders of raid/x86.c into Gen/X86RecProgs.v) + reflective checker Simd/RecCheck.v'])
    rng = chk.rng
    quick = tier == 'quick'
    cases = []   # dict(kind, line(for C), mline(for model or None), expect(oracle) , desc)

    def hexbufs(bufs):
        return b''.join(bufs).hex()

    def add_rec(mode, nd, np_, size, ir, fams, with_model, kind='random'):
        data, par = make_stripe(rng, mode, nd, np_, size, kind)
        bufs = list(data) + list(par)
        for i in ir:
            bufs[i] = garble(rng, bufs[i])
        # oracle: failed data restored; parities 0..highest failed parity recomputed; everything else untouched
        exp = list(bufs)
        for i in ir:
            if i < nd:
                exp[i] = data[i]
        fp = [i - nd for i in ir if i >= nd]
        if fp:
            for p in range(max(fp) + 1):
                exp[nd + p] = par[p]
        tail = '%s %d %d %d %d %s %s' % (mode, nd, np_, size, len(ir), ' '.join(map(str, ir)), hexbufs(bufs))
        for f in fams:
            cases.append({'kind': 'rec', 'line': 'rec %s %s' % (f, tail), 'model': with_model and f == 'int8', 'expect': 'ok ' + hexbufs(exp),
                          'desc': {'op': 'rec', 'family': f, 'mode': mode, 'nd': nd, 'np': np_, 'size': size, 'ir': ir}})

    def add_data(mode, nd, np_, size, id_, ip, fams, with_model):
        data, par = make_stripe(rng, mode, nd, np_, size)
        bufs = list(data) + list(par)
        for i in id_:
            bufs[i] = garble(rng, bufs[i])
        # parities not in ip may be garbage too: raid_data must not look at them nor touch them
        for p in range(np_):
            if p not in ip and rng.random() < 0.5:
                bufs[nd + p] = garble(rng, bufs[nd + p])
        exp = list(bufs)
        for i in id_:
            exp[i] = data[i]
        tail = '%s %d %d %d %d %s %s %s' % (mode, nd, np_, size, len(id_), ' '.join(map(str, id_)), ' '.join(map(str, ip)), hexbufs(bufs))
        for f in fams:
            cases.append({'kind': 'data', 'line': 'data %s %s' % (f, tail), 'model': with_model and f == 'int8', 'expect': 'ok ' + hexbufs(exp),
                          'desc': {'op': 'data', 'family': f, 'mode': mode, 'nd': nd, 'np': np_, 'size': size, 'id': id_, 'ip': ip}})

    def add_check(mode, nd, np_, size, ir, extra, with_model):
        """ir = listed failure set (garbage there); extra = one more corrupted block not listed (or None)"""
        data, par = make_stripe(rng, mode, nd, np_, size)
        bufs = list(data) + list(par)
        for i in ir:
            bufs[i] = garble(rng, bufs[i])
        if extra is not None:
            b = bytearray(bufs[extra])
            b[rng.randrange(size)] ^= 1 << rng.randrange(8)     # a single bit in a single byte
            bufs[extra] = bytes(b)
        exp = 'ret 0' if extra is None else 'ret -1'
        line = 'check %s %d %d %d %d %s %s' % (mode, nd, np_, size, len(ir), ' '.join(map(str, ir)), hexbufs(bufs))
        cases.append({'kind': 'check', 'line': line, 'model': with_model, 'expect': exp,
                      'desc': {'op': 'check', 'mode': mode, 'nd': nd, 'np': np_, 'size': size, 'ir': ir, 'extra_corrupted': extra}})

    def add_scan(mode, nd, np_, size, bad, with_model):
        data, par = make_stripe(rng, mode, nd, np_, size)
        bufs = list(data) + list(par)
        for i in bad:
            bufs[i] = garble(rng, bufs[i])
        exp = 'ret %d%s' % (len(bad), ''.join(' %d' % i for i in bad))
        line = 'scan %s %d %d %d %s' % (mode, nd, np_, size, hexbufs(bufs))
        cases.append({'kind': 'scan', 'line': line, 'model': with_model, 'expect': exp,
                      'desc': {'op': 'scan', 'mode': mode, 'nd': nd, 'np': np_, 'size': size, 'corrupted': bad}})

    # ---- exhaustive small geometries: every failure set
    small = [(nd, np_) for nd in (1, 2, 3, 4) for np_ in range(1, 7)]
    if quick:
        small = [g for g in small if g[0] in (1, 3) or g[1] in (3, 6)]
    for nd, np_ in small:
        for mode in (['c', 'z'] if np_ <= 3 else ['c']):
            for ir in subsets_upto(nd + np_, np_):
                if quick and len(ir) >= 5 and rng.random() < 0.7:
                    continue
                add_rec(mode, nd, np_, 64, ir, FAMS, with_model=(len(ir) <= 4 or rng.random() < 0.05))
    # ---- large geometries, sampled
    big = [31, 32, 33, 250, 251] if quick else [5, 12, 31, 32, 33, 40, 100, 200, 249, 250, 251]
    for nd in big:
        for np_ in range(1, 7):
            for mode in (['c', 'z'] if np_ <= 3 else ['c']):
                for nr in range(1, np_ + 1):
                    for rep in range(1 if quick else 4):
                        ir = sample_ir(rng, nd, np_, nr)
                        if ir is None:
                            continue
                        add_rec(mode, nd, np_, rng.choice([64, 192]), ir, FAMS, with_model=(nd <= 33 and nr <= 3 and rep == 0),
                                kind=rng.choice(['random', 'basis']))
    # ---- raid_data with every choice of parities
    for nd, np_ in ([(3, 4), (5, 6), (251, 6)] if quick else [(2, 3), (3, 4), (4, 5), (5, 6), (32, 6), (251, 6)]):
        for mode in (['c', 'z'] if np_ <= 3 else ['c']):
            for nr in range(1, min(nd, np_) + 1):
                ips = list(itertools.combinations(range(np_), nr))
                if quick and len(ips) > 6:
                    ips = rng.sample(ips, 6)
                for ip in ips:
                    id_ = sorted(rng.sample(range(nd), nr))
                    add_data(mode, nd, np_, 64, id_, list(ip), FAMS, with_model=(nd <= 5 and nr <= 3))
    # ---- consistency test: true set accepted, one more corrupted block rejected
    for nd, np_ in ([(2, 2), (3, 3), (4, 6), (32, 4), (251, 6)] if quick else [(1, 2), (2, 2), (3, 3), (4, 4), (4, 6), (32, 4), (33, 5), (251, 6)]):
        for mode in (['c', 'z'] if np_ <= 3 else ['c']):
            for nr in range(0, np_):
                sets = set(tuple(sorted(rng.sample(range(nd + np_), nr))) for _ in range(2 if quick else 6))
                for ir in sorted(sets):
                    ir = list(ir)
                    add_check(mode, nd, np_, 64, ir, None, with_model=(nd <= 4 and nr <= 3))
                    others = [i for i in range(nd + np_) if i not in ir]
                    for extra in rng.sample(others, min(len(others), 3 if quick else 8)):
                        add_check(mode, nd, np_, 64, ir, extra, with_model=(nd <= 4 and nr <= 3))
    # ---- scan (least failure set)
    for nd, np_ in ([(2, 3), (3, 4)] if quick else [(1, 2), (2, 3), (3, 4), (4, 5), (3, 6)]):
        for r in range(0, np_):
            if 2 * r > np_:
                continue    # beyond half the distance another set of the same size could also be consistent
            sets = list(itertools.combinations(range(nd + np_), r))
            for bad in rng.sample(sets, min(len(sets), 3)):
                add_scan('c', nd, np_, 64, list(bad), with_model=(r <= 2))
    # ---- helpers: invert on sub-matrices of the generator, sort networks, insert, combinations
    helper = []
    for n in range(1, 7):
        for rep in range(6 if quick else 40):
            nd = rng.choice([6, 33, 251])
            id_ = sorted(rng.sample(range(nd), n)); ip = sorted(rng.sample(range(6), n))
            M = [gfref.cauchy(p, d) for p in ip for d in id_]
            helper.append('invert %d %s' % (n, bytes(M).hex()))
    helper.append('invert 2 01010101')       # singular: both must abort
    helper.append('invert 3 000102030405060708')
    # argument validation: BUG_ON paths must abort in the C exactly where the model returns None
    z64 = (b'\x11' * 64 * 5).hex()
    helper += ['rec int8 c 3 2 64 2 1 0 ' + z64, 'rec int8 c 3 2 64 3 0 1 2 ' + z64, 'rec int8 c 3 2 64 1 5 ' + z64,
               'rec int8 c 3 2 64 2 0 0 ' + z64, 'data int8 c 3 2 64 2 1 0 0 1 ' + z64, 'data int8 c 3 2 64 2 0 1 1 0 ' + z64,
               'data int8 c 3 2 64 1 3 0 ' + z64, 'check c 3 2 64 2 0 1 ' + z64, 'check c 3 2 64 1 7 ' + z64]
    for n in range(0, 7):
        for rep in range(30 if quick else 300):
            v = [rng.randrange(0, 8) for _ in range(n)]
            helper.append('sort %d %s' % (n, ' '.join(map(str, v))))
            if n < 6:
                helper.append('insert %d %s %d' % (n, ' '.join(map(str, sorted(v) if rep % 2 else v)), rng.randrange(0, 8)))
    for n in range(1, 13 if quick else 17):
        for r in range(1, min(n, 6) + 1):
            helper.append('combo %d %d' % (r, n))

    # ---- run
    clines = [c['line'] for c in cases]
    cout = run_lines(drv, clines)
    model = build_model()
    midx = [i for i, c in enumerate(cases) if c['model']]

    def to_model_line(l):
        return l
    mout = run_lines(model, [to_model_line(cases[i]['line']) for i in midx])
    hc = run_lines(drv, helper)
    hm = run_lines(model, helper)

    stats = {}
    bad = 0
    for c, o in zip(cases, cout):
        key = (c['kind'], c['desc'].get('family', '-'))
        stats[key] = stats.get(key, 0) + 1
        if o == 'skip':
            continue
        if o != c['expect']:
            bad += 1
            if bad <= 10:
                chk.violation('%s_%d' % (c['kind'], bad), 'raid_%s gives a wrong result on %s: got %s, the original stripe requires %s' % (
                    c['kind'], json.dumps(c['desc']), o[:60], c['expect'][:60]),
                    {'driver': 'harness/c/raid_drv.c', 'case_line': c['line'], 'got': o, 'expected': c['expect'], 'desc': c['desc']})
    drift = 0
    for i, mo in zip(midx, mout):
        c = cases[i]
        if mo != cout[i]:
            drift += 1
            if cout[i] == c['expect'] and drift <= 5:
                chk.violation('drift_%s_%d' % (c['kind'], drift), 'MODEL-DRIFT: extracted model of raid_%s disagrees with the C on %s (C is right)' % (c['kind'], json.dumps(c['desc'])),
                              {'case_line': c['line'], 'model': mo, 'c': cout[i]}, no_input=True)
    hbad = 0
    for l, a, b in zip(helper, hc, hm):
        if a != b:
            hbad += 1
            if hbad <= 5:
                # helpers have simple independent oracles
                what = 'helper %s: C says %s, model says %s' % (l[:80], a[:60], b[:60])
                real = False
                t = l.split()
                if t[0] == 'sort':
                    v = list(map(int, t[2:]))
                    real = a != ' '.join(['ok'] + list(map(str, sorted(v))))
                elif t[0] == 'combo':
                    import math
                    real = int(a.split()[1]) != math.comb(int(t[2]), int(t[1])) if a.startswith('ok') else True
                chk.violation('helper_%d' % hbad, what, {'case_line': l, 'c': a, 'model': b}, no_input=not real)
    # sort oracle regardless of the model
    for l, a in zip(helper, hc):
        t = l.split()
        if t[0] == 'sort' and a != ' '.join(['ok'] + list(map(str, sorted(map(int, t[2:]))))):
            chk.violation('sort', 'raid_sort does not sort %s: %s' % (t[2:], a), {'case_line': l, 'c': a})
            break

    nontriv = len(set(json.dumps({k: v for k, v in c['desc'].items() if k != 'family'}, sort_keys=True) for c in cases))
    chk.cov.update({'evaluations': len(cases) + len(helper), 'distinct_nontrivial': nontriv,
                    'rule': 'rec/data/check/scan cases = (mode, nd, np, size, failure set[, parity choice][, extra corrupted block]) x decoder family {int8, ssse3, avx2, dispatcher}; oracle = the original stripe known to the harness; distinct = distinct geometry+failure descriptions',
                    'per_kind_family': {'%s/%s' % k: v for k, v in sorted(stats.items())},
                    'model_vs_c_cases': len(midx) + len(helper), 'model_drift': drift + hbad,
                    'traces_validated_against_impl': len(midx) + len(helper),
                    'wrong_results': bad})
    chk.cov['samples'] = [c['desc'] for c in cases[:2] + cases[len(cases) // 2:len(cases) // 2 + 2] + cases[-2:]] + helper[:2]
    if ob['failed'] and not chk.violations:
        chk.violation('obligation', 'proof obligation of C03 no longer checks: %s' % ob['failed'][0],
                      {'theorem_file': 'coq/Props/Properties_C03.v', 'failed': ob['failed'], 'log_tail': ob['log'][-1500:]}, no_input=True)
    chk.assumptions += ['SIMD decoders (rec*_ssse3, rec*_avx2): the asm loops are translated from raid/x86.c on every run and proved (C03_rec_simd_correct, C03_simd_decoders_correct); the C prologue of each decoder is recognised textually by the translator, any deviation is an unsupported-translation obligation failure',
                        'pointer permutation of raid_delta_gen is modelled at the value level; aliasing/frame are checked by canaries, pointer-vector and zero-block comparison in the driver']
    return chk.finish()
