"""C04 -- every silent corruption of synced data or parity is detected and located.

   On cleanly synced real arrays every single file block and every parity block is corrupted in turn (one bit / one byte /
   whole block / zeroed / first / last byte / two blocks of a file swapped) with size and mtime kept; `check`, `check -a`,
   `scrub -p full` must report exactly the damaged blocks (tag SETS compared for equality with the independent prediction),
   fail iff something is damaged, and scrub must mark exactly the damaged stripes bad (`status` and the decoded content
   file); combinations of damaged blocks likewise; the undamaged array reports nothing.  The extracted check/scrub model
   (coq/Fix/FixModel.v) must predict the same tag sets (MODEL-DRIFT otherwise)."""
import os, sys, json, time, shutil, itertools
import concurrent.futures as cf
from common import *
from arraylib import *
from c01_lib import *
import c01_model

GEOMS_QUICK = [  # (nd, np, zmode, hashsize, nfiles, holes)
    (2, 1, False, None, 5, False), (3, 2, False, None, 8, True), (2, 3, True, 4, 5, False), (4, 2, False, 8, 9, True),
    (3, 6, False, None, 6, False), (2, 2, False, 4, 6, True), (3, 3, False, None, 7, False), (3, 1, False, 2, 6, False),
    (3, 1, False, None, 5, False, 'rehash'), (2, 2, False, None, 5, True, 'rehash'), (2, 1, False, None, 2, False, 'deep'),
]
GEOMS_THOROUGH = GEOMS_QUICK + [(4, 4, False, None, 14, True), (4, 3, True, None, 12, True), (2, 5, False, 4, 6, False), (4, 1, False, None, 20, True),
                                (3, 2, False, 2, 10, True), (2, 6, False, None, 8, True), (4, 2, False, None, 10, False, 'rehash'), (3, 3, False, 8, 8, True, 'rehash')]


def tagkey(t):
    """'error:3:d1:a: Data error at position 1, ...' -> ('error:3:d1:a', 'Data error')"""
    head, _, rest = t.partition(': ')
    return head, rest


class Arr04:
    def __init__(self, chk, binary, model, geom, seed):
        self.chk, self.geom, self.seed = chk, geom, seed
        nd, np_, z, hs, nf, holes = geom[:6]
        self.kind = geom[6] if len(geom) > 6 else None
        self.rng = random.Random(seed)
        self.arr = a = Array(binary, nd=nd, np_=np_, zmode=z, hashsize=hs)
        self.recipe = populate(a, self.rng, nf, links=False)
        self.ok = True
        r = a.run('sync', '--test-force-murmur3')
        if holes and r.rc == 0:
            # remove a file and sync again: its positions become holes (unused parity) unless re-used
            st = a.content()
            cands = [(d, f) for d, dd in st['disks'].items() for f in dd['files'] if f['size'] > 0]
            if cands:
                d, f = self.rng.choice(cands)
                a.remove(d, sub2rel(f['sub']))
                self.recipe.append(('remove', d, sub2rel(f['sub'])))
                r = a.run('sync', '--force-empty')
        if self.kind == 'deep' and r.rc == 0:
            # more than 260 stripes on one disk: a one-block file that sorts first, and a 300-block file that sorts last
            a.write('d1', '000first', self.rng.randbytes(a.bs))
            a.write('d1', 'zzzbig', self.rng.randbytes(300 * a.bs - 17))
            self.recipe += [('file', 'd1', '000first', a.bs), ('file', 'd1', 'zzzbig', 300 * a.bs - 17)]
            r = a.run('sync', '--test-force-murmur3')
        if self.kind == 'rehash' and r.rc == 0:
            # a hash migration in progress: every stripe keeps its old-kind hashes and the rehash flag until a sync / scrub converts it
            r = a.run('rehash')
            self.recipe.append(('rehash', r.rc))
            model = None          # the migration is not in the model: oracle only
        self.n = {'trials': 0, 'model': 0, 'collisions': 0}
        self.samples = []
        if r.rc != 0:
            chk.violation('sync_failed', 'initial sync failed rc=%d %s' % (r.rc, r.err[-200:]), {'geom': geom, 'seed': seed}, no_input=True)
            self.ok = False
            return
        self.st = a.content()
        self.sv = Saved(a)
        perr, n = a.check_parity(self.st)
        for e in (a.check_map(self.st) + perr)[:2]:
            chk.violation('sync_inv', 'after the initial sync: %s' % e, {'geom': geom, 'seed': seed, 'recipe': self.recipe})
            self.ok = False
        self.stripes, self.order = a.stripes(self.st)
        self.mb = c01_model.ModelSide(a, self.st, model) if model else None
        self.used = sorted(p for p, b in self.stripes.items() if b)

    def geomstr(self):
        nd, np_, z, hs, nf, holes = self.geom[:6]
        return 'nd=%d np=%d%s hash=%s%s' % (nd, np_, ' z' if z else '', hs or 16, (' ' + self.kind) if self.kind else '')

    def data_blocks(self):
        out = []
        for pos, blocks in sorted(self.stripes.items()):
            for dp, (s, d, f, i, h) in sorted(blocks.items()):
                out.append((pos, d, f, i))
        return out

    # ---------------------------------------------------------------------------------------------------
    def run_trial(self, dmg, label, scrub_opts=()):
        """dmg: list of ('d', pos, disk, file, idx, shape) | ('p', pos, level, shape) | ('swap', disk, file, i, j)
        | ('t', disk, file): the file is only TOUCHED (same bytes, new time-stamp, not synced): not a corruption, nothing may be
        reported for it; but scrub compares the parity of its stripes as 'unsynced' (a parity mismatch there is a plain
        error, not a bad mark), while a silent corruption of ANOTHER, synced file of the stripe must still be marked bad"""
        a, chk, rng = self.arr, self.chk, self.rng
        restore(a, self.sv)
        self.n['trials'] += 1
        data_dmg = set()    # (pos, disk, sub)
        par_dmg = set()     # (pos, level)
        desc = []
        touched = set()     # stripes holding a block of a touched file
        for x in dmg:
            if x[0] == 't':
                _, d, f = x
                p = a.path(d, sub2rel(f['sub']))
                st_ = os.stat(p)
                os.utime(p, ns=(st_.st_mtime_ns + 3 * 10**9, st_.st_mtime_ns + 3 * 10**9))
                touched |= set(pos for s_, pos, h in f['blocks'])
                desc.append('touch %s:%s' % (d, sub2rel(f['sub'])))
                continue
            if x[0] == 'd':
                _, pos, d, f, i, sh = x
                damage_file_block(a, d, sub2rel(f['sub']), i, rng, sh)
                data_dmg.add((pos, d, f['sub']))
                desc.append('%s %s:%s[%d]@%d' % (sh, d, sub2rel(f['sub']), i, pos))
            elif x[0] == 'p':
                _, pos, l, sh = x
                damage_parity_block(a, l, pos, rng, sh)
                par_dmg.add((pos, l))
                desc.append('%s %s@%d' % (sh, levname(a, l), pos))
            else:
                _, d, f, i, j = x
                p = a.path(d, sub2rel(f['sub']))
                data = open(p, 'rb').read()
                bs = a.bs
                bi, bj = data[i * bs:(i + 1) * bs], data[j * bs:(j + 1) * bs]
                if len(bi) != len(bj) or bi == bj:
                    continue
                nd_ = bytearray(data)
                nd_[i * bs:(i + 1) * bs] = bj
                nd_[j * bs:(j + 1) * bs] = bi
                rewrite_keep_stamp(p, bytes(nd_))
                data_dmg.add((f['blocks'][i][1], d, f['sub']))
                data_dmg.add((f['blocks'][j][1], d, f['sub']))
                desc.append('swap %s:%s[%d]<->[%d]' % (d, sub2rel(f['sub']), i, j))
        # reduced hash sizes: a corrupted block may collide with the recorded hash (2^-16 per block with 2 bytes); the
        # theorems are conditional on collision freedom, so such a trial is counted and set aside, not judged
        hs = self.st['hashsize']
        if hs < 16 and self.st['hash'] == 'murmur3':
            for pos, d, sub in data_dmg:
                f = [x for x in self.st['disks'][d]['files'] if x['sub'] == sub][0]
                data = open(a.path(d, sub2rel(sub)), 'rb').read()
                for i, (st_, p_, h) in enumerate(f['blocks']):
                    if p_ == pos and murmur3_x86_128(data[i * a.bs:min((i + 1) * a.bs, f['size'])], self.st['seed'])[:hs] == h:
                        self.n['collisions'] += 1
                        return True
        replay = {'geom': self.geom, 'seed': self.seed, 'recipe': self.recipe, 'damage': desc,
                  'dmg': [[y if not isinstance(y, dict) else y['sub'].decode('latin1') for y in x] for x in dmg]}
        used = set(self.used)
        exp_data = set('error:%d:%s:%s' % (pos, d, sub.decode('latin1')) for pos, d, sub in data_dmg)
        exp_par = set('parity_error:%d:%s' % (pos, LEVNAME[l]) for pos, l in par_dmg if pos in used)
        per_stripe = {}
        for pos, d, sub in data_dmg:
            per_stripe[pos] = per_stripe.get(pos, 0) + 1
        for pos, l in par_dmg:
            per_stripe[pos] = per_stripe.get(pos, 0) + 1
        within = all(v <= a.np for v in per_stripe.values())
        stripes_with_data_err = set(pos for pos, d, sub in data_dmg)
        pre = {}
        if self.mb:
            for cmd, opts in (('check', []), ('check', ['-a']), ('scrub', ['-p', 'full'])):
                try:
                    pre[(cmd, tuple(opts))] = self.mb.predict(cmd, opts)
                except Exception as e:
                    chk.violation('model_error', 'the model could not be run (%s %s): %s' % (cmd, opts, e), replay, no_input=True)
        bad = []
        results = {}
        # ---- check (full)
        r = a.run('check')
        results[('check', ())] = r
        tags = interesting(r.tags)
        got_data = set(tagkey(t)[0] for t in tags if t.startswith('error:'))
        got_par_all = [tagkey(t) for t in tags if t.startswith('parity_error:')]
        got_par = set(h for h, rest in got_par_all if rest.startswith('Data error'))
        if got_data != exp_data:
            bad.append('check reports data errors %s, damaged are %s' % (sorted(got_data), sorted(exp_data)))
        if within:
            if got_par != exp_par:
                bad.append('check reports parity errors %s, damaged are %s' % (sorted(got_par), sorted(exp_par)))
        else:
            if not got_par <= exp_par:
                bad.append('check reports parity data errors %s on undamaged parity (damaged %s)' % (sorted(got_par - exp_par), sorted(exp_par)))
        if (r.rc != 0) != bool(exp_data or exp_par):
            bad.append('check exits %d with damage %s' % (r.rc, sorted(exp_data | exp_par)))
        # ---- check -a
        r = a.run('check', '-a')
        results[('check', ('-a',))] = r
        tags = interesting(r.tags)
        got = set(tagkey(t)[0] for t in tags if t.startswith(('error:', 'parity_error:')))
        if got != exp_data:
            bad.append('check -a reports %s, damaged data blocks are %s' % (sorted(got), sorted(exp_data)))
        if (r.rc != 0) != bool(exp_data):
            bad.append('check -a exits %d with damaged data %s' % (r.rc, sorted(exp_data)))
        # ---- scrub
        r = a.run('scrub', '-p', 'full', *scrub_opts)
        results[('scrub', ('-p', 'full'))] = r
        first_scrub_summary = r.summary()
        tags = interesting(r.tags)
        got_data = set(tagkey(t)[0] for t in tags if t.startswith('error:'))
        got_par = set(tagkey(t)[0] for t in tags if t.startswith('parity_error:'))
        exp_par_scrub = set('parity_error:%d:%s' % (pos, LEVNAME[l]) for pos, l in par_dmg if pos in used and pos not in stripes_with_data_err)
        if got_data != exp_data:
            bad.append('scrub reports data errors %s, damaged are %s' % (sorted(got_data), sorted(exp_data)))
        if got_par != exp_par_scrub:
            bad.append('scrub reports parity errors %s, expected %s' % (sorted(got_par), sorted(exp_par_scrub)))
        if (r.rc != 0) != bool(exp_data or exp_par):
            bad.append('scrub exits %d with damage %s' % (r.rc, sorted(exp_data | exp_par)))
        # a parity mismatch in a stripe that holds a touched (unsynced) file is a plain error: reported, not marked
        exp_bad = sorted(set(pos for pos, d, sub in data_dmg) | set(pos for pos, l in par_dmg if pos in used and (pos not in touched or pos in stripes_with_data_err) and pos not in (touched - stripes_with_data_err)))
        r = a.run('status', '-G')
        got_bad = sorted(int(t.split(':')[1]) for t in r.tags if t.startswith('block:') and t.split(':')[5] == 'bad')
        if got_bad != exp_bad:
            bad.append('after scrub status lists bad stripes %s, damaged stripes are %s' % (got_bad, exp_bad))
        hb = r.summary().get('has_bad')
        if hb is None or int(hb) != len(exp_bad):
            bad.append('status summary has_bad=%s, damaged stripes %d' % (hb, len(exp_bad)))
        try:
            st2 = a.content()
            marked = [p for p, i in enumerate(st2['info']) if i and i['bad']]
            if marked != exp_bad:
                bad.append('content file after scrub marks %s bad, damaged stripes are %s' % (marked, exp_bad))
        except Exception as e:
            bad.append('content file after scrub unreadable: %s' % e)
        # ---- a LATER scrub over the still damaged, already marked stripes (nothing repaired in between): the same tags, the same
        #      counters and a failing status again, whatever the plan that covers them
        if not touched:
            plan = [['-p', 'bad'], ['-p', 'full'], ['-p', '100', '-o', '0']][self.n['trials'] % 3]
            r = a.run('scrub', *(plan + list(scrub_opts)))
            tags = interesting(r.tags)
            got_data = set(tagkey(t)[0] for t in tags if t.startswith('error:'))
            got_par = set(tagkey(t)[0] for t in tags if t.startswith('parity_error:'))
            pl = ' '.join(plan)
            if got_data != exp_data:
                bad.append('a second scrub %s reports data errors %s, damaged are %s' % (pl, sorted(got_data), sorted(exp_data)))
            if got_par != exp_par_scrub:
                bad.append('a second scrub %s reports parity errors %s, expected %s' % (pl, sorted(got_par), sorted(exp_par_scrub)))
            if (r.rc != 0) != bool(exp_data or exp_par):
                bad.append('a second scrub %s exits %d with damage %s' % (pl, r.rc, sorted(exp_data | exp_par)))
            sm = r.summary()
            for k in ('error_file', 'error_io', 'error_data'):
                if sm.get(k) != first_scrub_summary.get(k):
                    bad.append('a second scrub %s counts %s=%s, the first scrub counted %s' % (pl, k, sm.get(k), first_scrub_summary.get(k)))
            if (sm.get('exit') == 'ok') != (not (exp_data or exp_par)):
                bad.append('a second scrub %s ends with summary:exit:%s with damage %s' % (pl, sm.get('exit'), sorted(exp_data | exp_par)))
        if self.kind == 'rehash' and not touched:
            # the scrub has converted the healthy stripes and must have left the bad ones as they were: the SAME errors, and no
            # other, are reported by the commands that follow it
            r = a.run('check')
            tags = interesting(r.tags)
            got_data = set(tagkey(t)[0] for t in tags if t.startswith('error:'))
            got_par = set(h for h, rest in (tagkey(t) for t in tags if t.startswith('parity_error:')) if rest.startswith('Data error'))
            if got_data != exp_data:
                bad.append('check AFTER the scrub reports data errors %s, damaged are %s' % (sorted(got_data), sorted(exp_data)))
            if within and got_par != exp_par:
                bad.append('check AFTER the scrub reports parity errors %s, damaged are %s' % (sorted(got_par), sorted(exp_par)))
            r = a.run('check', '-a')
            got = set(tagkey(t)[0] for t in interesting(r.tags) if t.startswith(('error:', 'parity_error:')))
            if got != exp_data or (r.rc != 0) != bool(exp_data):
                bad.append('check -a AFTER the scrub reports %s (exit %d), damaged data blocks are %s' % (sorted(got), r.rc, sorted(exp_data)))
            r = a.run('scrub', '-p', 'bad')
            got = set(tagkey(t)[0] for t in interesting(r.tags) if t.startswith('error:'))
            if got != exp_data:
                bad.append('scrub -p bad AFTER the scrub reports data errors %s, damaged are %s' % (sorted(got), sorted(exp_data)))
        for b in bad[:2]:
            chk.violation(label, '%s, corruption [%s]: %s' % (self.geomstr(), '; '.join(desc)[:300], b), dict(replay, problems=bad))
        if not bad:
            for key, pred in pre.items():
                if pred is None:
                    continue
                self.n['model'] += 1
                dd = self.mb.compare(pred, results[key], key[0], key[1])
                if dd:
                    chk.violation('drift_' + label, 'MODEL-DRIFT: model of `%s %s` disagrees with the real run (which satisfies the property here): %s' % (key[0], ' '.join(key[1]), dd[0]),
                                  dict(replay, diffs=dd[:6]), no_input=True)
                    break
        if len(self.samples) < 3 and desc:
            self.samples.append({'geom': self.geomstr(), 'damage': desc[:4], 'expected_tags': sorted(exp_data | exp_par)[:4], 'bad_stripes': exp_bad[:6]})
        return not bad

    def singles(self, shapes_per_block):
        a, rng = self.arr, self.rng
        self.run_trial([], 'clean')
        for (pos, d, f, i) in self.data_blocks():
            for sh in rng.sample(SHAPES, shapes_per_block):
                self.run_trial([('d', pos, d, f, i, sh)], 'single_data')
                if len(self.chk.violations) > 8:
                    return
        npos = self.st['blockmax']
        for l in range(a.np):
            for pos in range(npos):
                for sh in rng.sample(SHAPES, max(1, shapes_per_block - 1)):
                    self.run_trial([('p', pos, l, sh)], 'single_parity')
                    if len(self.chk.violations) > 8:
                        return
        # swaps
        for dname, dd in sorted(self.st['disks'].items()):
            for f in dd['files']:
                full = [i for i in range(len(f['blocks'])) if (i + 1) * a.bs <= f['size']]
                if len(full) >= 2:
                    i, j = rng.sample(full, 2)
                    self.run_trial([('swap', dname, f, i, j)], 'swap')

    def touched_neighbours(self, n):
        """a silently corrupted block of a synced file in a stripe where ANOTHER disk holds a block of a touched file"""
        a, rng = self.arr, self.rng
        cands = []
        for pos, blocks in sorted(self.stripes.items()):
            if len(blocks) >= 2:
                for dp, (s, d, f, i, h) in blocks.items():
                    for dp2, (s2, d2, f2, i2, h2) in blocks.items():
                        if dp2 != dp:
                            cands.append((pos, d, f, i, d2, f2))
        rng.shuffle(cands)
        for (pos, d, f, i, d2, f2) in cands[:n]:
            self.run_trial([('t', d2, f2), ('d', pos, d, f, i, rng.choice(SHAPES))], 'touched_neighbour')
            if rng.random() < 0.4:
                self.run_trial([('t', d2, f2), ('p', pos, rng.randrange(a.np), rng.choice(SHAPES))], 'touched_parity')
            if len(self.chk.violations) > 8:
                return

    def combos(self, n):
        a, rng = self.arr, self.rng
        blocks = self.data_blocks()
        npos = self.st['blockmax']
        for _ in range(n):
            k = rng.randint(2, 5)
            dmg = []
            seen = set()
            if rng.random() < 0.3 and blocks:
                # a touched file that is not corrupted itself
                pos, d, f, i = rng.choice(blocks)
                dmg.append(('t', d, f))
                for j in range(len(f['blocks'])):
                    seen.add((d, f['sub'], j))
            for _ in range(k):
                if rng.random() < 0.55 and blocks:
                    pos, d, f, i = rng.choice(blocks)
                    if (d, f['sub'], i) in seen:
                        continue
                    seen.add((d, f['sub'], i))
                    dmg.append(('d', pos, d, f, i, rng.choice(SHAPES)))
                elif npos:
                    pos, l = rng.randrange(npos), rng.randrange(a.np)
                    if (pos, l) in seen:
                        continue
                    seen.add((pos, l))
                    dmg.append(('p', pos, l, rng.choice(SHAPES)))
            self.run_trial(dmg, 'combo')
            if len(self.chk.violations) > 8:
                return

    def touched_earlier(self, n, depths=(3, 8)):
        """a file touched (or rewritten) since the sync EARLIER on a disk, and a silent corruption of a fully synced file of the SAME disk in
        a later stripe whose distance is a multiple of the read-ahead ring depth (--test-io-cache N; 128 by default): the ring slot
        of the touched stripe is reused, the corruption must still be a located Data error with a bad mark"""
        a, rng = self.arr, self.rng
        per_disk = {}
        for pos, blocks in sorted(self.stripes.items()):
            for dp, (s_, d, f, i, h) in blocks.items():
                if f is not None:
                    per_disk.setdefault(d, []).append((pos, f, i))
        done = 0
        for depth in depths:
            cands = []
            for d, lst in per_disk.items():
                for (p0, f0, i0) in lst:
                    for (p1, f1, i1) in lst:
                        if p1 > p0 and (p1 - p0) % depth == 0 and f1['sub'] != f0['sub']:
                            cands.append((d, f0, p1, f1, i1))
            rng.shuffle(cands)
            for (d, f0, p1, f1, i1) in cands[:n]:
                opts = ['--test-io-cache', str(depth)] if depth != 128 else []
                self.run_trial([('t', d, f0), ('d', p1, d, f1, i1, rng.choice(SHAPES))], 'touched_earlier', scrub_opts=opts)
                done += 1
                if len(self.chk.violations) > 8:
                    return done
        return done

    def variants(self, n):
        """coverage round: the option variants of check on a damaged array -- `-v` (status:correct for every intact file), `-a -d <disk>`
        (audit only + disk filter: excluded files are not even read), `-S/-B` block ranges, and check with a whole parity FILE missing
        ("only files will be checked")"""
        a, chk, rng = self.arr, self.chk, self.rng
        blocks = self.data_blocks()
        npos = self.st['blockmax']
        if not blocks or not npos:
            return
        for _ in range(n):
            restore(a, self.sv)
            self.n['trials'] += 1
            data_dmg, par_dmg, desc = set(), set(), []
            for pos, d, f, i in rng.sample(blocks, min(len(blocks), rng.randint(1, 3))):
                sh = rng.choice(SHAPES)
                damage_file_block(a, d, sub2rel(f['sub']), i, rng, sh)
                data_dmg.add((pos, d, f['sub']))
                desc.append('%s %s:%s[%d]@%d' % (sh, d, sub2rel(f['sub']), i, pos))
            if rng.random() < 0.5:
                pos, l = rng.randrange(npos), rng.randrange(a.np)
                damage_parity_block(a, l, pos, rng, 'block')
                par_dmg.add((pos, l))
                desc.append('block %s@%d' % (levname(a, l), pos))
            hs = self.st['hashsize']
            if hs < 16:
                continue        # collisions of reduced hashes are handled in run_trial only
            replay = {'geom': self.geom, 'seed': self.seed, 'recipe': self.recipe, 'damage': desc, 'kind': 'variants'}
            exp_data = set('error:%d:%s:%s' % (pos, d, sub.decode('latin1')) for pos, d, sub in data_dmg)
            bad = []
            # ---- check -v
            pre = None
            r = a.run('check', '-v')
            tags = interesting(r.tags)
            got_data = set(tagkey(t)[0] for t in tags if t.startswith('error:'))
            if got_data != exp_data:
                bad.append('check -v reports data errors %s, damaged are %s' % (sorted(got_data), sorted(exp_data)))
            damaged_files = set((d, sub) for pos, d, sub in data_dmg)
            exp_correct = set('status:correct:%s:%s' % (d, f['sub'].decode('latin1')) for d, dd in self.st['disks'].items() for f in dd['files']
                              if f['size'] > 0 and (d, f['sub']) not in damaged_files)
            got_correct = set(t.replace('\\', '') for t in r.tags if t.startswith('status:correct:'))
            if got_correct != exp_correct:
                bad.append('check -v lists as correct %s, intact files are %s' % (sorted(got_correct ^ exp_correct)[:4], len(exp_correct)))
            # ---- check -a -d <disk>
            dsel = rng.choice(a.disks)
            if self.mb:
                try:
                    pre = self.mb.predict('check', ['-a', '-d', dsel])
                except Exception as e:
                    pre = None
            r = a.run('check', '-a', '-d', dsel)
            got = set(tagkey(t)[0] for t in interesting(r.tags) if t.startswith(('error:', 'parity_error:')))
            exp = set(x for x in exp_data if x.split(':')[2] == dsel)
            if got != exp:
                bad.append('check -a -d %s reports %s, damaged data blocks of that disk are %s' % (dsel, sorted(got), sorted(exp)))
            if (r.rc != 0) != bool(exp):
                bad.append('check -a -d %s exits %d with damaged data %s' % (dsel, r.rc, sorted(exp)))
            if pre is not None and not bad:
                self.n['model'] += 1
                dd = self.mb.compare(pre, r, 'check', ('-a', '-d', dsel))
                if dd:
                    chk.violation('drift_variants', 'MODEL-DRIFT: model of `check -a -d %s` disagrees with the real run: %s' % (dsel, dd[0]), dict(replay, diffs=dd[:6]), no_input=True)
            # ---- check -S s -B n : only the stripes of the range
            s0 = rng.randrange(npos)
            cnt = rng.randint(1, max(1, npos - s0))
            rngset = set(range(s0, min(npos, s0 + cnt)))
            pre = None
            if self.mb:
                try:
                    pre = self.mb.predict('check', ['-S', str(s0), '-B', str(cnt)])
                except Exception as e:
                    pre = None
            r = a.run('check', '-S', str(s0), '-B', str(cnt))
            got = set(tagkey(t)[0] for t in interesting(r.tags) if t.startswith('error:'))
            exp = set(x for x in exp_data if int(x.split(':')[1]) in rngset)
            if got != exp:
                bad.append('check -S %d -B %d reports data errors %s, damaged blocks in the range are %s' % (s0, cnt, sorted(got), sorted(exp)))
            gotp = set(tagkey(t)[0] for t in interesting(r.tags) if t.startswith('parity_error:'))
            if any(int(x.split(':')[1]) not in rngset for x in gotp):
                bad.append('check -S %d -B %d reports parity errors outside the range: %s' % (s0, cnt, sorted(gotp)))
            if pre is not None and not bad:
                self.n['model'] += 1
                dd = self.mb.compare(pre, r, 'check', ('-S', str(s0), '-B', str(cnt)))
                if dd:
                    chk.violation('drift_variants', 'MODEL-DRIFT: model of `check -S %d -B %d` disagrees with the real run: %s' % (s0, cnt, dd[0]), dict(replay, diffs=dd[:6]), no_input=True)
            # ---- a whole parity file missing: the data errors are still located (the parity of that level cannot be)
            l = rng.randrange(a.np)
            for pf in a.parity_files[l]:
                if os.path.exists(pf):
                    os.unlink(pf)
            pre = None
            if self.mb:
                try:
                    mb2 = c01_model.ModelSide(a, self.st, self.mb.model)
                    pre = mb2.predict('check', [])
                except Exception as e:
                    pre = None
            r = a.run('check')
            got = set(tagkey(t)[0] for t in interesting(r.tags) if t.startswith('error:'))
            if got != exp_data:
                bad.append('check without the %s file reports data errors %s, damaged are %s' % (levname(a, l), sorted(got), sorted(exp_data)))
            if exp_data and r.rc == 0:
                bad.append('check without the %s file exits 0 with damaged data %s' % (levname(a, l), sorted(exp_data)))
            if any(t.startswith('parity_error:') and tagkey(t)[0].endswith(':' + LEVNAME[l]) for t in interesting(r.tags)):
                bad.append('check without the %s file reports parity errors of that level' % levname(a, l))
            if pre is not None and not bad:
                self.n['model'] += 1
                dd = mb2.compare(pre, r, 'check', ())
                if dd:
                    chk.violation('drift_variants', 'MODEL-DRIFT: model of `check` with the %s file missing disagrees with the real run: %s' % (levname(a, l), dd[0]), dict(replay, diffs=dd[:6]), no_input=True)
            for b in bad[:2]:
                chk.violation('variants', '%s, corruption [%s]: %s' % (self.geomstr(), '; '.join(desc)[:300], b), dict(replay, problems=bad))
            if len(chk.violations) > 8:
                return
        restore(a, self.sv)

    def close(self):
        shutil.rmtree(self.arr.root, ignore_errors=True)


def large_offset_trial(chk, binary, rng):
    """a data file larger than 4 GiB (SPARSE: only the tail and a marker are written; block size 4 MiB so that 4 GiB are 1024 blocks),
    silent corruption in a block that starts beyond 2^32 bytes: check -a and scrub must name exactly that block"""
    bs_kib = 4096
    bs = bs_kib * 1024
    a = Array(binary, nd=2, np_=1, blocksize_kib=bs_kib)
    out = {}
    try:
        p = a.path('d1', 'big')
        tail = rng.randbytes(2 * bs + 12345)
        with open(p, 'wb') as f:
            f.seek(1 << 32)
            f.write(tail)
            f.seek(bs + 77)
            f.write(b'low-part-marker' * 1000)
        if os.stat(p).st_blocks * 512 > (1 << 30):
            chk.notes.append('large offsets: the file system does not keep the file sparse, family skipped')
            return out
        a.write('d2', 'small', rng.randbytes(3000))
        t0 = time.time()
        r = a.run('sync', timeout=600)
        if r.rc != 0:
            chk.violation('large_sync', 'sync of an array with a sparse file of 4 GiB + %d bytes (blocksize %d KiB) exits %d: %s' % (len(tail), bs_kib, r.rc, r.err[-200:]), {'kind': 'large'}, no_input=True)
            return out
        nblk = ((1 << 32) + len(tail) + bs - 1) // bs
        idx = rng.choice([1024, 1025, nblk - 1])           # block index in the file = stripe position (first file of the disk)
        off = idx * bs + rng.randrange(min(bs, (1 << 32) + len(tail) - idx * bs))
        st = os.stat(p)
        with open(p, 'r+b') as f:
            f.seek(off); b = f.read(1)
            f.seek(off); f.write(bytes([b[0] ^ 0x10]))
        os.utime(p, ns=(st.st_atime_ns, st.st_mtime_ns))
        exp = {'error:%d:d1:big' % idx}
        bad = []
        r = a.run('check', '-a', timeout=600)
        got = set(tagkey(t)[0] for t in interesting(r.tags) if t.startswith('error:'))
        if got != exp or r.rc == 0:
            bad.append('check -a reports %s (exit %d), the damaged block is %s' % (sorted(got), r.rc, sorted(exp)))
        r = a.run('scrub', '-p', 'full', timeout=600)
        got = set(tagkey(t)[0] for t in interesting(r.tags) if t.startswith('error:'))
        if got != exp or r.rc == 0:
            bad.append('scrub -p full reports %s (exit %d), the damaged block is %s' % (sorted(got), r.rc, sorted(exp)))
        r = a.run('status', '-G')
        got_bad = sorted(int(t.split(':')[1]) for t in r.tags if t.startswith('block:') and t.split(':')[5] == 'bad')
        if got_bad != [idx]:
            bad.append('after scrub status lists bad stripes %s, damaged stripe is %d' % (got_bad, idx))
        out = {'file_bytes': (1 << 32) + len(tail), 'blocksize': bs, 'damaged_block': idx, 'offset': off, 'seconds': round(time.time() - t0, 1)}
        for b_ in bad[:2]:
            chk.violation('large_offset', 'file of 4 GiB + %d bytes, blocksize %d KiB, one bit flipped at offset %d (block %d): %s' % (len(tail), bs_kib, off, idx, b_), {'kind': 'large', 'offset': off, 'block': idx, 'problems': bad})
    finally:
        shutil.rmtree(a.root, ignore_errors=True)
    return out


def observations04(chk, binary):
    """a behaviour at the edge of the property, measured on every run and recorded in the evidence (proposed key, not a violation until
    the lead lists it): `check` on an array whose whole parity file of one level is gone prints the open error, says "only files
    will be checked", and ends with summary:exit:ok / exit status 0 -- the lost level is not reported as an error"""
    a = Array(binary, nd=2, np_=2)
    out = {}
    try:
        a.write('d1', 'a', bytes([1]) * 2560, mtime_ns=1700000000 * 10**9)
        a.write('d2', 'b', bytes([4]) * 1024, mtime_ns=1700000000 * 10**9)
        if a.run('sync').rc == 0:
            os.unlink(a.parity_files[1][0])
            r = a.run('check')
            out['check_with_parity_file_missing'] = {'rc': r.rc, 'exit': r.summary().get('exit'), 'stderr': r.err.strip().splitlines()[:1]}
            if r.rc == 0:
                key = 'F-C04-check-ok-with-parity-file-missing'
                msg = 'with the whole 2-parity file deleted `check` exits 0 with summary:exit:ok (stderr: %s; status: "No accessible 2-Parity file, only files will be checked")' % (r.err.strip().splitlines() or [''])[0][:120]
                if any(k.get('property') == 'C04' and k.get('key') == key for k in chk.kf):
                    chk.violation('obs_parity_file_missing', msg, {'recipe': '2 data disks, 2 parities; sync; rm the 2-parity file; check'}, finding_key=key)
                else:
                    chk.notes.append('OBSERVATION parity-file-missing (proposed key %s): %s' % (key, msg))
    finally:
        shutil.rmtree(a.root, ignore_errors=True)
    return out


def main(tier, replay=None):
    chk = Check('C04', tier, 'proof')
    snap = snapshot_repo()
    regen(snap)
    try:
        binary = build_tool(snap)
    except BuildError as e:
        chk.violation('build', 'working tree does not build: ' + str(e)[:500], {'error': str(e)}, no_input=True)
        return chk.finish()
    ob = check_obligations('C04')
    proof_coverage(chk, ob, 'make -f Makefile.coq -k Props/Properties_C04*.vo (coqc 8.16.1) + Print Assumptions',
                   c01_model.TRUSTED + ['coq/Scrub/ScrubModel.v stripe_outcome / scrub_update (C15) reused for the scrub step'])
    try:
        model = build_model('Extract/Extract_C01.vo', 'ocaml/C01', 'c01_ext', 'driver.ml', 'model')
    except BuildError as e:
        model = None
        chk.violation('model_build', 'the extracted check model does not build: %s' % str(e)[-400:], {'error': str(e)[-2000:]}, no_input=True)
    rng = chk.rng
    geoms = GEOMS_QUICK if tier == 'quick' else GEOMS_THOROUGH

    if replay:
        rp = json.load(open(replay))['replay']
        A = Arr04(chk, binary, model, tuple(rp['geom']), rp['seed'])
        if A.ok:
            byname = {(d, f['sub'].decode('latin1')): f for d, dd in A.st['disks'].items() for f in dd['files']}
            dmg = []
            for x in rp['dmg']:
                if x[0] == 'd':
                    dmg.append(('d', x[1], x[2], byname[(x[2], x[3])], x[4], x[5]))
                elif x[0] == 'p':
                    dmg.append(tuple(x))
                elif x[0] == 't':
                    dmg.append(('t', x[1], byname[(x[1], x[2])]))
                else:
                    dmg.append(('swap', x[1], byname[(x[1], x[2])], x[3], x[4]))
            A.run_trial(dmg, 'replay')
        A.close()
        return chk.finish()

    jobs = [(g, rng.getrandbits(32)) for g in geoms]
    tot = {'trials': 0, 'model': 0, 'collisions': 0}
    samples = []

    def one(job):
        g, seed = job
        A = Arr04(chk, binary, model, g, seed)
        if A.ok and A.kind == 'deep':
            A.touched_earlier(3 if tier == 'quick' else 12, depths=(128, 8, 3))
        elif A.ok:
            A.touched_earlier(2 if tier == 'quick' else 10)
            A.singles(2 if tier == 'quick' else 6)
            A.touched_neighbours(8 if tier == 'quick' else 60)
            A.combos(15 if tier == 'quick' else 120)
            A.variants(3 if tier == 'quick' else 25)
        A.close()
        return A
    lrng = random.Random(rng.getrandbits(32))
    with cf.ThreadPoolExecutor(max_workers=min(8, NCPU)) as ex:
        lf = ex.submit(large_offset_trial, chk, binary, lrng)      # runs beside the other arrays (mostly kernel time)
        for A in ex.map(one, jobs):
            tot['trials'] += A.n['trials']; tot['model'] += A.n['model']; tot['collisions'] += A.n['collisions']
            samples += A.samples[:1]
        try:
            chk.cov['large_offsets'] = lf.result()
        except Exception as e:
            chk.notes.append('large offset family failed: %s' % e)
    chk.cov.update({'evaluations': tot['trials'] * 4, 'distinct_nontrivial': tot['trials'],
                    'rule': 'arrays %s (nd, np, z, hash size, files, holes from a delete+sync); EVERY file block and EVERY parity block of every level corrupted alone with shapes from %s (size+mtime kept), swaps of two full blocks of a file, random combinations of 2-5 blocks, and the undamaged array; per trial: exact restore, real check / check -a / scrub -p full / status -G, tag sets compared for equality with the prediction made from the damage list, exit statuses, bad marks from status and from the independently decoded content file; non-trivial = trials (4 commands each)' % ([g[:4] for g in geoms], SHAPES),
                    'commands_replayed_by_model': tot['model'], 'traces_validated_against_impl': tot['model'],
                    'trials_set_aside_for_a_hash_collision_of_a_reduced_hash': tot['collisions']})
    chk.cov['samples'] = samples
    try:
        chk.cov['observations'] = observations04(chk, binary)
    except Exception as e:
        chk.notes.append('observations failed: %s' % e)
    if ob['failed'] and not chk.violations:
        chk.violation('obligation', 'proof obligation of C04 no longer checks: %s' % ob['failed'][0],
                      {'theorem_file': 'coq/Props/Properties_C04.v', 'failed': ob['failed'], 'log_tail': ob['log'][-1500:]}, no_input=True)
    chk.assumptions += c01_model.ASSUMPTIONS + ['with a 2-byte hash a corrupted block collides with the recorded hash with probability 2^-16 per trial; the theorems are conditional on collision-freedom']
    return chk.finish()
