"""C05 -- fix never silently leaves or produces wrong data.

   Histories in the dangerous region (partial / killed syncs, stripes skipped because a file vanished, changed or could
   not be read during the sync, re-used positions, deletes that empty whole stripes), then ANY damage, then `fix` with
   random filters.  Judge: the harness version store.  Every file named in the content file and selected by the filters
   must have exactly the bytes of the recorded version, or be reported (status:unrecoverable / unrecoverable: tag and a
   failing exit status); files not selected and unknown paths must be byte identical to before.

   The known findings (DESIGN.md section 5: b, c; d found by this check; a was repaired in /repo and is kept as a regression
   case: its signature is no longer tolerated) are replayed first from corpus/C05/.  A wrong file produced by a
   generated history is attributed to one of them only when the independent diagnosis shows that the hypothesis of
   `fix_never_wrong_partial` fails in exactly that finding's way (past hash of a CHG block that is not the hash of what
   the parity encodes: a; compared over another length than it was taken over: b; ZERO although the parity encodes
   non-zero data: c); anything else is a plain VIOLATION."""
import os, sys, json, time, shutil, itertools, glob
import concurrent.futures as cf
from common import *
from arraylib import *
from c01_lib import *
import c01_model

KEY_A = 'F-C05a-chg-hash-skipped-stripe'      # repaired in /repo (0d034b0): listed `fixed`, suppresses nothing -> a plain VIOLATION
KEY_B = 'F-C05b-past-hash-length'
KEY_C = 'F-C05c-all-deleted-stripe-zero-hash'
KEY_D = 'F-C05d-reduced-hash-markers-ignored'    # found by this check (listed in known_findings.json)
KEY_U = 'F-C05-unrecoverable-taken-back-chg-trusted'   # proposed: a <name>.unrecoverable left by an earlier fix is renamed back by the next fix and its blocks without a recorded hash (CHG) are trusted
SYNC_OPTS = ['--force-empty', '--force-zero', '--test-force-murmur3']
NAMES = ['A', 'B', 'C', 'K', 'X', 'Y', 'zK', 'sub/M', 'sub/N', 'P']


class Hist05:
    def __init__(self, chk, binary, shim, model, geom, seed):
        self.chk, self.geom, self.seed = chk, geom, seed
        nd, np_, hs = geom
        self.rng = random.Random(seed)
        self.arr = Array(binary, nd=nd, np_=np_, hashsize=hs, shim=shim)
        self.model = model
        self.log = []
        self.clock = 1700000000 * 10**9 + self.rng.randrange(10**9)
        self.stats = {'cmds': 0, 'model': 0, 'files_judged': 0, 'known': 0, 'reported_unrecoverable': 0, 'recovered': 0}
        self.mb = None
        self.ever_used, self.dropped = set(), set()
        self.cand = {}      # (disk, position) -> padded blocks ever recorded there (candidates for what the parity encodes)

    def sopts(self):
        return ['--force-empty', '--force-zero', getattr(self, 'hashflag', '--test-force-murmur3')]

    # ------------------------------------------------------------------------------------------- operations
    def do(self, op):
        """execute one logged operation; returns the Result for tool commands"""
        a = self.arr
        self.log.append(list(op))
        k = op[0]
        if k == 'write':
            _, d, n, size, dseed = op
            self.clock += 10**9 + 12345
            a.write(d, n, random.Random(dseed).randbytes(size), mtime_ns=self.clock)
        elif k == 'remove':
            if os.path.lexists(a.path(op[1], op[2])):
                a.remove(op[1], op[2])
        elif k in ('copy', 'move'):
            # cp -p / mv to the same relative name on another disk: same name, size and time-stamp -> copy detection (REP blocks)
            _, d, n, d2 = op
            p, q = a.path(d, n), a.path(d2, n)
            if os.path.isfile(p) and not os.path.lexists(q):
                os.makedirs(os.path.dirname(q), exist_ok=True)
                st = os.stat(p)
                shutil.copyfile(p, q)
                os.utime(q, ns=(st.st_mtime_ns, st.st_mtime_ns))
                a.note_version(d2, n)
                if k == 'move':
                    os.unlink(p)
        elif k == 'utime':
            p = a.path(op[1], op[2])
            if os.path.isfile(p):
                os.utime(p, ns=(op[3], op[3]))
        elif k == 'sync':
            r = a.run('sync', *(self.sopts() + list(op[1:])))
            self.after_sync(r)
            return r
        elif k == 'sync_run':
            _, what, d, n = op[:4]
            p = a.path(d, n)
            cmd = {'touch': 'touch -d 2001-01-01 "%s"' % p, 'rm': 'rm -f "%s"' % p}[what]
            r = a.run('sync', *(self.sopts() + ['--test-run', cmd] + list(op[4:])))
            self.after_sync(r)
            return r
        elif k == 'sync_eio':
            _, d, n, kth = op[:4]
            r = a.run('sync', *(self.sopts() + list(op[4:])), shim_env={'VSHIM_FAIL': 'pread:%s:%d:5' % (a.path(d, n), kth)})
            self.after_sync(r)
            return r
        elif k == 'scrub':
            r = a.run('scrub', '-p', 'full')
            self.stats['cmds'] += 1
            return r
        elif k == 'scrub_part':
            # a partial scrub: with a rehash pending it moves the scrubbed blocks (only) to the new hash
            r = a.run('scrub', '-p', str(op[1]), '-o', '0')
            self.stats['cmds'] += 1
            self.note_content()
            return r
        elif k == 'rehash':
            # schedule a hash migration: from now on every block carries the rehash flag until a sync / scrub processes it
            self.hashflag = '--test-force-spooky2'
            r = a.run('rehash', self.hashflag)
            self.stats['cmds'] += 1
            self.log[-1].append('rc=%d' % r.rc)
            self.model = None         # a hash migration is not in the fix model: these histories are judged by the oracle only
            self.note_content()
            return r
        elif k == 'damage':
            self.damage(op)
        elif k == 'fix':
            return self.fix(list(op[1:]))
        return None

    def after_sync(self, r):
        self.stats['cmds'] += 1
        self.log[-1].append('rc=%d' % r.rc)
        a = self.arr
        # every on-disk file state is a version (a touch during the sync changes only the mtime)
        for (d, rel), v in a.snapshot_data().items():
            if v[0] == 'f':
                vs = a.store.setdefault((d, rel), [])
                if (v[1], v[2]) not in vs:
                    vs.append((v[1], v[2]))
        self.note_content()

    def note_content(self):
        a = self.arr
        try:
            st = a.content()
        except Exception:
            return None
        bs = a.bs
        # positions that a saved content file no longer mentions on any disk (neither as file block nor as DELETED block) after
        # an earlier one did: the stripes dropped without a parity update, the mechanism of F-C05c
        used = set()
        for d, dd in st['disks'].items():
            for f in dd['files']:
                used.update(pos for (_s, pos, _h) in f['blocks'])
            used.update(dd.get('deleted', {}).keys())
        self.dropped |= (self.ever_used - used)
        self.ever_used |= used
        for d, dd in st['disks'].items():
            for f in dd['files']:
                v = a.find_version(d, f)
                vs = [v] if v is not None else [x for x, mt in a.store.get((d, f['sub'].decode('latin1')), []) if len(x) == f['size']]
                for v in vs:
                    for i, (s_, pos, h) in enumerate(f['blocks']):
                        b = v[i * bs:(i + 1) * bs]
                        self.cand.setdefault((d, pos), set()).add(b + bytes(bs - len(b)))
        return st

    def damage(self, op):
        a = self.arr
        kind = op[1]
        if kind == 'rm':
            p = a.path(op[2], op[3])
            if os.path.lexists(p):
                os.unlink(p)
        elif kind == 'wipe':
            wipe_disk(a, op[2])
        elif kind == 'truncate':
            p = a.path(op[2], op[3])
            if os.path.isfile(p):
                data = open(p, 'rb').read()
                rewrite_keep_stamp(p, data[:min(op[4], len(data))])
        elif kind == 'flip':
            # only blocks that have a recorded hash (BLK / REP): a change in a block without hash is not detectable damage
            _, _, d, n, idx, shape, dseed = op
            p = a.path(d, n)
            if os.path.isfile(p) and os.path.getsize(p) > idx * a.bs:
                damage_file_block(a, d, n, idx, random.Random(dseed), shape)
        elif kind == 'parity':
            _, _, l, pk, dseed = op
            damage_parity(a, l, pk, random.Random(dseed))

    # ------------------------------------------------------------------------------------------- generator
    def gen_fs_changes(self, first):
        rng, a = self.rng, self.arr
        ops = []
        existing = sorted((d, rel) for (d, rel), v in a.snapshot_data().items() if v[0] == 'f')
        n = rng.randint(3, 7) if first else rng.randint(1, 4)
        for _ in range(n):
            c = rng.random()
            if first or c < 0.35 or not existing:
                d = rng.choice(a.disks); nme = rng.choice(NAMES)
                ops.append(('write', d, nme, rng.choice(SIZES[1:]), rng.getrandbits(32)))
            elif c < 0.47 and a.nd > 1:
                d, nme = rng.choice(existing)
                d2 = rng.choice([x for x in a.disks if x != d])
                ops.append((rng.choice(['copy', 'move']), d, nme, d2))
            elif c < 0.65:
                d, nme = rng.choice(existing)
                cur = os.path.getsize(a.path(d, nme)) if os.path.exists(a.path(d, nme)) else 1024
                size = cur if rng.random() < 0.4 else rng.choice(SIZES[1:])
                ops.append(('write', d, nme, size, rng.getrandbits(32)))
            else:
                d, nme = rng.choice(existing)
                ops.append(('remove', d, nme))
                if rng.random() < 0.4:
                    # empty whole stripes: remove everything on the other disks too
                    for (d2, n2) in existing:
                        if rng.random() < 0.6:
                            ops.append(('remove', d2, n2))
        return ops

    def gen_sync(self):
        rng, a = self.rng, self.arr
        existing = sorted((d, rel) for (d, rel), v in a.snapshot_data().items() if v[0] == 'f' and len(v[1]) > 0)
        c = rng.random()
        if c < 0.2:
            return ('sync',)
        if c < 0.45:
            o = ['-B', str(rng.randint(1, 3))]
            if rng.random() < 0.5:
                o = ['-S', str(rng.randint(0, 3))] + o
            return tuple(['sync'] + o)
        if c < 0.55:
            return ('sync', '--test-kill-after-sync')
        if c < 0.62:
            return ('sync', '--test-force-autosave-at', str(rng.randint(0, 3)), '--test-kill-after-sync')
        if existing and c < 0.85:
            d, nme = rng.choice(existing)
            return ('sync_run', rng.choice(['touch', 'touch', 'rm']), d, nme)
        if existing:
            d, nme = rng.choice(existing)
            return ('sync_eio', d, nme, rng.randint(1, 2))
        return ('sync',)

    def gen_damage(self):
        rng, a = self.rng, self.arr
        ops = []
        try:
            st = a.content()
        except Exception:
            return ops
        files = [(d, f) for d, dd in st['disks'].items() for f in dd['files']]
        c = rng.random()
        if files:
            if c < 0.5:
                for d, f in rng.sample(files, min(len(files), rng.randint(1, 3))):
                    ops.append(('damage', 'rm', d, sub2rel(f['sub'])))
            elif c < 0.65:
                for d in rng.sample(a.disks, rng.randint(1, a.nd)):
                    ops.append(('damage', 'wipe', d))
            elif c < 0.8:
                for d, f in rng.sample(files, min(len(files), rng.randint(1, 3))):
                    if f['size']:
                        ops.append(('damage', 'truncate', d, sub2rel(f['sub']), rng.randrange(f['size'])))
            else:
                for d, f in rng.sample(files, min(len(files), rng.randint(1, 3))):
                    for i, (s, pos, h) in enumerate(f['blocks']):
                        if s in ('BLK', 'REP') and rng.random() < 0.6:
                            ops.append(('damage', 'flip', d, sub2rel(f['sub']), i, rng.choice(SHAPES), rng.getrandbits(32)))
            if rng.random() < 0.3:
                d, f = rng.choice(files)
                ops.append(('damage', 'rm', d, sub2rel(f['sub'])))
        if rng.random() < 0.35:
            zeroed = False
            for l in rng.sample(range(a.np), rng.randint(1, a.np)):
                pk = rng.choice(PAR_KINDS)
                if pk == 'zero':
                    # two zero-filled levels are mutually consistent: not detectable damage (see the report); one at most
                    if zeroed:
                        pk = 'garbage'
                    zeroed = True
                ops.append(('damage', 'parity', l, pk, rng.getrandbits(32)))
        return ops

    def gen_fix(self):
        rng, a = self.rng, self.arr
        c = rng.random()
        if c < 0.3:
            return ('fix',)
        if c < 0.6:
            return ('fix', '-m')
        if c < 0.72:
            return ('fix', '-d', rng.choice(a.disks))
        if c < 0.84:
            return ('fix', '-f', rng.choice(NAMES).split('/')[-1])
        if c < 0.88:
            return ('fix', '-m', '-d', rng.choice(a.disks))
        if c < 0.93:
            # a block range from the start: files that end beyond it and had to be created are removed again (not FINISHED)
            return ('fix', '-B', str(rng.randint(1, 6)))
        if c < 0.96:
            return ('fix', '-b')      # --filter-block-error: only the stripes marked bad
        return ('fix', '-e')

    def run_generated(self):
        for op in self.gen_fs_changes(True):
            self.do(op)
        r = self.do(('sync',))
        if r.rc != 0:
            return
        for rd in range(self.rng.randint(1, 3)):
            for op in self.gen_fs_changes(False):
                self.do(op)
            self.do(self.gen_sync())
            if not os.path.exists(self.arr.content_files[0]):
                return
        if self.rng.random() < 0.3:
            # changes not yet seen by any sync: new paths (unknown to the content file: fix must not touch them) and removals;
            # rewriting a recorded file is not "detectable damage" when its blocks have no recorded hash
            for k in range(self.rng.randint(1, 3)):
                d = self.rng.choice(self.arr.disks)
                if self.rng.random() < 0.6:
                    self.do(('write', d, 'new%d' % k, self.rng.choice(SIZES), self.rng.getrandbits(32)))
                else:
                    ex = sorted(rel for (dd, rel), v in self.arr.snapshot_data().items() if dd == d and v[0] == 'f')
                    if ex:
                        self.do(('remove', d, self.rng.choice(ex)))
        for op in self.gen_damage():
            self.do(op)
        fx = self.gen_fix()
        if '-e' in fx or '-b' in fx:
            self.do(('scrub',))
        self.do(fx)

    # ---- histories aimed at copy-detected files (REP blocks) in stripes the sync did not reach ---------------------------
    def run_rep_chain(self):
        """a copy-detected file takes the place of a deleted one in a stripe the sync skips, is removed again, a new file takes
        the place, the sync skips the stripe again, the new file is lost"""
        rng, a = self.rng, self.arr
        nb = rng.randint(1, 3)
        size = nb * a.bs - rng.choice([0, 0, 1, 500])
        for op in [('write', 'd1', 'a_old', size, rng.getrandbits(32)), ('write', 'd1', 'z_keep', rng.choice(SIZES[1:]), rng.getrandbits(32)),
                   ('write', 'd2', 'movie', size, rng.getrandbits(32)), ('write', 'd2', 'z_keep2', rng.choice(SIZES[1:]), rng.getrandbits(32))]:
            self.do(op)
        if self.do(('sync',)).rc != 0:
            return
        self.do(('remove', 'd1', 'a_old'))
        self.do(('copy', 'd2', 'movie', 'd1'))
        self.do(('sync', '-S', str(nb)))
        self.do(('remove', 'd1', 'movie'))
        self.do(('write', 'd1', 'new', rng.choice([size, size, nb * a.bs]), rng.getrandbits(32)))
        self.do(('sync', '-S', str(nb)))
        self.do(('damage', 'rm', 'd1', 'new'))
        if rng.random() < 0.3:
            self.do(('damage', 'rm', 'd2', 'z_keep2'))
        self.do(rng.choice([('fix',), ('fix', '-m')]))

    def run_rep_blk(self):
        """a moved (copy-detected) file sits over the place of a deleted file in a stripe the sync did not reach; it is lost
        together with a synced file of a lower disk of the same stripe"""
        rng, a = self.rng, self.arr
        if a.nd < 3:
            return
        nb = rng.randint(1, 2)
        size = nb * a.bs - rng.choice([0, 0, 7])
        for op in [('write', 'd1', 'K', size, rng.getrandbits(32)), ('write', 'd1', 'zz', 2 * a.bs, rng.getrandbits(32)),
                   ('write', 'd2', 'OLD', size, rng.getrandbits(32)), ('write', 'd2', 'zz2', 2 * a.bs, rng.getrandbits(32)),
                   ('write', 'd3', 'A', nb * a.bs, rng.getrandbits(32)), ('write', 'd3', 'F', size, rng.getrandbits(32))]:
            self.do(op)
        if self.do(('sync',)).rc != 0:
            return
        self.do(('remove', 'd2', 'OLD'))
        self.do(('move', 'd3', 'F', 'd2'))
        self.do(('sync', '-S', str(nb)))
        self.do(('damage', 'rm', 'd1', 'K'))
        self.do(('damage', 'rm', 'd2', 'F'))
        self.do(rng.choice([('fix',), ('fix', '-m')]))

    def run_kill_rewrite(self):
        """a new file goes into positions unused on its disk (past hash ZERO) under a longer synced file of another disk, the
        sync dies after the parity update, the new file is rewritten, the next sync skips its stripes (the synced peer changes
        its time-stamp during the sync; afterwards the time-stamp is put back) but saves the content, the file is lost: the
        parity holds the FIRST version, the content records the second"""
        rng, a = self.rng, self.arr
        nb = rng.randint(1, 3)
        k0 = rng.randint(0, 2)
        if k0:
            self.do(('write', 'd1', 'keep', k0 * a.bs - rng.choice([0, 0, 5]), rng.getrandbits(32)))
        self.do(('write', 'd2', 'peer', (k0 + nb + rng.randint(0, 1)) * a.bs, rng.getrandbits(32)))
        if self.do(('sync',)).rc != 0:
            return
        size = nb * a.bs - rng.choice([0, 0, 1, 300])
        self.do(('write', 'd1', 'new', size, rng.getrandbits(32)))
        self.do(rng.choice([('sync', '--test-kill-after-sync'), ('sync', '--test-kill-after-sync'),
                            ('sync', '--test-force-autosave-at', str(rng.randint(0, 3)), '--test-kill-after-sync')]))
        self.do(('write', 'd1', 'new', size, rng.getrandbits(32)))
        stamp = os.stat(a.path('d2', 'peer')).st_mtime_ns
        self.do(('sync_run', 'touch', 'd2', 'peer'))
        self.do(('utime', 'd2', 'peer', stamp))
        self.do(('damage', 'rm', 'd1', 'new'))
        self.do(rng.choice([('fix',), ('fix', '-m'), ('fix', '-d', 'd1')]))

    # ---- histories with a hash migration in progress --------------------------------------------------------------------------
    def run_rehash(self):
        """first sync with murmur3, `rehash` to spooky2 (every block flagged), optionally a partial scrub / sync that migrates SOME
        blocks, then the usual rounds: files rewritten (same or other size) / added / deleted, a sync that does not reach every
        stripe (-S / -B / killed / EIO / file touched during the sync), damage with a spare parity level, fix"""
        rng, a = self.rng, self.arr
        bs = a.bs
        for d in a.disks:
            for n in rng.sample(NAMES[:6], rng.randint(2, 3)):
                self.do(('write', d, n, rng.choice([bs, bs, 2 * bs, 2 * bs - 5, 3000, 1]), rng.getrandbits(32)))
        if self.do(('sync',)).rc != 0:
            return
        if self.do(('rehash',)).rc != 0:
            return
        c = rng.random()
        if c < 0.25:
            self.do(('scrub_part', rng.choice([30, 50, 70])))
        elif c < 0.4:
            self.do(('sync', '-B', str(rng.randint(1, 2))))
        victims = []
        for rd in range(rng.randint(1, 2)):
            try:
                st = a.content()
            except Exception:
                return
            files = [(d, f) for d, dd in sorted(st['disks'].items()) for f in dd['files']]
            victims = rng.sample(files, min(len(files), rng.randint(1, 2)))
            for d, f in victims:
                size = f['size'] if rng.random() < 0.7 else rng.choice([bs, 2 * bs, 100, 2 * bs + 7])
                self.do(('write', d, sub2rel(f['sub']), size, rng.getrandbits(32)))
            if rng.random() < 0.3:
                self.do(('write', rng.choice(a.disks), 'new%d' % rd, rng.choice([bs, 3000]), rng.getrandbits(32)))
            if rng.random() < 0.2 and files:
                d, f = rng.choice(files)
                self.do(('remove', d, sub2rel(f['sub'])))
            c = rng.random()
            if c < 0.45:
                self.do(('sync', '-S', str(rng.randint(1, 3))))
            elif c < 0.6:
                self.do(('sync', '-B', str(rng.randint(1, 2))))
            else:
                self.do(self.gen_sync())
            if not os.path.exists(a.content_files[0]):
                return
        # every damage comes after the last sync (the version store learns the on-disk state at every sync), then one fix and,
        # often, a second one right after it (what the first left as .unrecoverable is taken back by the second)
        if rng.random() < 0.7:
            for d, f in victims:
                if rng.random() < 0.8:
                    self.do(('damage', 'rm', d, sub2rel(f['sub'])))
        else:
            for op in self.gen_damage():
                if op[1] != 'parity':
                    self.do(op)
        if a.np > 1 and rng.random() < 0.25:
            self.do(('damage', 'parity', rng.randrange(a.np), rng.choice(['garbage', 'delete', 'truncate']), rng.getrandbits(32)))
        self.do(rng.choice([('fix',), ('fix',), ('fix', '-m'), ('fix', '-d', rng.choice(a.disks))]))
        if rng.random() < 0.5:
            self.do(('fix',))

    # ---- fragmented files with silent damage in several fragments, scrub, fix -e / -b / plain -----------------------------------
    def run_fragment(self):
        """one-or-two-block files on a disk, some of them deleted after a sync, then a larger file that the allocator spreads over
        the freed positions AROUND the surviving files (several fragments); silent corruption (size and time-stamp kept) in
        blocks of different fragments and in a neighbour, scrub (marks the stripes bad), then fix -e / -b / plain: every selected
        damaged block must be repaired or the file reported"""
        rng, a = self.rng, self.arr
        bs = a.bs
        d = rng.choice(a.disks)
        names = ['a', 'b', 'c', 'e', 'g'][:rng.randint(3, 5)]
        sizes = {}
        for n in names:
            sizes[n] = rng.choice([bs, bs, 2 * bs, bs - 7])
            self.do(('write', d, n, sizes[n], rng.getrandbits(32)))
        for od in a.disks:
            if od != d:
                self.do(('write', od, 'z', rng.randint(3, 8) * bs - rng.choice([0, 0, 11]), rng.getrandbits(32)))
        if self.do(('sync',)).rc != 0:
            return
        gone = [n for k, n in enumerate(names) if k % 2 == 0]        # every other file: the freed positions are not contiguous
        keep = [n for n in names if n not in gone]
        for n in gone:
            self.do(('remove', d, n))
        nb = sum((sizes[n] + bs - 1) // bs for n in gone)
        self.do(('write', d, 'f', nb * bs - rng.choice([0, 0, 5, 600]), rng.getrandbits(32)))
        if self.do(('sync',)).rc != 0:
            return
        try:
            st = a.content()
        except Exception:
            return
        f = [x for x in st['disks'][d]['files'] if x['sub'] == b'f']
        if not f:
            return
        f = f[0]
        idxs = list(range(len(f['blocks'])))
        hit = sorted(set([idxs[0], idxs[-1]] + rng.sample(idxs, min(len(idxs), rng.randint(0, 2)))))
        for i in hit:
            self.do(('damage', 'flip', d, 'f', i, rng.choice(['bit', 'byte', 'block', 'firstbyte']), rng.getrandbits(32)))
        if keep and rng.random() < 0.6:
            self.do(('damage', 'flip', d, rng.choice(keep), 0, rng.choice(['bit', 'byte']), rng.getrandbits(32)))
        self.do(('scrub',))
        self.do(rng.choice([('fix', '-e'), ('fix', '-e'), ('fix', '-b'), ('fix',)]))

    def replay(self, ops):
        for op in ops:
            op = [x for x in op if not (isinstance(x, str) and x.startswith('rc='))]
            self.do(tuple(op))

    # ------------------------------------------------------------------------------------------- the judge
    def selected(self, opts, d, f, before, st):
        """True / False / None (unknown)"""
        rel = sub2rel(f['sub'])
        sel = True
        i = 0
        while i < len(opts):
            o = opts[i]
            if o == '-d':
                sel = sel and (d == opts[i + 1]); i += 2
            elif o == '-f':
                sel = sel and (rel.split('/')[-1] == opts[i + 1]); i += 2
            elif o == '-m':
                sel = sel and ((d, rel) not in before); i += 1
            elif o == '-B':
                n = int(opts[i + 1]); i += 2
                inr = [pos < n for s, pos, h in f['blocks']]
                if not inr:
                    sel = sel and 'skip'      # no block: judged with the objects, not here
                elif not any(inr):
                    sel = False               # wholly outside the range: must not be touched
                elif not all(inr):
                    sel = sel and 'skip'      # partly inside: only the blocks of the range are repaired, not judged as a file
            elif o == '-b':
                # only the stripes marked bad are processed (and only synced files): a file without a bad block must not be touched,
                # a file with one is repaired only there -- not judged as a whole file
                bad = any(st['info'][pos] and st['info'][pos]['bad'] for s, pos, h in f['blocks'] if pos < len(st['info']))
                if not bad:
                    sel = False
                else:
                    # when every block that differs from the recorded version lies in a stripe marked bad (damage found by a full
                    # scrub) and the file is synced (size and time-stamp kept), -b repairs all of it: judged as a whole file
                    v = before.get((d, rel))
                    rec = self.arr.find_version(d, f)
                    bs = self.arr.bs
                    whole = False
                    if v is not None and v[0] == 'f' and rec is not None and len(v[1]) == f['size'] and v[2] // 10**9 == f['sec'] and (f['nsec'] < 0 or v[2] % 10**9 == f['nsec']):
                        diff = [k for k in range(len(f['blocks'])) if v[1][k * bs:(k + 1) * bs] != rec[k * bs:(k + 1) * bs]]
                        whole = all(f['blocks'][k][1] < len(st['info']) and st['info'][f['blocks'][k][1]] and st['info'][f['blocks'][k][1]]['bad'] for k in diff)
                    sel = sel if whole else (sel and 'skip')
                i += 1
            elif o == '-e':
                bad = any(st['info'][pos] and st['info'][pos]['bad'] for s, pos, h in f['blocks'] if pos < len(st['info']))
                if not bad:
                    sel = False
                else:
                    v = before.get((d, rel))
                    if v is None:
                        sel = False       # a missing file is created empty, hence "unsynced", never written, and removed again
                    elif v[0] == 'f' and (len(v[1]) != f['size'] or v[2] // 10**9 != f['sec'] or (f['nsec'] >= 0 and v[2] % 10**9 != f['nsec'])):
                        sel = False       # --filter-error implies "synced only"
                i += 1
            else:
                i += 1
        return sel

    def diagnose(self, d, f, ondisk, rec, st):
        """which known finding (if any) explains that `ondisk` != recorded version `rec` under the file's own name"""
        a = self.arr
        bs = a.bs
        hs = st['hashsize']
        keys = set()
        why = []
        for i, (s, pos, h) in enumerate(f['blocks']):
            w = ondisk[i * bs:(i + 1) * bs]
            good = rec[i * bs:(i + 1) * bs] if rec is not None else None
            if good is not None and w == good:
                continue
            L = len(good) if good is not None else min(bs, f['size'] - i * bs)
            wpad = w + bytes(bs - len(w))
            if s != 'CHG':
                hw = murmur3_x86_128(wpad[:L], st['seed'])[:hs] if st['hash'] == 'murmur3' else None
                if hw == h and not any(wpad[L:]):
                    why.append('block %d (%s): hash collision of the %d-byte hash' % (i, s, hs)); keys.add('collision')
                else:
                    why.append('block %d is %s with a recorded hash and has other bytes' % (i, s)); keys.add(None)
                continue
            if hs < 16 and h in (b'\x00' * hs, b'\xff' * hs):
                why.append('block %d: CHG whose past hash is the %s marker, not recognised with hashsize %d (elem.h hash_is_invalid/hash_is_zero return 0 for reduced hashes)' % (i, 'INVALID' if h[0] == 0 else 'ZERO', hs)); keys.add(KEY_D)
                continue
            if h == b'\x00' * hs:
                why.append('block %d: CHG with INVALID past hash written as good' % i); keys.add(None)
                continue
            if h == b'\xff' * hs:
                if any(wpad) and pos in self.dropped:
                    why.append('block %d: CHG with ZERO past hash at a position dropped from an earlier content file without a parity update; parity encoded non-zero data (rebuilt, "not zero hence new")' % i); keys.add(KEY_C)
                elif any(wpad):
                    why.append('block %d: CHG with ZERO past hash although the position was never dropped from the content: parity encoded non-zero data (rebuilt, "not zero hence new")' % i); keys.add(None)
                else:
                    why.append('block %d: CHG with ZERO past hash rebuilt as zeros and accepted' % i); keys.add(None)
                continue
            hw = murmur3_x86_128(wpad[:L], st['seed'])[:hs] if st['hash'] == 'murmur3' else None
            if hw == h and not any(wpad[L:]):
                why.append('block %d: rebuilt block matches the past hash and was accepted as new' % i); keys.add(None)
                continue
            # where do the written bytes come from?
            lens = set()
            for (dd, rel), vs in a.store.items():
                if dd != d:
                    continue
                for data, mt in vs:
                    for k in range(0, len(data), bs):
                        b = data[k:k + bs]
                        # only the first L bytes of the rebuilt block reach the disk
                        if (b + bytes(bs - len(b)))[:L] == wpad[:L]:
                            lens.add(len(b))
            if not any(wpad):
                why.append('block %d: zeros rebuilt (the position was empty in the parity) and accepted: the recorded past hash is a data hash, not the ZERO marker (signature of the repaired F-C05a)' % i); keys.add(KEY_A)
            elif not lens:
                why.append('block %d: CHG with a unique past hash received bytes that belong to no stored version' % i); keys.add(None)
            elif L in lens:
                why.append('block %d: old data of the same length rebuilt and accepted: the recorded past hash is not the hash of what the parity encodes there (signature of the repaired F-C05a)' % i); keys.add(KEY_A)
            else:
                why.append('block %d: old data of block length %s rebuilt and compared with the past hash over the new length %d' % (i, sorted(lens), L)); keys.add(KEY_B)
        return keys, why

    def fix(self, opts):
        a, chk = self.arr, self.chk
        try:
            st = a.content()
        except Exception as e:
            return None
        before = a.snapshot_data()
        pred = None
        if self.model and '-b' not in opts:      # --filter-block-error is not in the fix model: judged by the oracle only
            try:
                self.note_content()
                self.mb = c01_model.ModelSide(a, st, self.model, history=True, cand_hist=self.cand)
                pred = self.mb.predict('fix', opts)
            except Exception as e:
                import traceback
                chk.violation('model_error', 'the fix model could not be run: %s' % e, {'history': self.log, 'traceback': traceback.format_exc()}, no_input=True)
        r = a.run('fix', *opts)
        self.stats['cmds'] += 1
        self.log[-1].append('rc=%d' % r.rc)
        tags = interesting(r.tags)
        after = a.snapshot_data()
        known_paths = set()
        replay = {'geom': self.geom, 'seed': self.seed, 'ops': self.log, 'fix_tags': tags[:80]}
        property_ok = True
        for d, dd in st['disks'].items():
            for f in dd['files']:
                rel = sub2rel(f['sub'])
                known_paths.add((d, rel))
                name = f['sub'].decode('latin1')
                sel = self.selected(opts, d, f, before, st)
                if rel.endswith('.unrecoverable'):
                    sel = 'skip'      # the leftover of an earlier fix that a sync recorded as a file: fix may rename it back under its old name
                b, c = before.get((d, rel)), after.get((d, rel))
                if sel is False:
                    if (b[:3] if b else None) != (c[:3] if c else None):
                        property_ok = False
                        chk.violation('written_excluded', 'fix %s wrote %s:%s although the filters exclude it' % (' '.join(opts), d, rel), replay)
                    continue
                if sel == 'skip':
                    # partly selected (block range / bad blocks only): the one thing required is that it is not reported recovered
                    # with other bytes than the recorded ones
                    ondisk = c[1] if (c is not None and c[0] == 'f') else None
                    rec = a.find_version(d, f)
                    if any(t == 'status:recovered:%s:%s' % (d, f['sub'].decode('latin1')) for t in interesting(r.tags)) and rec is not None and ondisk != rec:
                        property_ok = False
                        chk.violation('wrong_file', 'after `fix %s` %s:%s is reported recovered but has other bytes than the recorded version' % (' '.join(opts), d, rel), replay)
                    continue
                self.stats['files_judged'] += 1
                rec = a.find_version(d, f)
                if rec is None:
                    cands = [v for v, mt in a.store.get((d, name), []) if len(v) == f['size']]
                else:
                    cands = [rec]
                ondisk = c[1] if (c is not None and c[0] == 'f') else None
                reported = r.rc != 0 and any(t.startswith(('status:unrecoverable:%s:%s' % (d, name), 'unrecoverable:')) and (':%s:%s' % (d, name)) in t for t in tags)
                if any(t == 'status:recovered:%s:%s' % (d, name) for t in tags):
                    self.stats['recovered'] += 1
                if ondisk is not None and ondisk in cands:
                    continue
                if reported:
                    self.stats['reported_unrecoverable'] += 1
                    continue
                if ondisk is None:
                    # not under its name: acceptable only if reported (checked above) -- a missing, selected, unreported file
                    what = 'is missing after fix and was not reported unrecoverable (fix exit %d)' % r.rc
                    keys, why = {None}, []
                else:
                    said = 'reported recovered' if ('status:recovered:%s:%s' % (d, name)) in tags else 'left under its name without report'
                    what = 'has bytes that are not the recorded version (size %d) and is %s (fix exit %d)' % (f['size'], said, r.rc)
                    keys, why = self.diagnose(d, f, ondisk, cands[0] if cands else None, st)
                    # a file that was MISSING before this fix while <name>.unrecoverable (left by an earlier fix) was there: handle_create
                    # renames that file back; every wrong block must then be a block without a recorded hash (CHG: "assumed correct")
                    # holding exactly the bytes of the .unrecoverable file -- anything else is not this behaviour
                    sib = before.get((d, rel + '.unrecoverable'))
                    if b is None and sib is not None and sib[0] == 'f' and cands:
                        good = cands[0]
                        wrong = [k for k in range(len(f['blocks'])) if ondisk[k * a.bs:(k + 1) * a.bs] != good[k * a.bs:(k + 1) * a.bs]]
                        if wrong and all(f['blocks'][k][0] == 'CHG' and ondisk[k * a.bs:(k + 1) * a.bs] == sib[1][k * a.bs:(k + 1) * a.bs] for k in wrong):
                            keys = {KEY_U}
                            why = ['%s.unrecoverable left by an earlier fix was renamed back; its blocks %s have no recorded hash (CHG) and were taken as correct' % (rel, wrong)]
                property_ok = False
                msg = 'after `fix %s` %s:%s %s; %s' % (' '.join(opts), d, rel, what, '; '.join(why)[:300])
                if False:
                    pass
                elif keys == {KEY_U}:
                    self.stats['known'] += 1
                    if any(k.get('property') == 'C05' and k.get('key') == KEY_U for k in chk.kf):
                        chk.violation('wrong_file', msg, replay, finding_key=KEY_U)
                    elif not any(n.startswith('OBSERVATION unrecoverable-taken-back') for n in chk.notes):
                        chk.notes.append('OBSERVATION unrecoverable-taken-back (proposed key %s): %s' % (KEY_U, msg[:400]))
                elif keys and keys <= {KEY_A, KEY_B, KEY_C, KEY_D}:
                    # every wrong block is explained by one of the known findings (a file may combine several)
                    self.stats['known'] += 1
                    for k in sorted(keys):
                        chk.violation('wrong_file', msg, replay, finding_key=k)
                elif keys == {'collision'}:
                    chk.notes.append('hash collision on a reduced hash: ' + msg[:200])
                else:
                    chk.violation('wrong_file', msg, replay)
        for k in set(before) | set(after):
            if k in known_paths or before.get(k, ('d',))[0] == 'd' or after.get(k, ('d',))[0] == 'd':
                continue
            # *.unrecoverable of a known path is the tool's report, not an unknown path
            if k[1].endswith('.unrecoverable') and (k[0], k[1][:-len('.unrecoverable')]) in known_paths:
                continue
            if (before.get(k) or (None,))[:3] != (after.get(k) or (None,))[:3]:
                property_ok = False
                chk.violation('written_unknown', 'fix %s changed %s:%s, a path unknown to the content file' % (' '.join(opts), k[0], k[1]), replay)
        if pred is not None:
            # the model must reproduce the real run also where a known finding shows (that is what the refutation theorems
            # are about); where the real run violates the property in an unknown way the violation itself is the report
            self.stats['model'] += 1
            dd = self.mb.compare(pred, r, 'fix', tuple(opts))
            if dd and (property_ok or not any(not v[2] for v in chk.violations)):
                chk.violation('drift_fix', 'MODEL-DRIFT: the fix model disagrees with the real `fix %s` (%s): %s' % (' '.join(opts), 'which satisfies the property here' if property_ok else 'a known finding shows here', dd[0]),
                              dict(replay, diffs=dd[:6]), no_input=True)
        return r

    def close(self):
        shutil.rmtree(self.arr.root, ignore_errors=True)


# ---------------------------------------------------------------------------------------------------------------------
def key_open(chk, key):
    return any(k.get('status') == 'open' and k.get('property') == 'C05' and k.get('key') == key for k in chk.kf)


def corpus_cases():
    d = os.path.join(VERIF, 'corpus', 'C05')
    return sorted(glob.glob(os.path.join(d, '*.json')))


def observations05(chk, binary):
    """a behaviour found in the coverage round, measured on every run (proposed key; a violation once the lead lists it): `fix -S n`
    on a MISSING file whose first blocks lie before position n recreates the file with those blocks as a hole of zeros, reports
    status:recovered, restores the recorded time-stamp and exits 0 (summary:exit:recovered); diff then says the file is equal"""
    a = Array(binary, nd=2, np_=1)
    out = {}
    try:
        A = bytes([1]) * 1024 + bytes([2]) * 1024 + bytes([3]) * 512
        a.write('d1', 'a', A, mtime_ns=1700000000 * 10**9)
        a.write('d2', 'b', bytes([4]) * 1024, mtime_ns=1700000000 * 10**9)
        if a.run('sync').rc == 0:
            os.unlink(a.path('d1', 'a'))
            r = a.run('fix', '-S', '1')
            p = a.path('d1', 'a')
            there = os.path.isfile(p)
            data = open(p, 'rb').read() if there else None
            rep = any(t == 'status:recovered:d1:a' for t in r.tags)
            out['fix_start_after_first_block_of_missing_file'] = {'rc': r.rc, 'file_present': there, 'bytes_are_recorded': data == A, 'reported_recovered': rep,
                                                                  'mtime_recorded': there and os.stat(p).st_mtime_ns == 1700000000 * 10**9}
            if there and data != A:
                key = 'F-C05-fix-start-range-recovers-file-with-hole'
                # exact attribution: fix -S n with n > 0, the file was missing before the run, its first recorded block lies before
                # n, it is left under its name with a zero-filled head (the blocks before n) and the recorded bytes from n on;
                # anything else is a plain violation
                st = a.content()
                f = [x for x in st['disks']['d1']['files'] if x['sub'] == b'a'][0]
                first = min(pos for s_, pos, h in f['blocks'])
                exact = first < 1 and len(data) == len(A) and data[:1024] == bytes(1024) and data[1024:] == A[1024:]
                if not exact:
                    chk.violation('obs_start_range', '`fix -S 1` on a missing file leaves d1/a with bytes that are neither the recorded ones nor the recorded ones with a zero-filled head (exit %d, reported recovered: %s)' % (r.rc, rep),
                                  {'recipe': '2 data disks, 1 parity, blocksize 1; d1/a 2560 B, d2/b 1024 B; sync; rm d1/a; fix -S 1'})
                    return out
                msg = ('`fix -S 1` on a missing 3-block file (blocks at positions 0-2) recreates it with block 0 zero-filled, reports status:recovered, '
                       'restores the recorded mtime and exits %d; the file has the recorded size and time-stamp, so diff/sync see it as unchanged' % r.rc)
                if any(k.get('property') == 'C05' and k.get('key') == key for k in chk.kf):
                    chk.violation('obs_start_range', msg, {'recipe': '2 data disks, 1 parity, blocksize 1; d1/a 2560 B, d2/b 1024 B; sync; rm d1/a; fix -S 1'}, finding_key=key)
                else:
                    chk.notes.append('OBSERVATION start-range (proposed key %s): %s' % (key, msg))
    finally:
        shutil.rmtree(a.root, ignore_errors=True)
    # second behaviour (two-fix histories): a file declared unrecoverable is renamed <name>.unrecoverable with a hole where a block
    # without recorded hash (CHG, stripe not reached by the last sync) could not be rebuilt; the NEXT fix renames it back
    # (handle_create) and takes that block as correct: exit 0, summary:exit:ok, and check is quiet too
    a = Array(binary, nd=2, np_=2)
    try:
        a.write('d1', 'A', bytes([1]) * 1024, mtime_ns=1700000000 * 10**9)
        a.write('d1', 'B', bytes([2]) * 1024, mtime_ns=1700000000 * 10**9)
        a.write('d2', 'C', bytes([3]) * 3072, mtime_ns=1700000000 * 10**9)
        NEW = bytes([9]) * 1024 + bytes([8]) * 1024
        if a.run('sync').rc == 0:
            a.write('d1', 'A', NEW, mtime_ns=1700000100 * 10**9)
            if a.run('sync', '-S', '1').rc == 0:
                os.unlink(a.path('d1', 'A'))
                os.unlink(a.parity_files[1][0])
                r1 = a.run('fix')
                r2 = a.run('fix')
                p = a.path('d1', 'A')
                data = open(p, 'rb').read() if os.path.isfile(p) else None
                out['second_fix_after_unrecoverable'] = {'fix1_rc': r1.rc, 'fix2_rc': r2.rc, 'file_present': data is not None, 'bytes_are_recorded': data == NEW}
                if data is not None and data != NEW and r2.rc == 0:
                    msg = ('d1/A rewritten from 1 to 2 blocks, `sync -S 1` (block 0 stays CHG), A and the 2-parity file lost: fix exits %d and leaves A.unrecoverable '
                           '(block 1 rebuilt, block 0 a hole); a second `fix` renames it back to A, takes block 0 as correct, exits 0 with summary:exit:%s' % (r1.rc, r2.summary().get('exit')))
                    exact = len(data) == len(NEW) and data[:1024] == bytes(1024) and data[1024:] == NEW[1024:]
                    if exact and any(k.get('property') == 'C05' and k.get('key') == KEY_U for k in chk.kf):
                        chk.violation('obs_taken_back', msg, {'recipe': 'see message'}, finding_key=KEY_U)
                    elif exact:
                        chk.notes.append('OBSERVATION unrecoverable-taken-back (proposed key %s): %s' % (KEY_U, msg))
                    else:
                        chk.violation('obs_taken_back', 'after two fixes d1/A has unexpected bytes: ' + msg, {'recipe': 'see message'})
    finally:
        shutil.rmtree(a.root, ignore_errors=True)
    return out


def main(tier, replay=None):
    chk = Check('C05', tier, 'proof')
    snap = snapshot_repo()
    regen(snap)
    try:
        binary = build_tool(snap)
        shim = build_shim(snap)
    except BuildError as e:
        chk.violation('build', 'working tree does not build: ' + str(e)[:500], {'error': str(e)}, no_input=True)
        return chk.finish()
    ob = check_obligations('C05')
    proof_coverage(chk, ob, 'make -f Makefile.coq -k Props/Properties_C05*.vo (coqc 8.16.1) + Print Assumptions',
                   c01_model.TRUSTED + ['coq/Array/SyncModel.v (sync loop, save normalisation) + coq/Fix/HistModel.v (minimal scan step, sync command, damage, version-store judge) for the refutation witnesses', 'harness/c/shim.c'])
    try:
        model = build_model('Extract/Extract_C01.vo', 'ocaml/C01', 'c01_ext', 'driver.ml', 'model')
    except BuildError as e:
        model = None
        chk.violation('model_build', 'the extracted fix model does not build: %s' % str(e)[-400:], {'error': str(e)[-2000:]}, no_input=True)

    if replay:
        rp = json.load(open(replay))['replay']
        H = Hist05(chk, binary, shim, model, tuple(rp['geom']), rp['seed'])
        H.replay(rp['ops'])
        H.close()
        return chk.finish()

    # ---- the known findings first
    reproduced = {}
    for p in corpus_cases():
        case = json.load(open(p))
        H = Hist05(chk, binary, shim, model, tuple(case['geom']), case.get('seed', 1))
        n0 = len(chk.known) + len(chk.violations)
        H.replay(case['ops'])
        reproduced[os.path.basename(p)] = {'expected_key': case.get('expect'), 'known_now': [k for k, _ in chk.known], 'stats': H.stats}
        if case.get('expect') and case['expect'] not in [k for k, _ in chk.known] and len(chk.known) + len(chk.violations) == n0:
            chk.notes.append('corpus case %s no longer produces its finding %s (fixed?)' % (os.path.basename(p), case['expect']))
        H.close()

    rng = chk.rng
    nh = 160 if tier == 'quick' else 1500
    jobs = []
    for i in range(nh):
        nd = rng.choice([2, 2, 3, 3, 4])
        np_ = rng.choice([1, 2, 2, 3, 4])
        hs = rng.choice([None, None, 8, 4])
        jobs.append(((nd, np_, hs), rng.getrandbits(32)))
    tot = {}
    samples = []

    nt = 8 if tier == 'quick' else 60
    for i in range(nt):
        jobs.append(((2, rng.choice([2, 2, 3]), None), rng.getrandbits(32), 'rep_chain'))
        jobs.append(((3, rng.choice([2, 2, 3, 4]), None), rng.getrandbits(32), 'rep_blk'))
        jobs.append(((rng.choice([2, 3]), rng.choice([2, 2, 3]), None), rng.getrandbits(32), 'kill_rewrite'))
        for _ in range(2):
            jobs.append(((rng.choice([2, 3]), rng.choice([2, 2, 3]), None), rng.getrandbits(32), 'rehash'))
        jobs.append(((rng.choice([2, 3]), rng.choice([1, 2, 2]), None), rng.getrandbits(32), 'fragment'))

    def one(job):
        H = Hist05(chk, binary, shim, model, job[0], job[1])
        try:
            if len(job) > 2:
                getattr(H, 'run_' + job[2])()
            else:
                H.run_generated()
        finally:
            H.close()
        return H
    lrng = random.Random(rng.getrandbits(32))
    with cf.ThreadPoolExecutor(max_workers=min(8, NCPU)) as ex:
        # a file larger than 4 GiB lost / damaged and fixed: the whole file must come back (runs beside the histories)
        lfs = [ex.submit(large_fix_trial, chk, binary, lrng, v, tier != 'quick', 'large_fix') for v in (['lost'] if tier == 'quick' else ['lost', 'damage'])]
        for H in ex.map(one, jobs):
            for k, v in H.stats.items():
                tot[k] = tot.get(k, 0) + v
            if len(samples) < 4:
                samples.append({'geom': H.geom, 'history': [o for o in H.log if o[0] not in ('write',)][:12]})
        try:
            chk.cov['large_offset_fix'] = [f.result() for f in lfs]
        except Exception as e:
            chk.notes.append('large offset fix trial failed: %s' % e)
    chk.cov.update({'evaluations': tot.get('cmds', 0), 'distinct_nontrivial': nh,
                    'rule': 'corpus/C05 (the three known findings) + %d generated histories: tree, clean sync, 1-3 rounds of (rewrites same/other size, deletes incl. whole stripes, additions; then one of: full sync, -B/-S partial sync, --test-kill-after-sync, autosave+kill, --test-run touch/rm of a file during the sync, shim pread EIO), copies and moves to other disks (copy detection), optional unsynced changes, damage (files removed / disks wiped / truncation / flips in hashed blocks / parity deleted, garbage, truncated, zeroed), optional scrub, fix with filters none/-m/-d/-f/-m -d/-e; judge = version store + before/after snapshot; plus %d + %d + %d histories from three templates: two aimed at copy-detected (REP) blocks in stripes the sync did not reach, one at a file rewritten between a sync killed after its parity update and a sync that skips its stripes; plus %d histories with a hash migration in progress (murmur3 sync, rehash to spooky2, optional partial scrub/sync, rewrites + partial/killed sync + loss with a spare level + fix; oracle only) and %d with a file fragmented around surviving files, silent damage in several fragments, scrub, fix -e/-b/plain; non-trivial = histories' % (nh, nt, nt, nt, 2 * nt, nt),
                    'files_judged': tot.get('files_judged', 0), 'files_reported_recovered': tot.get('recovered', 0), 'files_reported_unrecoverable': tot.get('reported_unrecoverable', 0),
                    'wrong_files_attributed_to_known_findings': tot.get('known', 0), 'fix_runs_replayed_by_model': tot.get('model', 0),
                    'traces_validated_against_impl': tot.get('model', 0), 'corpus': reproduced})
    chk.cov['samples'] = samples
    try:
        chk.cov['observations'] = observations05(chk, binary)
    except Exception as e:
        chk.notes.append('observations failed: %s' % e)
    if ob['failed'] and not chk.violations:
        chk.violation('obligation', 'proof obligation of C05 no longer checks: %s' % ob['failed'][0],
                      {'theorem_file': 'coq/Props/Properties_C05.v', 'failed': ob['failed'], 'log_tail': ob['log'][-1500:]}, no_input=True)
    chk.assumptions += c01_model.ASSUMPTIONS + ['a content change in a block WITHOUT recorded hash (CHG) is not detectable damage and is not generated',
                                                 'attribution of a wrong file to a known finding is made by the independent diagnosis of check_C05.diagnose, never by the model']
    return chk.finish()
