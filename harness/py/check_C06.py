"""C06 -- stripes recorded as synced always have valid parity (and the block map is well formed), after every command."""
import os, sys, json, time, shutil
from common import *
from arraylib import *
from modelbridge import Bridge

SIZES_BLK = [0, 1, 1023, 1024, 1025, 2048, 3000, 4096, 5000, 8192]


def gen_history(rng, nd, ncmd):
    """a list of operations: FS changes and tool commands"""
    ops = []
    sc = rng.random()
    if sc < 0.15:
        # a disk loses every file at once, its extent reaches beyond the other disks, the sync is partial
        big = rng.choice([4096, 8192]); small = rng.choice([1024, 2048, 4096])
        ops += [('write', 'd1', 'A', big), ('write', 'd2', 'B', small), ('sync',), ('wipedisk', 'd1'),
                ('sync', '-B', str(rng.randint(1, 2))), ('sync',)]
        if rng.random() < 0.5:
            return ops
    elif sc < 0.4 and sc >= 0.3:
        # files only touched (same bytes, new time-stamp) share stripes with a real change on another disk
        ops += [('write', 'd1', 'A', 3072), ('write', 'd2', 'B', 3072)] + ([('write', 'd3', 'C', 3072)] if nd >= 3 else []) + [('sync',)]
        chg = rng.randint(1, min(nd, 3))
        for i in range(1, min(nd, 3) + 1):
            ops.append(('write', 'd%d' % i, 'ABC'[i - 1], 3072) if i == chg else ('touch', 'd%d' % i, 'ABC'[i - 1]))
        ops += [('sync',)]
        if rng.random() < 0.5:
            return ops
    elif sc < 0.3:
        # a silent error and a deletion (or a replacement) meet in the same stripe
        ops += [('write', 'd1', 'A', 4096), ('write', 'd2', 'B', 4096), ('write', 'd%d' % nd, 'C', 2048), ('sync',),
                rng.choice([('remove', 'd2', 'B'), ('write', 'd2', 'B', 3000), ('truncate', 'd2', 'B', 1024)]),
                ('corrupt', 'd1', rng.getrandbits(16)), ('sync',)]
        if rng.random() < 0.5:
            return ops
    elif sc < 0.5:
        # a copy-detected file (REP blocks, inherited hashes) is saved by a sync that does not reach its stripes, is removed, and a
        # NEW file with the same bytes (or the same file under a new time-stamp) takes its positions: the parity never held them
        n = rng.randint(1, 3); m = rng.randint(1, 3)
        ops += [('write', 'd1', 'X', n * 1024), ('write', 'd2', 'M', m * 1024 - rng.choice([0, 0, 1, 200])), ('sync',), ('copy', 'd2', 'M', 'd1'),
                rng.choice([('sync', '-B', str(n)), ('sync', '-B', str(n)), ('sync', '-S', str(n + m + 1))]), ('remove', 'd1', 'M'),
                rng.choice([('clone', 'd2', 'M', 'd1', 'N'), ('clone', 'd2', 'M', 'd1', 'M')]), ('sync',)]
        if rng.random() < 0.6:
            return ops
    names = ['a', 'b', 'c', 'dir/x', 'dir/y', 'e']
    for step in range(ncmd):
        nfs = rng.randint(1, 4) if step else rng.randint(3, 6)
        for _ in range(nfs):
            k = rng.random()
            d = 'd%d' % rng.randint(1, nd)
            n = rng.choice(names)
            if k < 0.45 or step == 0:
                ops.append(('write', d, n, rng.choice(SIZES_BLK)))
            elif k < 0.65:
                ops.append(('remove', d, n))
            elif k < 0.75:
                ops.append(('move', d, n, 'd%d' % rng.randint(1, nd), rng.choice(names)))
            elif k < 0.85:
                ops.append(('copy', d, n, 'd%d' % rng.randint(1, nd)))
            elif k < 0.90:
                ops.append(('append', d, n, rng.choice([1, 100, 1024, 2000])))
            elif k < 0.94:
                ops.append(('truncate', d, n, rng.choice([0, 1, 1024, 1500])))
            elif k < 0.955:
                ops.append(('touch', d, n))                          # same bytes, new time-stamp
            elif k < 0.98:
                ops.append(('corrupt', d, rng.getrandbits(16)))      # silent corruption of a synced block (size, mtime kept)
            else:
                ops.append(('wipedisk', d))                          # every file of the disk disappears at once
        c = rng.random()
        if c < 0.45:
            ops.append(('sync',))
        elif c < 0.7:
            ops.append(('sync', '-B', str(rng.randint(1, 3))) + (('-S', str(rng.randint(0, 2))) if rng.random() < 0.4 else ()))
        elif c < 0.78:
            ops.append(('sync', '--test-force-autosave-at', str(rng.randint(0, 3)), '--test-kill-after-sync'))
        elif c < 0.84:
            ops.append(('sync', '@fail', 'd%d' % rng.randint(1, nd), rng.choice(names), rng.choice(['E', 'I'])))   # a file unreadable during the sync
        elif c < 0.88:
            ops.append(('scrub', '-p', 'full'))
        elif c < 0.94:
            ops.append(('sync', '-F'))
        else:
            ops.append(('fixmissing',))
    ops.append(('sync',))
    return ops


def gen_history_plain(rng, nd, ncmd):
    """histories for the commands the sync-loop model does not replay (judged by the independent oracles only): pre-hash,
    forced realloc, rehash in progress, touch, parity-only / filtered / range fix, the scrub plans"""
    names = ['a', 'b', 'c', 'dir/x', 'dir/y', 'e']
    ops = []
    for step in range(ncmd):
        for _ in range(rng.randint(1, 4) if step else rng.randint(3, 6)):
            k = rng.random()
            d = 'd%d' % rng.randint(1, nd); n = rng.choice(names)
            if k < 0.5 or step == 0:
                ops.append(('write', d, n, rng.choice(SIZES_BLK)))
            elif k < 0.65:
                ops.append(('remove', d, n))
            elif k < 0.75:
                ops.append(('copy', d, n, 'd%d' % rng.randint(1, nd)))
            elif k < 0.85:
                ops.append(('move', d, n, 'd%d' % rng.randint(1, nd), rng.choice(names)))
            elif k < 0.92:
                ops.append(('touch', d, n))
            else:
                ops.append(('corrupt', d, rng.getrandbits(16)))
        c = rng.random()
        if c < 0.22:
            ops.append(('sync', '-h'))
        elif c < 0.3:
            ops.append(('sync', '-h', '-B', str(rng.randint(1, 3))))
        elif c < 0.38:
            ops.append(('sync', '-R'))
        elif c < 0.46:
            ops.append(('rehash',))
        elif c < 0.54:
            ops.append(('touchcmd',))
        elif c < 0.62:
            ops.append(('fixsel', rng.choice(['parity', 'data', 'file', 'range', 'bad'])))
        elif c < 0.72:
            ops.append(('scrub', '-p', rng.choice(['new', 'bad', '50', '100', 'full'])) + (('-o', '0') if rng.random() < 0.5 else ()))
        elif c < 0.8:
            ops.append(('sync', '--test-force-autosave-at', str(rng.randint(1, 3))))
        else:
            ops.append(('sync',))
    ops.append(('sync',))
    return ops


def gen_history_conf(rng, nd, ncmd):
    """configuration-change family: between the commands of a history the configuration file may rename a disk (found again by
    UUID: --test-match-first-uuid, as `make check` does), retire a disk (emptied, `sync -E`, its line removed: a hole in the
    positions), add a disk (it takes the first hole), reorder the disk lines.  The oracle takes every disk's position from the
    'M' records of the content file.  Oracle-only histories (no model replay)."""
    names = ['a', 'b', 'c', 'dir/x', 'e']
    ops = []
    for i in range(1, nd + 1):
        for n in rng.sample(names, rng.randint(1, 3)):
            ops.append(('write', 'd%d' % i, n, rng.choice([1, 1024, 2048, 3000, 4096, 5000])))
    ops.append(('sync',))
    kinds = []
    directed = rng.random()
    if directed < 0.55:
        # a hole at a LOWER position, then the rename of a disk above it (with or without something in between)
        lo = rng.randint(1, nd - 1)
        kinds += [('retire', 'd%d' % lo)] + rng.choice([[], [], ['reorder'], ['fs']]) + [('rename', 'd%d' % rng.randint(lo + 1, nd))]
    for _ in range(max(1, ncmd - len(kinds))):
        kinds.append(rng.choice(['rename', 'retire', 'add', 'reorder', 'fs', 'fs', 'rename', 'add']))
    nextd = nd + 1
    for k in kinds:
        if k == 'fs':
            for _ in range(rng.randint(1, 3)):
                d = 'd%d' % rng.randint(1, nextd - 1)
                ops.append(rng.choice([('write', d, rng.choice(names), rng.choice(SIZES_BLK)), ('remove', d, rng.choice(names)),
                                       ('touch', d, rng.choice(names)), ('append', d, rng.choice(names), rng.choice([1, 1024, 2000]))]))
            ops.append(rng.choice([('sync',), ('sync',), ('sync', '-B', str(rng.randint(1, 3))), ('scrub', '-p', 'full'), ('sync', '-F')]))
        elif k == 'add':
            ops.append(('cfg', 'add', 'd%d' % nextd, rng.getrandbits(16)))
            nextd += 1
        elif isinstance(k, tuple):
            ops.append(('cfg', k[0], k[1], rng.getrandbits(16)))
        else:
            ops.append(('cfg', k, 'd%d' % rng.randint(1, nextd - 1), rng.getrandbits(16)))
    ops.append(('sync',))
    return ops


def gen_history_badfix(rng, nd, ncmd):
    """"bad stripe with healthy data + unsynced modification" family: a parity block is damaged behind the tool's back, scrub
    marks the stripe bad, a file having a block in that stripe is modified (same size or not, new time-stamp) and NOT synced,
    then fix -e / fix -b / fix -e -f / check -e run.  The content still records the blocks as synced: every level must encode
    the SYNCED versions (version store), and check must write nothing."""
    names = ['a', 'b', 'c', 'dir/x']
    ops = []
    for i in range(1, nd + 1):
        for n in rng.sample(names, rng.randint(1, 2)):
            ops.append(('write', 'd%d' % i, n, rng.choice([1024, 2048, 2500, 3000, 4096, 5000])))
    ops.append(('sync',))
    for step in range(max(1, ncmd // 2)):
        ops.append(('badfix', rng.choice(['fix-e', 'fix-e', 'fix-b', 'fix-e-f', 'check-e']),
                    rng.choice(['same', 'same', 'grow', 'shrink', 'touch']), rng.getrandbits(24)))
        if rng.random() < 0.6:
            ops.append(('sync',))
        if rng.random() < 0.4:
            ops.append(('write', 'd%d' % rng.randint(1, nd), rng.choice(names), rng.choice(SIZES_BLK)))
            ops.append(('sync',))
    ops.append(('sync',))
    return ops


class CArray(Array):
    """an Array whose configuration may change between commands.  The harness identifies a disk by its DIRECTORY (`d1`, ...: FS
    operations and the version store use it); the tool identifies it by the NAME of its `disk` line, which a rename changes;
    names found in a content file are translated back through `dirof`."""

    def __init__(self, *a, **kw):
        super().__init__(*a, **kw)
        self.dirof = {d: d for d in self.disks}      # disk name (configuration / content file) -> directory
        self.retired = set()                         # directories whose disk line was removed
        self.nren = 0

    def path(self, disk, sub):
        return os.path.join(self.root, self.dirof.get(disk, disk), sub)

    def find_version(self, disk, f):
        return super().find_version(self.dirof.get(disk, disk), f)

    def name_of(self, d):
        for n, dd in self.dirof.items():
            if dd == d:
                return n
        return None

    def disk_lines(self):
        """[(name, directory)] in the order of the configuration file"""
        res = []
        for l in open(self.conf).read().split('\n'):
            t = l.split()
            if len(t) == 3 and t[0] in ('disk', 'data'):
                res.append((t[1], os.path.basename(t[2].rstrip('/'))))
        return res

    def set_disk_lines(self, dl):
        lines = [l for l in open(self.conf).read().split('\n') if l and l.split()[0] not in ('disk', 'data')]
        # data lines go where they were: after the content lines, before anything that followed (pool, extra lines keep their order)
        k = max([i for i, l in enumerate(lines) if l.split()[0] == 'content'] + [len(lines) - 1]) + 1
        lines[k:k] = ['disk %s %s/' % (n, os.path.join(self.root, d)) for n, d in dl]
        open(self.conf, 'w').write('\n'.join(lines) + '\n')

    def parity_block(self, level, pos):
        return self.parity_bytes(level)[pos * self.bs:(pos + 1) * self.bs]

    def damage_parity(self, level, pos, garbage):
        """overwrite one parity block behind the tool's back (the level may be split over several files)"""
        off = pos * self.bs
        for f in self.parity_files[level]:
            if not os.path.exists(f):
                continue
            n = os.path.getsize(f)
            if off < n:
                st = os.stat(f)
                with open(f, 'r+b') as g:
                    g.seek(off)
                    g.write(garbage[:n - off])
                os.utime(f, ns=(st.st_atime_ns, st.st_mtime_ns))
                return len(garbage) <= n - off
            off -= n
        return False


class Hist:
    """one array driven through a history, with the invariant oracles applied after every tool command"""

    def __init__(self, chk, binary, shim, model, rng, nd, np_, zmode=False, with_model=True, hasher=None, **arrkw):
        self.chk, self.rng = chk, rng
        self.arr = CArray(binary, nd=nd, np_=np_, shim=shim, zmode=zmode, **arrkw)
        self.damaged = {}            # (stripe, level) -> the garbage the HARNESS wrote there (damage, not the tool's doing)
        self.fam = {}                # counters of the configuration-change and bad-stripe families
        self.first_sync_opts = []
        self.br = Bridge(self.arr)
        self.model = model
        self.hasher = hasher
        self.with_model = with_model and not zmode
        self.ncmds = 0
        self.nstripes_checked = 0
        self.model_steps = 0
        self.inconclusive = 0
        self.log = []
        self.have_content = False
        self.rinfo = {}
        self._dec = {}

    def fs_op(self, op):
        a = self.arr
        k = op[0]
        if op[1] in a.retired or (k in ('move', 'copy', 'clone') and op[3] in a.retired) or not os.path.isdir(os.path.join(a.root, op[1])):
            return          # the disk was retired (or is not there yet): nothing lives there
        p = a.path(op[1], op[2]) if len(op) > 2 and isinstance(op[2], str) else None
        if k == 'write':
            a.write(op[1], op[2], self.rng.randbytes(op[3]))
        elif k == 'remove':
            if os.path.lexists(p):
                a.remove(op[1], op[2])
        elif k == 'move':
            q = a.path(op[3], op[4])
            if os.path.isfile(p) and not os.path.lexists(q):
                os.makedirs(os.path.dirname(q), exist_ok=True)
                data = open(p, 'rb').read(); st = os.stat(p)
                if op[1] == op[3]:
                    os.rename(p, q)
                else:
                    shutil.copy2(p, q); os.unlink(p)
                    os.utime(q, ns=(st.st_mtime_ns, st.st_mtime_ns))
                a.note_version(op[3], op[4])
        elif k == 'copy':
            q = a.path(op[3], op[2])
            if os.path.isfile(p) and not os.path.lexists(q):
                os.makedirs(os.path.dirname(q), exist_ok=True)
                st = os.stat(p)
                shutil.copy2(p, q)
                os.utime(q, ns=(st.st_mtime_ns, st.st_mtime_ns))
                a.note_version(op[3], op[2])
        elif k == 'clone':
            # the bytes of (op[1], op[2]) under the name op[4] on disk op[3], with a NEW time-stamp (not a copy for the tool)
            if os.path.isfile(p):
                a.write(op[3], op[4], open(p, 'rb').read())
        elif k == 'append':
            if os.path.isfile(p):
                a.write(op[1], op[2], open(p, 'rb').read() + self.rng.randbytes(op[3]))
        elif k == 'truncate':
            if os.path.isfile(p):
                a.write(op[1], op[2], open(p, 'rb').read()[:op[3]])
        elif k == 'touch':
            if os.path.isfile(p) and not os.path.islink(p):
                st = os.stat(p)
                a.write(op[1], op[2], open(p, 'rb').read(), mtime_ns=st.st_mtime_ns + 1_000_000_007)
        elif k == 'corrupt':
            # silent corruption of a FULLY synced file (every block BLK in the content file, same size and mtime):
            # damage, not a version.  Files that are not fully synced are left alone.
            base = os.path.join(a.root, op[1])
            try:
                c = a.content()
            except Exception:
                c = None
            cands = []
            if c:
                for f in c['disks'].get(a.name_of(op[1]) or op[1], {'files': []})['files']:
                    q = os.path.join(base, f['sub'].decode('latin1'))
                    if f['size'] > 0 and all(b[0] == 'BLK' for b in f['blocks']) and os.path.isfile(q) and not os.path.islink(q):
                        st = os.stat(q)
                        if st.st_size == f['size'] and st.st_mtime_ns // 10**9 == f['sec'] and (f['nsec'] < 0 or st.st_mtime_ns % 10**9 == f['nsec']):
                            cands.append(q)
            if cands:
                q = sorted(cands)[op[2] % len(cands)]
                st = os.stat(q)
                data = bytearray(open(q, 'rb').read())
                off = (op[2] * 7919) % len(data)
                for i in range(off, min(len(data), off + 20)):
                    data[i] ^= 0x5a
                with open(q, 'r+b') as f:
                    f.write(data)
                os.utime(q, ns=(st.st_atime_ns, st.st_mtime_ns))
        elif k == 'wipedisk':
            base = os.path.join(a.root, op[1])
            for n in os.listdir(base):
                a.remove(op[1], n)
        self.log.append(list(op))

    def invariants(self, what):
        """the property itself, judged by the independent decoder and the independent parity checker"""
        a = self.arr
        cb = a.content_bytes()
        if cb[0] is None:
            return
        try:
            st = a.content()
        except Exception as e:
            self.chk.violation('content_unreadable', 'content file written by %s cannot be decoded: %s' % (what, e), {'history': self.log})
            return None
        errs = a.check_map(st)
        perr, n = a.check_parity(st)
        self.nstripes_checked += n
        if self.damaged:
            # a parity block still holding the garbage the harness wrote is damage, not the tool's doing; once the tool has
            # rewritten it, it is judged like every other block
            import re
            keep = []
            for e in perr:
                m = re.match(r'stripe (\d+) level (\d+): parity block differs', e)
                if m and self.damaged.get((int(m.group(1)), int(m.group(2)))) == a.parity_block(int(m.group(2)), int(m.group(1))):
                    continue
                keep.append(e)
            perr = keep
            for (pos, l), g in list(self.damaged.items()):
                if a.parity_block(l, pos) != g:
                    del self.damaged[(pos, l)]
                    self.fam['damaged_blocks_rewritten_by_tool'] = self.fam.get('damaged_blocks_rewritten_by_tool', 0) + 1
        for e in (errs + perr)[:3]:
            self.chk.violation('inv', 'after `%s`: %s' % (what, e), dict(self.rinfo, history=self.log, error=e))
        return st

    def bump(self, k, n=1):
        self.fam[k] = self.fam.get(k, 0) + n

    def sync_cfg(self, *extra):
        a = self.arr
        args = ['sync'] + list(extra) + ['--force-empty', '--force-zero']
        try:
            maps0 = [(m['name'], m['pos'], m['uuid']) for m in a.content()['maps']]
        except Exception:
            maps0 = None
        r = a.run(*args)
        self.log.append(args + [r.rc])
        self.ncmds += 1
        st = self.invariants(' '.join(args) + ' (configuration: %s)' % ' '.join('%s=%s' % x for x in a.disk_lines()))
        if st is not None and maps0 is not None and r.rc == 0:
            self.map_model(maps0, st, args)
        return r, st

    def map_model(self, maps0, st, args):
        """tie of coq/Array/MapModel.v: the positions recorded in the 'M' records of the new content file must be the ones
        `remap` (the extracted model of the 'M' loader + state_map) predicts from the old records and the configuration"""
        mm = getattr(self, 'mapmodel', None)
        if not mm:
            return
        a = self.arr
        ids = getattr(self, '_nameid', None)
        if ids is None:
            ids = self._nameid = {}
            self._uuidid = {}
        def nid(x):
            return ids.setdefault(x if isinstance(x, str) else x.decode('latin1'), len(ids) + 1)
        def uid(u):
            if not u:
                return 0
            return self._uuidid.setdefault(u, len(self._uuidid) + 1)
        dl = a.disk_lines()
        req = ['remap', '1' if '--test-match-first-uuid' in args else '0', '0', '0', str(a.np), '0', 'M', str(len(maps0))]
        for n, p, u in maps0:
            req += [str(nid(n)), str(p), str(uid(u))]
        req += ['G', str(len(dl))]
        for n, d in dl:
            req += [str(nid(n)), '-']          # --test-skip-device: no uuid is detected (has_unsupported_uuid)
        out = run_lines(mm, [' '.join(req)], shards=1)[0]
        self.bump('map_model_comparisons')
        real = [(nid(m['name']), m['pos']) for m in st['maps']]
        back = {v: k for k, v in ids.items()}
        if out.startswith('ok '):
            t = out.split()
            pred = [(int(t[2 + 2 * i]), int(t[3 + 2 * i])) for i in range(int(t[1]))]
            # the save writes the mappings of the disks in use only: the records are a subsequence of the prediction
            it = iter(pred)
            ok = all(any(x == y for y in it) for x in real)
        else:
            pred = None
            ok = False
        if not ok:
            self.chk.violation('drift_map', 'MODEL-DRIFT: after `%s` the content file records the disks at %s; coq/Array/MapModel.v remap predicts %s from the previous records %s and the configuration %s' % (
                ' '.join(args), [(back[n], p) for n, p in real], None if pred is None else [(back[n], p) for n, p in pred],
                [(n if isinstance(n, str) else n.decode('latin1'), p) for n, p, u in maps0], [x[0] for x in dl]),
                dict(self.rinfo, history=self.log, request=' '.join(req), reply=out), no_input=True)

    def cfg(self, op):
        """a change of the configuration file followed by the sync that records it; the map / parity oracles run after it, with
        the positions read from the 'M' records of the new content file"""
        a = self.arr
        kind, d, bits = op[1], op[2], op[3]
        dl = a.disk_lines()
        active = [x[1] for x in dl]
        self.log.append(list(op))
        if kind == 'rename':
            if d not in active:
                return
            old = a.name_of(d)
            a.nren += 1
            new = 'r%d' % a.nren
            # --test-match-first-uuid resolves an unknown name to the FIRST disk line: the renamed disk goes first
            a.set_disk_lines([(new, d)] + [x for x in dl if x[1] != d])
            try:
                before = {m['name']: m['pos'] for m in a.content()['maps']}
            except Exception:
                before = {}
            a.dirof[new] = d
            r, st = self.sync_cfg('--test-match-first-uuid')
            names = {m['name']: m['pos'] for m in st['maps']} if st else {}
            if new in names:
                a.dirof.pop(old, None)
                self.bump('cfg_rename')
                if old in before and any(p < before[old] and p not in before.values() for p in range(before[old])):
                    self.bump('cfg_rename_with_lower_hole')
                if old in before and names[new] != before[old]:
                    self.bump('cfg_rename_position_changed')     # not a violation by itself: the parity oracle above judges it
            else:
                # the tool refused the rename (or saved nothing): back to the old name so that the history can go on
                a.dirof.pop(new, None)
                a.set_disk_lines(dl)
                self.bump('cfg_rename_refused')
        elif kind == 'retire':
            if d not in active or len(active) <= 2:
                return
            base = os.path.join(a.root, d)
            for n in os.listdir(base):
                a.remove(d, n)
            r, st = self.sync_cfg()
            if r.rc != 0:
                return
            a.set_disk_lines([x for x in dl if x[1] != d])
            r, st = self.sync_cfg()
            if st is not None and a.name_of(d) not in [m['name'] for m in st['maps']] and r.rc == 0:
                a.retired.add(d)
                a.dirof.pop(a.name_of(d), None)
                self.bump('cfg_retire')
            else:
                a.set_disk_lines(dl)
                self.bump('cfg_retire_refused')
        elif kind == 'add':
            if os.path.isdir(os.path.join(a.root, d)):
                return
            os.makedirs(os.path.join(a.root, d))
            a.disks.append(d)
            a.dirof[d] = d
            k = bits % (len(dl) + 1)
            a.set_disk_lines(dl[:k] + [(d, d)] + dl[k:])
            for i in range(1 + bits % 2):
                a.write(d, 'n%d' % i, self.rng.randbytes([1024, 3000, 4096][(bits >> 3) % 3]))
            r, st = self.sync_cfg()
            self.bump('cfg_add')
        elif kind == 'reorder':
            dl2 = list(dl)
            self.rng.shuffle(dl2)
            a.set_disk_lines(dl2)
            r, st = self.sync_cfg()
            self.bump('cfg_reorder')

    def badfix(self, op):
        """damage one parity block of a fully synced stripe, let scrub mark the stripe bad, modify (without sync) a file having a
        block there, then run the filtered fix / check"""
        a = self.arr
        cmd, how, bits = op[1], op[2], op[3]
        self.log.append(list(op))
        if a.np < 2:
            return
        try:
            st = a.content()
        except Exception:
            return
        stripes, order = a.stripes(st)
        cands = []
        for pos, blocks in sorted(stripes.items()):
            if not blocks or any(b[0] != 'BLK' for b in blocks.values()):
                continue
            # every file of the stripe is on disk as recorded (so that the data is healthy)
            ok = True
            for dp, (s_, d, f, i, h) in blocks.items():
                q = a.path(d, f['sub'].decode('latin1'))
                if not os.path.isfile(q) or os.path.islink(q) or a.find_version(d, f) != open(q, 'rb').read():
                    ok = False
            if ok and all(len(a.parity_block(l, pos)) == a.bs for l in range(a.np)):
                cands.append(pos)
        if not cands:
            return
        pos = cands[bits % len(cands)]
        lev = (bits >> 8) % a.np
        garbage = bytes((x * 37 + bits) & 0xff for x in range(a.bs))
        if garbage == a.parity_block(lev, pos) or not a.damage_parity(lev, pos, garbage):
            return
        self.damaged[(pos, lev)] = garbage
        self.bump('bad_parity_blocks_damaged')
        r = a.run('scrub', '-p', 'full')
        self.log.append(['damage-parity', pos, lev]); self.log.append(['scrub', '-p', 'full', r.rc])
        self.ncmds += 1
        st2 = self.invariants('scrub -p full (parity block of stripe %d level %d damaged)' % (pos, lev))
        if st2 is None:
            return
        bad = [i for i, x in enumerate(st2['info']) if x and x.get('bad')]
        if pos in bad:
            self.bump('bad_stripes_marked_by_scrub')
        # modify one file of the stripe, no sync
        dp = sorted(stripes[pos])[(bits >> 12) % len(stripes[pos])]
        s_, d, f, i, h = stripes[pos][dp]
        sub = f['sub'].decode('latin1')
        q = a.path(d, sub)
        data = open(q, 'rb').read()
        mt = os.stat(q).st_mtime_ns + 3_000_000_011
        dd = a.dirof.get(d, d)
        if how == 'same':
            a.write(dd, sub, self.rng.randbytes(len(data)), mtime_ns=mt)
        elif how == 'grow':
            a.write(dd, sub, data + self.rng.randbytes(700), mtime_ns=mt)
        elif how == 'shrink':
            a.write(dd, sub, data[:max(1, len(data) - 600)], mtime_ns=mt)
        else:
            a.write(dd, sub, data, mtime_ns=mt)
        self.log.append(['modify-unsynced', d, sub, how])
        args = {'fix-e': ['fix', '-e'], 'fix-b': ['fix', '-b'], 'fix-e-f': ['fix', '-e', '-f', sub.split('/')[-1]], 'check-e': ['check', '-e']}[cmd]
        before = a.snapshot_all()
        r = a.run(*args)
        self.log.append(args + [r.rc])
        self.ncmds += 1
        after = a.snapshot_all()
        self.bump('bad_' + cmd.replace('-', '_'))
        if args[0] == 'check':
            chg = [k for part in ('data', 'parity', 'content') for k in after[part] if after[part][k] != before[part].get(k)]
            if chg:
                self.chk.violation('check_writes', '`check -e` on a stripe marked bad changed %s' % chg[:3], dict(self.rinfo, history=self.log))
        else:
            if after['data'].get((dd, sub)) != before['data'].get((dd, sub)):
                self.chk.violation('fix_e_unsynced_written', '`%s` rewrote %s:%s, a file modified after the last sync (with -e / -b those are never fixed)' % (' '.join(args), d, sub),
                                   dict(self.rinfo, history=self.log))
            for (x, rel), v in a.snapshot_data().items():
                b = before['data'].get((x, rel))
                if v[0] == 'f' and (b is None or b[0] != 'f' or b[1] != v[1] or b[2] != v[2]):
                    a.note_version(x, rel)
        # the content file is untouched by fix / check: the blocks are still recorded synced with the old hashes, so every
        # level must encode the SYNCED versions (a block still holding the harness's garbage excepted)
        self.invariants(' '.join(args) + ' (stripe %d marked bad after its level-%d parity block was damaged; %s:%s modified [%s] and not synced)' % (pos, lev, d, sub, how))
        if (pos, lev) not in self.damaged:
            self.bump('bad_parity_blocks_repaired')

    def tool(self, op):
        a = self.arr
        self.ncmds += 1
        if op[0] == 'fixmissing':
            # delete one synced file and let fix restore it (fix must keep the invariant too)
            try:
                st = a.content()
            except Exception:
                return
            cands = [(d, f) for d, dd in st['disks'].items() for f in dd['files'] if all(b[0] == 'BLK' for b in f['blocks']) and f['size'] > 0]
            if not cands:
                return
            d, f = self.rng.choice(cands)
            p = a.path(d, f['sub'].decode('latin1'))
            if os.path.isfile(p):
                os.unlink(p)
            self.log.append(['rm-for-fix', d, f['sub'].decode('latin1')])
            before = a.snapshot_data()
            r = a.run('fix', '-m')
            self.log.append(['fix', '-m', r.rc])
            # whatever fix itself created or rewrote becomes the newest version (a file it did not touch, e.g. a silently
            # corrupted one keeping size+mtime of a known version, is not a version)
            for (dd, rel), v in a.snapshot_data().items():
                b = before.get((dd, rel))
                if v[0] == 'f' and (b is None or b[0] != 'f' or b[1] != v[1] or b[2] != v[2]):
                    a.note_version(dd, rel)
            self.invariants('fix -m')
            return
        if op[0] in ('rehash', 'touchcmd', 'fixsel'):
            try:
                st = a.content()
            except Exception:
                st = None
            if op[0] == 'rehash':
                args = ['rehash']
            elif op[0] == 'touchcmd':
                args = ['touch']
            else:
                files = [(d, f) for d, dd in (st['disks'].items() if st else []) for f in dd['files']]
                kind = op[1]
                if kind == 'parity':
                    args = ['fix', '-d', self.rng.choice(['parity', '2-parity'][:a.np])]
                elif kind == 'data':
                    args = ['fix', '-d', self.rng.choice([x[0] for x in a.disk_lines()])] + (['-m'] if self.rng.random() < 0.5 else [])
                elif kind == 'file' and files:
                    args = ['fix', '-f', self.rng.choice(files)[1]['sub'].decode('latin1').split('/')[-1]]
                elif kind == 'range':
                    args = ['fix', '-S', str(self.rng.randint(0, 2)), '-B', str(self.rng.randint(1, 3))]
                else:
                    args = ['fix', '-e']
            before = a.snapshot_data()
            r = a.run(*args)
            self.log.append(args + [r.rc])
            # whatever the command itself created or rewrote (restored files, *.unrecoverable, new time-stamps, a block without
            # recorded hash filled from unsynced parity) is the newest version of that file, even when it keeps the size and
            # time-stamp of an older one; a file the command did not touch (e.g. a silently corrupted one) is NOT a version
            range_fix = args[0] == 'fix' and '-S' in args and int(args[args.index('-S') + 1]) > 0
            for (dd, rel), v in a.snapshot_data().items():
                b = before.get((dd, rel))
                if v[0] == 'f' and (b is None or b[0] != 'f' or b[1] != v[1] or b[2] != v[2]):
                    if range_fix and (b is None or b[0] != 'f') and any(len(x[0]) == len(v[1]) and x[1] == v[2] for x in a.store.get((dd, rel), [])):
                        # `fix -S n` re-created a MISSING file with the recorded stamp but without the blocks before n (the open
                        # finding F-C05-fix-start-range-recovers-file-with-hole): that file is damaged, not the synced version
                        continue
                    a.note_version(dd, rel)
            self.invariants(' '.join(args))
            return
        args = list(op)
        self.fail = None
        if op[0] == 'sync' and self.first_sync_opts:
            args += self.first_sync_opts
            self.first_sync_opts = []
        if op[0] == 'sync' and '@fail' in op:
            k = op.index('@fail')
            self.fail = (op[k + 1], op[k + 2], op[k + 3])
            args = list(op[:k])
        if op[0] == 'sync':
            args += ['--force-empty', '--force-zero']
        if op[0] == 'sync' and self.with_model and '--test-kill-after-sync' not in op and '-F' not in op and '-h' not in op and '-R' not in op:
            self.sync_with_model(args)
        else:
            r = a.run(*args)
            self.log.append(args + [r.rc])
        if self.fail:
            self.log[-1] = self.log[-1] + ['@fail'] + list(self.fail)
        st = self.invariants(' '.join(args))
        if st is not None and self.with_model:
            self.br.learn_hashes(st)
            # resynchronise the model parity with reality: what the all-BLK stripes encode is known
            self.resync_parity(st)

    def resync_parity(self, st):
        """rebuild the model's view of parity from the independent oracle (stripes all-BLK encode the recorded data);
        everything else keeps the model's previous knowledge if it still validates, else becomes junk"""
        a, br = self.arr, self.br
        stripes, order = a.stripes(st)
        ndpos = a.nd
        npos = max([len(a.parity_bytes(l)) // a.bs for l in range(a.np)] + [0])
        old = br.parity
        new = [[['N'] for _ in range(npos)] for _ in range(a.np)]
        for l in range(a.np):
            real = a.parity_bytes(l)
            for pos in range(npos):
                e = old[l][pos] if pos < len(old[l]) else ['N']
                if e[0][0] == 'E':
                    v = [br.blocks[int(x)] for x in e[1:]]
                    exp = gfref.gen('c', l + 1, v)[l] if v else bytes(a.bs)
                    if real[pos * a.bs:(pos + 1) * a.bs] == exp:
                        new[l][pos] = e
                        continue
                vec = self.decode_stripe(st, stripes, pos)
                if vec is not None:
                    new[l][pos] = ['E%d' % ndpos] + list(map(str, vec))
                    continue
                if pos * a.bs < len(real):
                    new[l][pos] = ['J%d' % (pos + 1)]
        br.parity = new

    def decode_stripe(self, st, stripes, pos):
        """what do the real parity blocks of this stripe encode?  BLK blocks are known (recorded version), empty
        positions are zero; CHG/REP/DELETED positions are solved for from the first levels and verified with all."""
        a, br = self.arr, self.br
        key = ('dec', pos, tuple(a.parity_bytes(l)[pos * a.bs:(pos + 1) * a.bs] for l in range(a.np)))
        if key in self._dec:
            return self._dec[key]
        blocks = stripes.get(pos, {})
        data = [bytes(a.bs)] * a.nd
        unknown = []
        res = None
        ok = True
        for dp, (s_, d, f, i, h) in blocks.items():
            if s_ == 'BLK':
                v = a.find_version(d, f)
                if v is None:
                    ok = False
                    break
                blk = v[i * a.bs:(i + 1) * a.bs]
                data[dp] = blk + bytes(a.bs - len(blk))
            else:
                unknown.append(dp)
        par = [k[0] for k in [(x,) for x in key[2]]]
        if ok and all(len(p) == a.bs for p in par) and len(unknown) <= a.np:
            sol = gfref.solve_unknown('c', par, data, unknown)
            if sol is not None:
                for u, b in zip(unknown, sol):
                    data[u] = b
                exp = gfref.gen('c', a.np, data)
                if all(exp[l] == par[l] for l in range(a.np)) and (len(unknown) < a.np or not unknown):
                    res = [br.bid(b) for b in data]
                elif all(exp[l] == par[l] for l in range(a.np)):
                    # as many unknowns as levels: every content is "consistent"; only trust it if all solved blocks are known ones
                    if all(bytes(b) in br.bids for b in sol):
                        res = [br.bid(b) for b in data]
        self._dec[key] = res
        return res

    def sync_with_model(self, args):
        """one-step refinement of the sync loop: (1) real sync killed before the first parity write leaves the post-scan
        state on disk; (2) real sync with the scenario's options; the model runs (2) from the state left by (1)."""
        a, br = self.arr, self.br
        r0 = a.run('sync', '--force-empty', '--force-zero', shim_env={'VSHIM_KILL_ON': 'pwrite:.parity:1:before'})
        self.log.append(['sync(killed before first parity write)', r0.rc])
        if r0.rc not in (0, -9, 137):
            # refused or failed before touching parity: nothing to model
            r = a.run(*args)
            self.log.append(args + [r.rc])
            return
        try:
            st1 = a.content()
        except Exception:
            r = a.run(*args)
            self.log.append(args + [r.rc])
            return
        errs = a.check_map(st1)
        perr, n = a.check_parity(st1)
        for e in (errs + perr)[:3]:
            self.chk.violation('inv_kill', 'after a sync killed before its first parity write: %s' % e, dict(self.rinfo, history=self.log, error=e))
        br.learn_hashes(st1)
        # model parity length follows the real files (sync resized them before being killed)
        npos = max([len(a.parity_bytes(l)) // a.bs for l in range(a.np)] + [0])
        for l in range(a.np):
            lv = br.parity[l]
            while len(lv) < npos:
                lv.append(['J%d' % (len(lv) + 1)])
            del lv[npos:]
        # hashes of what is on disk now, taken from the run itself afterwards (the model needs them beforehand):
        # run the real command first, then feed the model the hashes the real run recorded for the same bytes.
        start, cnt, iol = 0, 0, 100
        if '-S' in args:
            start = int(args[args.index('-S') + 1])
        if '-B' in args:
            cnt = int(args[args.index('-B') + 1])
        fs_toks = br.ser_fs()
        c_toks = br.ser_content(st1)
        p_toks = br.ser_parity()
        self.model_in_parity = [list(lv) for lv in br.parity]
        q_toks = ['Q', '0']
        senv = None
        if self.fail:
            fd, fn, kind = self.fail
            order = {m['name']: m['pos'] for m in st1['maps']}
            hits = [(b[1], order[fd]) for f in st1['disks'].get(fd, {'files': []})['files'] if f['sub'].decode('latin1') == fn for b in f['blocks']]
            if hits and fd in order:
                q_toks = ['Q', str(len(hits))] + [t for pos, dp in hits for t in (str(pos), str(dp), kind)]
                # E: the file cannot be opened (ENOENT) ; I: every read of it fails with EIO
                senv = {'VSHIM_FAIL': ('open:%s:0:2' if kind == 'E' else 'pread:%s:0:5') % os.path.join(a.root, fd, fn)}
        r = a.run(*args, shim_env=senv)
        self.log.append(args + [r.rc])
        try:
            st2 = a.content()
        except Exception:
            return
        br.learn_hashes(st2)
        if self.hasher:
            br.compute_hashes(self.hasher, st1)
        blockmax = st1['blockmax']
        if start > blockmax:
            # state_sync refuses ("Error in the starting block"): exit 1 before anything is saved; the loop model does not apply
            if r.rc == 0 or br.ser_content(st2) != c_toks:
                self.chk.violation('start_beyond', 'sync -S %d beyond the parity size %d exits %d and %s the content file' % (start, blockmax, r.rc, 'changes' if br.ser_content(st2) != c_toks else 'keeps'),
                                   dict(self.rinfo, history=self.log))
            return
        mx = blockmax if (cnt == 0 or start + cnt >= blockmax) else start + cnt
        # `now` only matters for the info time: take it from the real result
        now = max([i['time'] for i in st2['info'] if i] + [0])
        req = ['sync', '0', '0', str(iol), str(now), str(a.bs), str(a.np), '-1', str(start), str(mx)] + br.ser_hashes() + c_toks + p_toks + fs_toks + q_toks
        out = run_lines(self.model, [' '.join(req)], shards=1)[0]
        self.model_steps += 1
        if not out.startswith('ok '):
            self.chk.violation('model_error', 'array model failed on a sync step: %s' % out[:200], dict(self.rinfo, request=' '.join(req)[:4000], history=self.log), no_input=True)
            return
        toks = out.split()
        i = toks.index('C')
        j = toks.index('P', i)
        mc = toks[i:j]
        rc = br.ser_content(st2)
        # compare content: info times of refreshed stripes are `now` of each run: normalise to 0/1 presence + flags
        def norm(t):
            t = list(t)
            k = t.index('INFO')
            n = int(t[k + 1]); out = t[:k + 2]; k += 2
            for _ in range(n):
                if t[k] == '-':
                    out.append('-'); k += 1
                else:
                    out += ['T'] + t[k + 1:k + 4]; k += 4
            return out
        junk_used = any(e[0][0] == 'J' for lv in self.model_in_parity for e in lv)
        if norm(mc) != norm(rc) and junk_used:
            self.inconclusive += 1
            return
        if norm(mc) != norm(rc):
            # which side satisfies the property?  the invariants on the real state are judged separately (invariants());
            # here the disagreement means the model no longer describes the code
            self.chk.violation('drift_sync', 'MODEL-DRIFT: the sync model predicts a different content state than the real sync (%s)' % ' '.join(args),
                               dict(self.rinfo, model=' '.join(norm(mc)), real=' '.join(norm(rc)), request=' '.join(req)[:6000], history=self.log), no_input=True)
            return
        mp, _ = br.parse_parity(toks, j)
        br.parity = mp
        perrs = br.check_parity_model()
        for e in perrs[:2]:
            self.chk.violation('drift_parity', 'MODEL-DRIFT: after %s the real parity is not what the sync model says it encodes: %s' % (' '.join(args), e),
                               dict(self.rinfo, history=self.log, error=e), no_input=True)

    def run(self, ops):
        for op in ops:
            if op[0] == 'cfg':
                self.cfg(op)
            elif op[0] == 'badfix':
                self.badfix(op)
            elif op[0] in ('sync', 'scrub', 'fixmissing', 'rehash', 'touchcmd', 'fixsel'):
                self.tool(op)
            else:
                self.fs_op(op)
            if len(self.chk.violations) > 6:
                break


def collision_trials(chk, binary, shim, hasher, rng, n):
    """hashsize 2: a file is rewritten IN PLACE (same size, new time-stamp) with bytes whose 16-bit block hash equals the
    recorded one (found with the tool's own hash function, harness/c/hash_drv.c).  With reduced hashes the tool may not treat
    a matching past hash as "unchanged": the parity must be rewritten.  Judged by the independent parity oracle and check."""
    done = 0
    for t in range(n):
        a = Array(binary, nd=2, np_=rng.choice([1, 2]), shim=shim, hashsize=2)
        try:
            bs = a.bs
            nb = rng.randint(1, 2)
            a.write('d1', 'x', rng.randbytes(nb * bs))
            a.write('d2', 'y', rng.randbytes((nb + 1) * bs))
            if a.run('sync').rc != 0:
                continue
            st = a.content()
            f = [f for f in st['disks']['d1']['files'] if f['sub'] == b'x'][0]
            want = [b[2][:2] for b in f['blocks']]
            newblocks = []
            for w in want:
                found = None
                for rd in range(12):
                    cands = [rng.randbytes(bs) for _ in range(20000)]
                    outs = run_lines(hasher, ['%s %s %s' % (st['hash'], st['seed'].hex(), c.hex()) for c in cands], shards=8)
                    for c, o in zip(cands, outs):
                        if bytes.fromhex(o.strip())[:2] == w:
                            found = c
                            break
                    if found:
                        break
                newblocks.append(found)
            if any(b is None for b in newblocks):
                continue
            a.write('d1', 'x', b''.join(newblocks))          # in place: same size, new mtime, colliding 16-bit hashes
            r = a.run('sync', '--force-empty')               # (every file of d1 was rewritten: the empty-disk interlock would refuse)
            st2 = a.content()
            perr, k = a.check_parity(st2)
            r2 = a.run('check')
            done += 1
            bad = perr[:1] + (['sync exits %d' % r.rc] if r.rc else []) + (['check after the sync exits %d' % r2.rc] if r2.rc else [])
            for b in bad[:1]:
                chk.violation('hash2_collision', 'hashsize 2: d1:x rewritten in place with blocks whose 16-bit hash equals the recorded one; after the sync: %s' % b,
                              {'kind': 'hash2_collision', 'np': a.np, 'blocks': nb, 'problems': bad})
        finally:
            shutil.rmtree(a.root, ignore_errors=True)
    return done


def large_offset_trial(chk, binary, rng):
    """a data file larger than 4 GiB (sparse: only three blocks carry bytes), 16 MiB blocks: the parity of the stripes at
    and beyond the 2^32-byte offset must encode the bytes really there (a 32-bit file offset would read stripe k from
    offset k*bs mod 2^32).  One parity level, two data disks: parity = xor, recomputed here with big-integer xor."""
    bsk = 16384
    a = Array(binary, nd=2, np_=1, blocksize_kib=bsk)
    try:
        bs = a.bs
        nblk = (1 << 32) // bs + 2                     # 258 blocks: block 256 starts at exactly 4 GiB
        p = a.path('d1', 'big')
        marks = {0: rng.randbytes(4096), 256: rng.randbytes(4096), 257: rng.randbytes(1000)}
        with open(p, 'wb') as f:
            for k, b in marks.items():
                f.seek(k * bs + 7)
                f.write(b)
            f.truncate((nblk - 1) * bs + 1007 + 7)
        if os.stat(p).st_blocks * 512 > 64 << 20:
            return 'not sparse here: skipped'
        small = rng.randbytes(3 * 1024)
        a.write('d2', 'small', small)
        r = a.run('sync', timeout=600)
        if r.rc != 0:
            chk.violation('large_sync', 'sync of a 4 GiB + 32 MiB sparse file (16 MiB blocks) exits %d: %s' % (r.rc, r.err[-300:]), {'kind': 'large_offset'})
            return 'sync failed'
        st = a.content()
        pf = a.parity_files[0][0]
        bad = []
        with open(pf, 'rb') as f, open(p, 'rb') as g:
            for k in (0, 1, 255, 256, 257):
                g.seek(k * bs); d1 = g.read(bs); d1 = d1 + bytes(bs - len(d1))
                d2 = small if k == 0 else b''
                d2 = d2 + bytes(bs - len(d2))
                exp = (int.from_bytes(d1, 'little') ^ int.from_bytes(d2, 'little')).to_bytes(bs, 'little')
                f.seek(k * bs); got = f.read(bs); got = got + bytes(bs - len(got))
                if got != exp:
                    bad.append(k)
        if bad:
            chk.violation('large_offset', 'file larger than 4 GiB: after a successful sync the parity of stripes %s (blocks at and beyond the 2^32-byte offset: 256, 257) is not the xor of the data really at those offsets' % bad,
                          {'kind': 'large_offset', 'blocksize_kib': bsk, 'bad_stripes': bad})
        return 'ok' if not bad else 'bad %s' % bad
    finally:
        shutil.rmtree(a.root, ignore_errors=True)


def main(tier, replay=None):
    chk = Check('C06', tier, 'proof')
    snap = snapshot_repo()
    regen(snap)
    try:
        binary = build_tool(snap)
        shim = build_shim(snap)
        hasher = build_driver(snap, 'hash_drv.c', ['cmdline/util.c', 'cmdline/stream.c', 'cmdline/support.c', 'cmdline/elem.c', 'cmdline/unix.c', 'raid/memory.c', 'tommyds/tommy.c'], 'hash_drv', libs=['-lblkid'])
    except BuildError as e:
        chk.violation('build', 'working tree does not build: ' + str(e)[:500], {'error': str(e)}, no_input=True)
        return chk.finish()
    ob = check_obligations('C06')
    proof_coverage(chk, ob, 'make -f Makefile.coq -k Props/Properties_C06*.vo (coqc 8.16.1) + Print Assumptions',
                   ['Coq 8.16.1 kernel', 'hand model coq/Array/{ArrayDefs,SyncModel}.v of cmdline/sync.c state_sync_process + state_write normalisation',
                    'extraction + ocaml/C06/driver.ml', 'hand model coq/Array/MapModel.v of the M-record loader + state_map (cmdline/state.c) + ocaml/C06map/driver.ml', 'harness/py/{arraylib,modelbridge,content,gfref}.py (independent content decoder and parity checker)', 'harness/c/shim.c'])
    model = build_model('Extract/Extract_C06.vo', 'ocaml/C06', 'c06_ext', 'driver.ml', 'model')
    mapmodel = build_model('Extract/Extract_C06map.vo', 'ocaml/C06map', 'c06map_ext', 'driver.ml', 'mapmodel')
    rng = chk.rng
    if replay:
        rp = json.load(open(replay))['replay']
        if rp.get('plain'):
            kw = dict(rp['plain']); murmur = kw.pop('murmur_first', False); zm = kw.pop('zmode', False)
            H = Hist(chk, binary, shim, model, random.Random(rp['seed']), rp['nd'], rp['np'], zmode=zm, with_model=False, hasher=None, **kw)
            if murmur:
                H.first_sync_opts = ['--test-force-murmur3']
        else:
            H = Hist(chk, binary, shim, model, random.Random(rp['seed']), rp['nd'], rp['np'], hasher=hasher)
        H.rinfo = {'nd': rp['nd'], 'np': rp['np'], 'seed': rp['seed'], 'ops': rp['ops'], 'plain': rp.get('plain')}
        H.mapmodel = mapmodel
        H.run([tuple(o) for o in rp['ops']])
        print('replayed history on', H.arr.root, '(kept for inspection)' if os.environ.get('VERIF_KEEP') else '')
        for l in H.log:
            print('  ', l)
        if not os.environ.get('VERIF_KEEP'):
            shutil.rmtree(H.arr.root, ignore_errors=True)
        chk.cov.update({'evaluations': H.ncmds, 'distinct_nontrivial': max(2, H.ncmds), 'rule': 'replay of one recorded history'})
        chk.cov['samples'] = [rp['ops'][:10]]
        return chk.finish()
    nh = 40 if tier == 'quick' else 300
    total_cmds = total_stripes = total_model = 0
    samples = []
    import concurrent.futures as cf
    hists = []
    for h in range(nh):
        nd = rng.choice([2, 3, 3, 4])
        np_ = rng.choice([1, 2, 2, 3, 6]) if h % 5 else 1
        ops = gen_history(random.Random(rng.getrandbits(32)), nd, rng.randint(4, 8))
        hists.append((nd, np_, ops, rng.getrandbits(32)))

    # oracle-only histories (pre-hash, realloc, rehash in progress, touch, selective fix, scrub plans; also split parity, several
    # content copies, reduced hash size): no model replay, every command judged by the independent map and parity oracles
    nplain = 16 if tier == 'quick' else 120
    for h in range(nplain):
        nd = rng.choice([2, 3, 4])
        np_ = rng.choice([1, 2, 2, 3])
        ops = gen_history_plain(random.Random(rng.getrandbits(32)), nd, rng.randint(4, 7))
        kw = {'plain': True, 'murmur_first': rng.random() < 0.6, 'splits': rng.choice([1, 1, 2, 3]), 'ncontent': rng.choice([1, 1, 2]),
              'hashsize': rng.choice([None, None, 8]), 'parity_order': rng.choice([None, 'reversed', 'rotated'])}
        if h % 4 == 0:
            # the alternate (Vandermonde) third parity, with the z-parity line anywhere among the parity lines
            np_ = 3
            kw['zmode'] = True
            kw['parity_order'] = rng.choice(['reversed', 'rotated', None])
        hists.append((nd, np_, ops, rng.getrandbits(32), kw))

    # configuration-change family and bad-stripe family (oracle-only; 2..3 parity levels, also split parity / several content copies)
    nconf = 12 if tier == 'quick' else 90
    for h in range(nconf):
        nd = rng.choice([3, 3, 4])
        np_ = rng.choice([2, 2, 3])
        ops = gen_history_conf(random.Random(rng.getrandbits(32)), nd, rng.randint(3, 6))
        kw = {'plain': True, 'family': 'conf', 'murmur_first': False, 'splits': rng.choice([1, 1, 2]), 'ncontent': rng.choice([1, 2]),
              'hashsize': None, 'parity_order': rng.choice([None, 'reversed'])}
        hists.append((nd, np_, ops, rng.getrandbits(32), kw))
    nbad = 10 if tier == 'quick' else 80
    for h in range(nbad):
        nd = rng.choice([2, 3, 3])
        np_ = rng.choice([2, 2, 3])
        ops = gen_history_badfix(random.Random(rng.getrandbits(32)), nd, rng.randint(3, 6))
        kw = {'plain': True, 'family': 'badfix', 'murmur_first': False, 'splits': rng.choice([1, 1, 2]), 'ncontent': rng.choice([1, 2]),
              'hashsize': rng.choice([None, 8]), 'parity_order': None}
        hists.append((nd, np_, ops, rng.getrandbits(32), kw))
    fam_total = {}

    def one(hh):
        nd, np_, ops, seed = hh[:4]
        kw = dict(hh[4]) if len(hh) > 4 else {}
        fam = kw.pop('family', None)
        if kw.pop('plain', False):
            murmur = kw.pop('murmur_first')
            zm = kw.pop('zmode', False)
            H = Hist(chk, binary, shim, model, random.Random(seed), nd, np_, zmode=zm, with_model=False, hasher=None, **kw)
            kw['zmode'] = zm
            if murmur:
                H.first_sync_opts = ['--test-force-murmur3']     # so that a later `rehash` has something to do
            H.rinfo = {'nd': nd, 'np': np_, 'seed': seed, 'ops': ops, 'plain': dict(kw, murmur_first=murmur)}
            if fam:
                H.rinfo['family'] = fam
        else:
            H = Hist(chk, binary, shim, model, random.Random(seed), nd, np_, hasher=hasher)
            H.rinfo = {'nd': nd, 'np': np_, 'seed': seed, 'ops': ops}
        H.family = fam
        H.mapmodel = mapmodel
        H.run(ops)
        shutil.rmtree(H.arr.root, ignore_errors=True)
        return H
    with cf.ThreadPoolExecutor(max_workers=min(8, NCPU)) as ex:
        for H in ex.map(one, hists):
            total_cmds += H.ncmds; total_stripes += H.nstripes_checked; total_model += H.model_steps
            for k, v in H.fam.items():
                fam_total[k] = fam_total.get(k, 0) + v
            if H.family:
                fam_total['%s_histories' % H.family] = fam_total.get('%s_histories' % H.family, 0) + 1
                fam_total['%s_commands' % H.family] = fam_total.get('%s_commands' % H.family, 0) + H.ncmds
                fam_total['%s_all_blk_stripes_recomputed' % H.family] = fam_total.get('%s_all_blk_stripes_recomputed' % H.family, 0) + H.nstripes_checked
            if len(samples) < 3:
                samples.append({'nd': H.arr.nd, 'np': H.arr.np, 'history': H.log[:14]})
    chk.cov.update({'evaluations': total_cmds, 'distinct_nontrivial': total_cmds,
                    'rule': 'generated histories of FS changes (write/remove/move/copy/append/truncate at block-boundary sizes) and tool commands (sync full/partial -S -B/autosave+kill-after-sync/forced -F, scrub, fix -m after a deletion) on %d arrays, plus %d oracle-only histories (sync -h pre-hash, -R, rehash in progress after a murmur3 first sync, touch, fix -d parity / -d disk / -f / -S -B / -e, scrub plans new/bad/percentage/full with -o 0, forced autosave; split parity, 1-2 content copies, hash size 16/8); after EVERY tool command the independent decoder checks the block map and the independent parity checker recomputes every level of every all-BLK stripe from the harness version store; non-trivial = tool commands executed' % (nh, nplain),
                    'histories': nh, 'all_blk_stripes_recomputed': total_stripes, 'sync_steps_replayed_by_model': total_model,
                    'traces_validated_against_impl': total_model})
    chk.cov['samples'] = samples
    chk.cov['families'] = dict(fam_total, rule='conf = configuration-change family (rename by UUID with --test-match-first-uuid / retire with sync -E and line removed / add / reorder; 2-3 parity levels; positions of the oracle read from the M records of the content file); badfix = parity block damaged, scrub marks the stripe bad, a file of the stripe modified and not synced, then fix -e / -b / -e -f / check -e; every level of every all-BLK stripe recomputed from the SYNCED versions after every command, check must change nothing')
    chk.cov['large_offset_trial'] = large_offset_trial(chk, binary, rng)
    chk.cov['reduced_hash_collision_trials'] = collision_trials(chk, binary, shim, hasher, rng, 2 if tier == 'quick' else 10)
    if ob['failed'] and not chk.violations:
        chk.violation('obligation', 'proof obligation of C06 no longer checks: %s' % ob['failed'][0],
                      {'theorem_file': 'coq/Props/Properties_C06.v', 'failed': ob['failed'], 'log_tail': ob['log'][-1500:]}, no_input=True)
    chk.assumptions += ['parity-write faults are excluded from the invariant theorem (they are the subject of C08)',
                        'hash collision-freedom on the finite set of blocks of each history; parity blocks of one level are equal iff they encode the same vector',
                        'rehash (hash migration), pre-hash, forced realloc, touch and the selective fix runs are outside the sync-loop MODEL; they are exercised by oracle-only histories (independent map and parity oracles after every command)']
    return chk.finish()
