"""C07 -- interrupted sync and fix are safe and resumable.

(a) graceful stop: SIGINT / SIGTERM delivered to a running sync at every stripe (stripes made observable by
    harness/c/c07_slow.c);
(b) abrupt kill: for EVERY numbered state-changing system call k of a small sync, the process is killed just before, just
    after and (writes) in the middle of call k (harness/c/shim.c);
(c) fix killed at every k, then re-run.
Oracles (all independent of the tool): byte/mtime snapshots of the data disks, the python content decoder, the python
parity checker (every stripe a surviving content copy records as all-BLK must have valid parity: `kill_inv`), the version
store for recovery tests.  The effect trace of coq/Fault/FaultModel.v (sync_trace) is compared with the numbered system
calls of the reference run."""
import os, sys, json, time, shutil, subprocess, signal, re
from common import *
from arraylib import *
from c07_lib import *

KEY_AUTOSAVE = 'F-C07-autosave-writers-not-drained'
KEY_TRUNC = 'F-C07-parity-truncated-before-content-save'
KEY_PREHASH = 'F-C07-prehash-loses-empty-marker'
KEY_REDHASH = 'F-C07-reduced-hash-ignores-empty-marker'
LOAD_FAIL = re.compile(r'content file.*(damaged|truncated)|Error reading the content|Unexpected end of content|No content file|Error decoding', re.I)
WRITE_CALLS = ('write', 'pwrite')


def clone(a):
    """an independent copy of the whole array (data, parity, content) with its own configuration"""
    root2 = mkscratch('c07c.')
    shutil.copytree(a.root, root2, symlinks=True, dirs_exist_ok=True)
    b = Array(a.bin, nd=a.nd, np_=a.np, ncontent=len(a.content_files), shim=a.shim, root=root2, splits=getattr(a, 'splits_', 1), hashsize=getattr(a, 'hashsize_', None))
    b.splits_, b.hashsize_ = getattr(a, 'splits_', 1), getattr(a, 'hashsize_', None)
    b.store = a.store
    return b


def lose(b, dev):
    """dev = ('d', disk name) | ('p', level): the device is replaced by an empty one"""
    if dev[0] == 'd':
        p = os.path.join(b.root, dev[1])
        shutil.rmtree(p)
        os.makedirs(p)
    else:
        for f in b.parity_files[dev[1]]:
            if os.path.exists(f):
                os.unlink(f)


def valid_contents(a):
    """[(index, decoded state)] of the content copies that decode"""
    out = []
    for i in range(len(a.content_files)):
        try:
            out.append((i, a.content(i)))
        except Exception:
            pass
    return out


def loads_ok(r):
    return r.rc >= 0 and r.rc not in (139, 134) and not LOAD_FAIL.search(r.out + r.err)


class InDiskKill:
    """content copies stored INSIDE the data disks (d1/snapraid.content, d2/snapraid.content, a third one outside): a sync killed at
    every call of every content save (the save before the loop, the autosave, the final save) leaves stale `<content>.tmp` files ON the
    data disks.  The resumed sync must complete (exit 0), must not record a .tmp / .lock / content file as data, and the stale
    temporaries must be gone afterwards."""

    def __init__(self, chk, scn, cache, autosave_at=0):
        self.chk, self.scn, self.cache, self.autosave_at = chk, scn, cache, autosave_at
        self.force = ['--force-empty'] if scn.name == 'wipe' else []
        self.opts = ['--test-io-cache', str(cache)] + (['--test-force-autosave-at', str(autosave_at)] if autosave_at else []) + self.force
        self.stats = {'kills': 0, 'resumed_ok': 0, 'stale_tmp_seen': 0}
        self.desc = dict(scn.describe(), io_cache=cache, autosave_at=autosave_at, content_in_disks=True)
        a = scn.build()
        log = os.path.join(a.root, 'ref.log')
        r = a.run('sync', *self.opts, shim_env={'VSHIM_LOG': log})
        if r.rc != 0:
            raise RuntimeError('reference sync failed: %r' % r)
        self.calls = shim_log(log)
        self.root_ref = a.root
        self.check_state(a, 'an uninterrupted sync', self.desc)
        drop(a)

    def points(self):
        pts = []
        for (n, call, path, rest) in self.calls:
            if 'snapraid.content' not in path:
                continue
            pts.append((n, 'before'))
            pts.append((n, 'after'))
            if call in WRITE_CALLS:
                pts.append((n, 'short'))
        return pts

    def recorded_aux(self, a):
        bad = []
        for i in range(len(a.content_files)):
            try:
                st = a.content(i)
            except Exception as e:
                bad.append('copy %d does not decode: %s' % (i, e))
                continue
            for d, dd in st['disks'].items():
                for f in dd['files']:
                    sub = f['sub'].decode('latin1')
                    if 'snapraid.content' in sub or sub.endswith('.tmp') or sub.endswith('.lock'):
                        bad.append('%s:%s' % (d, sub))
        return sorted(set(bad))

    def check_state(self, a, what, rep):
        aux = self.recorded_aux(a)
        if aux:
            self.chk.violation('indisk_recorded', '%s records content/temporary files as data: %s' % (what, aux[:3]), rep)
        left = [c + '.tmp' for c in a.content_files if os.path.exists(c + '.tmp')]
        if left:
            self.chk.violation('indisk_tmp_left', '%s leaves stale temporaries behind: %s' % (what, [l.replace(a.root, '') for l in left]), rep)
        return not aux and not left

    def kill_case(self, pt):
        k, mode = pt
        chk = self.chk
        if len(chk.violations) > 8:
            return
        a = self.scn.build()
        rep = dict(self.desc, kill='%d:%s' % (k, mode), call=' '.join(map(str, self.calls[k - 1][1:3])).replace(self.root_ref, ''))
        try:
            r = a.run('sync', *self.opts, shim_env={'VSHIM_KILL': '%d:%s' % (k, mode) if mode != 'before' else str(k)})
            self.stats['kills'] += 1
            if r.rc not in (-9, 137):
                if r.rc != 0:
                    chk.violation('kill_rc', 'sync with VSHIM_KILL=%d:%s neither killed nor successful (rc %d): %s' % (k, mode, r.rc, r.err[-200:]), rep)
                return
            stale = [c + '.tmp' for c in a.content_files if os.path.exists(c + '.tmp')]
            if stale:
                self.stats['stale_tmp_seen'] += 1
            rep['stale_tmp_after_kill'] = [x.replace(a.root, '') for x in stale]
            rs = a.run('sync', *self.force)
            if rs.rc != 0:
                chk.violation('indisk_resume', 'content copies inside the data disks: the sync after a sync killed at call %d (%s, %s) does not complete (rc %d; stale %s): %s' % (
                    k, mode, rep['call'], rs.rc, rep['stale_tmp_after_kill'], (rs.err or rs.out)[-300:]), rep)
                return
            ok = self.check_state(a, 'the sync resumed after a kill at call %d (%s)' % (k, mode), rep)
            st = a.content()
            perr, _ = a.check_parity(st)
            left = all_synced(a, st)
            if perr or left:
                ok = False
                chk.violation('indisk_resume', 'content copies inside the data disks: after the resumed sync (kill at call %d %s) stripes %s are unsynced, parity errors %s' % (k, mode, left, perr[:2]), rep)
            rd = a.run('diff')
            if rd.rc != 0:
                ok = False
                chk.violation('indisk_resume', 'content copies inside the data disks: `diff` after the resumed sync reports differences (rc %d): %s' % (rd.rc, rd.out[-200:]), rep)
            if ok:
                self.stats['resumed_ok'] += 1
        finally:
            drop(a)


KEY_SECOND = 'F-C07-second-interrupted-sync-clears-empty-marker'


class TwoKills:
    """additions only, TWO successive interrupted syncs: d1/a synced; d2/b added, sync killed (k1); d3/c added, sync killed again (k2).
    The second sync LOADS the content the first one saved before its loop: state_read with clear_past_hash turns the 'this position
    held nothing' marker (CHG, past hash ZERO) of b's blocks into INVALID, and the second run's own save before the loop writes that.
    Every file synced before (d1/a) has to stay recoverable from any single lost device."""

    def __init__(self, chk, binary, shim, np_, cache, nblk=4):
        self.chk, self.binary, self.shim, self.np, self.cache, self.nblk = chk, binary, shim, np_, cache, nblk
        self.stats = {'histories': 0, 'recoveries': 0, 'passed': 0, 'marker_cleared': 0}
        self.desc = {'family': 'two successive interrupted syncs, additions only', 'nd': 3, 'np': np_, 'io_cache': cache, 'nblk': nblk}
        self.opts = ['--test-io-cache', str(cache)]
        a = self.build()
        self.n1 = self.count(a)          # calls of the first sync (d2/b added)
        self.add_c(a)
        self.n2 = self.count(a)          # calls of the second one (d3/c added), after a COMPLETE first one: an upper bound
        drop(a)

    def build(self):
        a = Array(self.binary, nd=3, np_=self.np, ncontent=1, shim=self.shim)
        a.write('d1', 'a', det_bytes('tk/a', self.nblk * BS - 7), mtime_ns=T0 + 123456789)
        r = a.run('sync')
        if r.rc != 0:
            raise RuntimeError('two-kills: clean sync failed: %r' % r)
        a.write('d2', 'b', det_bytes('tk/b', (self.nblk - 1) * BS + 5), mtime_ns=T0 + 50 * 10**9 + 123456789)
        return a

    def add_c(self, a):
        a.write('d3', 'c', det_bytes('tk/c', self.nblk * BS), mtime_ns=T0 + 90 * 10**9 + 123456789)

    def count(self, a):
        log = os.path.join(a.root, 'cnt.log')
        if os.path.exists(log):
            os.unlink(log)
        r = a.run('sync', *self.opts, shim_env={'VSHIM_LOG': log})
        if r.rc != 0:
            raise RuntimeError('two-kills: reference sync failed: %r' % r)
        return len(shim_log(log))

    def points(self, quick):
        """(k1, k2): k = ('pw', j) just before the j-th parity pwrite | ('n', call number, mode)"""
        pw = [('pw', j) for j in range(1, self.nblk * self.np + 1)]
        num1 = [('n', k, 'before') for k in range(1, self.n1 + 1)]
        num2 = [('n', k, 'before') for k in range(1, self.n2 + 1)]
        if quick:
            k1s = pw[:3] + pw[-1:] + num1[::3]
            k2s = pw[:2] + pw[-1:] + num2[::5] + [('n', self.n2, 'after')]
        else:
            k1s = pw + num1 + [('n', k, 'short') for k in range(1, self.n1 + 1, 2)]
            k2s = pw + num2[::2] + [('n', self.n2, 'after')]
        return [(k1, k2) for k1 in k1s for k2 in k2s]

    @staticmethod
    def kill_env(k):
        if k[0] == 'pw':
            return {'VSHIM_KILL_ON': 'pwrite:.parity:%d:before' % k[1]}
        return {'VSHIM_KILL': '%d:%s' % (k[1], k[2]) if k[2] != 'before' else str(k[1])}

    @staticmethod
    def markers(a, st, disk, sub):
        """pos -> 'ZERO' | 'INVALID' | 'other' for the CHG blocks of a file"""
        out = {}
        for f in st['disks'].get(disk, {'files': []})['files']:
            if f['sub'].decode('latin1') == sub:
                for (s_, pos, h) in f['blocks']:
                    if s_ == 'CHG':
                        out[pos] = 'INVALID' if h == bytes(len(h)) else ('ZERO' if h == b'\xff' * len(h) else 'other')     # elem.h: invalid = 00.., zero = ff..
        return out

    def case(self, pt):
        k1, k2 = pt
        chk = self.chk
        if len(chk.violations) > 8:
            return
        a = self.build()
        rep = dict(self.desc, kill1=list(map(str, k1)), kill2=list(map(str, k2)))
        try:
            r1 = a.run('sync', *self.opts, shim_env=self.kill_env(k1))
            if r1.rc not in (-9, 137):
                return                                   # not killed: a single interrupted sync is the SyncKill family
            try:
                m1 = self.markers(a, a.content(), 'd2', 'b')
            except Exception:
                m1 = {}
            self.add_c(a)
            r2 = a.run('sync', *self.opts, shim_env=self.kill_env(k2))
            killed2 = r2.rc in (-9, 137)
            if not killed2 and r2.rc != 0:
                chk.violation('twokills_resume', 'additions only: the sync after a sync killed at %s fails (rc %d): %s' % (k1, r2.rc, r2.err[-300:]), rep)
                return
            self.stats['histories'] += 1
            try:
                st2 = a.content()
            except Exception as e:
                chk.violation('no_content', 'two successive killed syncs (%s, %s): the content does not decode: %s' % (k1, k2, e), rep)
                return
            m2 = self.markers(a, st2, 'd2', 'b')
            cleared = sorted(p for p in m1 if m1[p] == 'ZERO' and m2.get(p) == 'INVALID')
            if cleared:
                self.stats['marker_cleared'] += 1
            # independent diagnosis of the stripes of d1/a: which parity levels still hold the parity of the OLD data (d1/a alone)
            apos = file_stripes(a, st2, 'd1', 'a')
            adata = a.store[('d1', 'a')][0][0]
            old_levels = {}
            for pos in apos:
                i = apos.index(pos)
                blk = adata[i * a.bs:(i + 1) * a.bs]
                data = [blk + bytes(a.bs - len(blk))] + [bytes(a.bs)] * 2
                exp = gfref.gen('c', a.np, data)
                old_levels[pos] = [l for l in range(a.np) if a.parity_bytes(l)[pos * a.bs:(pos + 1) * a.bs] == exp[l]]
            rep.update({'markers_after_kill1': {str(k): v for k, v in m1.items()}, 'markers_after_kill2': {str(k): v for k, v in m2.items()}, 'cleared': cleared,
                        'levels_still_old': {str(k): v for k, v in old_levels.items()}})
            # kill_inv on the way
            perr, _ = a.check_parity(st2)
            for e in perr[:1]:
                chk.violation('kill_inv', 'two successive killed syncs (%s, %s): a stripe is recorded synced whose parity is not valid: %s' % (k1, k2, e), rep)
            devs = [('d', 'd1'), ('d', 'd2'), ('d', 'd3')] + [('p', l) for l in range(a.np)]
            for dev in devs:
                b = clone(a)
                try:
                    lose(b, dev)
                    rf = b.run('fix', '-d', dev[1]) if dev[0] == 'd' else b.run('fix')
                    self.stats['recoveries'] += 1
                    p = b.path('d1', 'a')
                    if os.path.isfile(p) and open(p, 'rb').read() == adata:
                        self.stats['passed'] += 1
                        continue
                    # the exact shape of the open finding: the data disk of the old file lost (one device, never more than the parity levels), no
                    # torn write, and in a stripe of d1/a a block of d2/b whose empty marker was ZERO after the first kill and is INVALID after
                    # the second, with a parity level of that stripe still holding the OLD parity (with the marker, zeros + that level rebuild a)
                    torn = any(k[0] == 'n' and k[2] == 'short' for k in (k1, k2))
                    hitpos = [p_ for p_ in cleared if p_ in apos]
                    if torn and a.np == 1 and dev == ('d', 'd1'):
                        self.stats['torn_np1_unrecoverable'] = self.stats.get('torn_np1_unrecoverable', 0) + 1      # Q-C07: measured, not judged
                        continue
                    # (a kill inside a write with two parity levels: the torn block costs one level, the other is in the situation of np = 1)
                    shape = dev == ('d', 'd1') and bool(hitpos) and (os.path.exists(p + '.unrecoverable') or not os.path.isfile(p))
                    # variant 'old': a level of such a stripe still holds the OLD parity (keeping ZERO would have rebuilt a);
                    # variant 'mixed': every level already holds a+b (first kill after the parity writes, before the final save) but not c:
                    # fix tries 'all new' and 'all old' only, never 'b new, c empty'
                    rep['variant'] = 'old' if any(old_levels.get(p_) for p_ in hitpos) else 'mixed'
                    if shape:
                        self.stats['finding_' + rep['variant']] = self.stats.get('finding_' + rep['variant'], 0) + 1
                    chk.violation('twokills_adds_only', 'additions only, two successive interrupted syncs (killed at %s, then at %s): after losing %s, fix (rc %d) does not restore the previously synced d1:a (markers of d2:b after kill 1 %s, after kill 2 %s)' % (
                        k1, k2, dev, rf.rc, sorted(set(m1.values())), sorted(set(m2.values()))), rep, finding_key=KEY_SECOND if shape else None)
                finally:
                    drop(b)
        finally:
            drop(a)


class RehashKill:
    """a sync interrupted while a REHASH is in progress (array created with the other hash kind, `rehash` issued, only a part of the
    stripes rehashed so far): `sync -h` with a deletion and an addition re-using the freed position, killed at every call; before
    the resumed sync nothing / a lower file of the same disk is deleted (the scan may then move the half-synced file down).  The
    resumed sync must complete, a second one too, parity valid, `check` clean, every file recoverable."""

    def __init__(self, chk, binary, shim, np_, cache, opts=('-h',)):
        self.chk, self.binary, self.shim, self.np, self.cache = chk, binary, shim, np_, cache
        self.opts = ['--test-io-cache', str(cache)] + list(opts)
        self.stats = {'histories': 0, 'passed': 0, 'rehash_pending_at_kill': 0}
        self.desc = {'family': 'sync interrupted while a rehash is in progress', 'np': np_, 'io_cache': cache, 'options': list(opts)}
        a = self.build()
        log = os.path.join(a.root, 'ref.log')
        r = a.run('sync', *self.opts, shim_env={'VSHIM_LOG': log})
        if r.rc != 0:
            raise RuntimeError('rehash-kill: reference sync failed: %r' % r)
        self.calls = shim_log(log)
        drop(a)

    def build(self):
        a = Array(self.binary, nd=3, np_=self.np, ncontent=1, shim=self.shim)
        a.write('d1', 'a1', det_bytes('rk/a1', BS), mtime_ns=T0 + 1)
        a.write('d1', 'a2', det_bytes('rk/a2', BS), mtime_ns=T0 + 2)
        a.write('d1', 'a3', det_bytes('rk/a3', BS - 3), mtime_ns=T0 + 3)
        a.write('d2', 'x', det_bytes('rk/x', 3 * BS), mtime_ns=T0 + 4)
        r = a.run('sync', '--test-force-murmur3')
        r2 = a.run('rehash')
        a.write('d3', 'y', det_bytes('rk/y', BS), mtime_ns=T0 + 50 * 10**9)
        r3 = a.run('sync')                                # rehashes stripe 0 only
        if r.rc or r2.rc or r3.rc:
            raise RuntimeError('rehash-kill: preparation failed: %r %r %r' % (r, r2, r3))
        a.remove('d1', 'a2')
        a.write('d1', 'b', det_bytes('rk/b', BS), mtime_ns=T0 + 90 * 10**9)       # re-uses the position of a2 (not yet rehashed)
        return a

    def points(self, quick):
        pts = [('kas', 0, '')]
        for (n, call, path, rest) in self.calls:
            pts.append(('n', n, 'before'))
            if not quick and call in WRITE_CALLS:
                pts.append(('n', n, 'short'))
        pts.append(('n', len(self.calls), 'after'))
        return [(p, v) for p in pts for v in ('none', 'rm_lower', 'rm_lower_add')]

    def case(self, pt):
        (kind, k, mode), variant = pt
        chk = self.chk
        if len(chk.violations) > 8:
            return
        a = self.build()
        rep = dict(self.desc, kill=[kind, k, mode], before_resume=variant)
        try:
            if kind == 'kas':
                r = a.run('sync', *self.opts, '--test-kill-after-sync')
            else:
                r = a.run('sync', *self.opts, shim_env={'VSHIM_KILL': '%d:%s' % (k, mode) if mode != 'before' else str(k)})
                if r.rc not in (-9, 137):
                    return
            self.stats['histories'] += 1
            try:
                st = a.content()
                if any(i and i['rehash'] for i in st['info']):
                    self.stats['rehash_pending_at_kill'] += 1
            except Exception:
                pass
            if variant != 'none':
                a.remove('d1', 'a1')                  # a lower position of the same disk becomes free
            if variant == 'rm_lower_add':
                a.write('d2', 'z', det_bytes('rk/z', BS + 9), mtime_ns=T0 + 120 * 10**9)
            want = a.snapshot_data()
            rs = a.run('sync')
            if rs.rc != 0:
                rs2 = a.run('sync')
                chk.violation('rehash_resume', 'rehash in progress: the sync after a `sync %s` killed at %s (then: %s) does not complete (rc %d, once more rc %d): %s' % (
                    ' '.join(self.opts[2:]), (kind, k, mode), variant, rs.rc, rs2.rc, (rs.err or rs.out)[-300:]), rep)
                return
            rs2 = a.run('sync')
            st = a.content()
            perr, _ = a.check_parity(st)
            left = all_synced(a, st)
            rc_ = a.run('check')
            d = data_equal(want, a.snapshot_data())
            if rs2.rc != 0 or perr or left or rc_.rc != 0 or d:
                chk.violation('rehash_resume', 'rehash in progress: after the resumed sync (kill at %s, then: %s): second sync rc %d, unsynced stripes %s, parity errors %s, check rc %d, data differences %s' % (
                    (kind, k, mode), variant, rs2.rc, left, perr[:2], rc_.rc, d[:2]), rep)
                return
            # C01 on the file the interrupted sync was adding
            exp = open(a.path('d1', 'b'), 'rb').read()
            os.unlink(a.path('d1', 'b'))
            rf = a.run('fix')
            p = a.path('d1', 'b')
            if rf.rc != 0 or not os.path.isfile(p) or open(p, 'rb').read() != exp:
                chk.violation('rehash_resume', 'rehash in progress: after the resumed sync (kill at %s, then: %s) d1:b is not recoverable (fix rc %d)' % ((kind, k, mode), variant, rf.rc), rep)
                return
            self.stats['passed'] += 1
        finally:
            drop(a)


class SyncKill:
    """one configuration: scenario, np, io_cache, number of content copies, autosave position"""

    def __init__(self, chk, scn, cache, autosave_at=0, model=None, full_c01=False, extra=()):
        self.chk, self.scn, self.cache, self.autosave_at, self.model, self.full_c01 = chk, scn, cache, autosave_at, model, full_c01
        self.force = ['--force-empty'] if scn.name == 'wipe' else []       # every file of a disk removed: sync refuses without -E
        self.opts = ['--test-io-cache', str(cache)] + (['--test-force-autosave-at', str(autosave_at)] if autosave_at else []) + self.force + list(extra)
        self.extra = list(extra)
        self.adds_only = scn.name in ('adds', 'adds3', 'addsfit', 'fresh')
        self.synced_before = [(op[1], op[2]) for ph in scn.pre for op in ph if op[0] == 'write'] if self.adds_only else []
        self.stats = {'kills': 0, 'content_loads': 0, 'kill_inv_stripes': 0, 'resumed': 0, 'c01_recoveries': 0, 'adds_recoveries': 0,
                      'torn_write_np1_unrecoverable': 0, 'reduced_hash_np1_unrecoverable': 0, 'torn_total': 0, 'autosave_race_hits': 0}
        self.desc = dict(scn.describe(), io_cache=cache, autosave_at=autosave_at, options=list(extra))
        self.reference()

    def reference(self):
        a = self.scn.build()
        log = os.path.join(a.root, 'ref.log')
        self.pre_snap = a.snapshot_data()
        r = a.run('sync', *self.opts, shim_env={'VSHIM_LOG': log})
        if r.rc != 0:
            raise RuntimeError('reference sync failed: %r' % r)
        self.calls = shim_log(log)
        self.ncalls = len(self.calls)
        self.root_ref = a.root
        if a.snapshot_data() != self.pre_snap:
            self.chk.violation('data_modified', 'an uninterrupted sync modified the data disks', self.desc)
        drop(a)

    def points(self, autosave_window=False):
        """every numbered call x {before, after, short}.  autosave_window: only the calls of the autosave sequence (io_stop has no
        system call of its own: 'before' the first parity fsync = right after io_stop and its last parity writes; parity fsyncs;
        the content save; 'after' the rename = before io_start; the first parity writes after the restart) and a few around"""
        lo, hi = 1, len(self.calls)
        if autosave_window:
            fs_ = [n for (n, call, path, rest) in self.calls if call == 'fsync' and path.endswith('.parity')]
            ren = [n for (n, call, path, rest) in self.calls if call == 'rename' and 'snapraid.content' in path]
            ncp = max(1, self.scn.ncontent)
            if fs_ and len(ren) > ncp:
                lo, hi = min(fs_) - 2 * self.scn.np - 1, ren[2 * ncp - 1] + 2 * self.scn.np + 1
        pts = []
        for (n, call, path, rest) in self.calls:
            if not (lo <= n <= hi):
                continue
            pts.append((n, 'before'))
            pts.append((n, 'after'))
            if call in WRITE_CALLS:
                pts.append((n, 'short'))
        return pts

    def trunc_window(self, k, mode):
        """is the kill between the (possible) shrinking of the parity and the last rename of the save that follows it?"""
        shrink = [n for (n, call, path, rest) in self.calls if call == 'ftruncate' and path.endswith('.parity')]
        ren = [n for (n, call, path, rest) in self.calls if call == 'rename' and 'snapraid.content' in path]
        if not shrink or not ren:
            return False
        done = k if mode == 'after' else k - 1
        first_save = ren[:max(1, self.scn.ncontent)]
        return min(shrink) <= done < max(first_save)

    # ---------------------------------------------------------------------------------------------- one kill
    def kill_case(self, pt):
        k, mode = pt
        chk = self.chk
        if len(chk.violations) > 8:
            return
        a = self.scn.build()
        rep = dict(self.desc, kill='%d:%s' % (k, mode), call=' '.join(map(str, self.calls[k - 1][1:3])).replace(self.root_ref, ''))
        try:
            klog = os.path.join(a.root, 'kill.log')
            r = a.run('sync', *self.opts, shim_env={'VSHIM_KILL': '%d:%s' % (k, mode) if mode != 'before' else str(k), 'VSHIM_LOG': klog})
            self.stats['kills'] += 1
            killed = r.rc in (-9, 137)
            if not killed:
                # the run was not killed (the numbering of this run ended earlier): judged as an uninterrupted run
                if r.rc != 0:
                    chk.violation('kill_rc', 'sync with VSHIM_KILL=%d:%s neither killed nor successful (rc %d): %s' % (k, mode, r.rc, r.err[-200:]), rep)
                return
            torn = mode == 'short' and '.parity' in self.calls[k - 1][2]
            # 1. no data file modified
            d = data_equal(self.pre_snap, a.snapshot_data())
            if d:
                chk.violation('data_modified', 'sync killed at call %d (%s): data files modified: %s' % (k, mode, d[:3]), rep)
            # 2. some content copy is valid, and every command loads one
            vc = valid_contents(a)
            had_content = any(os.path.exists(c) for c in a.content_files)
            if had_content and not vc:
                chk.violation('no_content', 'sync killed at call %d (%s): no content copy decodes' % (k, mode), rep)
            for cmd in (('status',), ('diff',), ('check', '-a')):
                if not had_content:
                    break           # first sync ever, killed before its first save completed: there is nothing to load yet
                rc_ = a.run(*cmd)
                self.stats['content_loads'] += 1
                if not loads_ok(rc_):
                    chk.violation('load', 'after a sync killed at call %d (%s) `%s` cannot load the content (rc %d): %s' % (k, mode, ' '.join(cmd), rc_.rc, (rc_.err or rc_.out)[-200:]), rep)
            # 3. kill_inv: every copy that decodes satisfies the C06 invariant with the parity on disk
            for i, st in vc:
                errs = a.check_map(st)
                perr, n = a.check_parity(st)
                self.stats['kill_inv_stripes'] += n
                for e in (errs + perr)[:2]:
                    what = 'sync killed at call %d (%s): content copy %d records a stripe as synced whose parity is not valid: %s' % (k, mode, i, e)
                    if 'parity file too small' in e and self.trunc_window(k, mode):
                        # the open finding: the parity is shrunk before the content that records the deletion is saved
                        chk.violation('kill_inv_trunc', what, rep, finding_key=KEY_TRUNC)
                        continue
                    if self.autosave_at:
                        # F-C07-autosave-writers-not-drained was repaired in /repo (6a618a2: io_stop before the autosave): plain violation
                        self.stats['autosave_race_hits'] += 1
                        what = 'REGRESSION of F-C07-autosave-writers-not-drained? (autosave at %d, io_cache %d) ' % (self.autosave_at, self.cache) + what
                    chk.violation('kill_inv', what, rep)
            # 4. adds only: every file synced before stays recoverable from any single lost device
            if self.adds_only and self.synced_before:
                devs = [('d', dname) for dname in a.disks] + [('p', l) for l in range(a.np)]
                if not self.full_c01 and self.scn.name != 'adds3':
                    devs = [devs[(k + j) % len(devs)] for j in range(2)]     # adds3: every single device in turn, always
                for dev in devs:
                    bad = self.recover_before(a, dev)
                    self.stats['adds_recoveries'] += 1
                    if torn:
                        self.stats['torn_total'] += 1
                    if bad:
                        # reduced hash: the open finding needs ONE usable parity level for the stripe: one level and a clean kill, or two
                        # levels and a kill inside a parity pwrite (the torn block costs the other level)
                        # In general: the lost block plus the m just-added blocks of the other disks in its stripe (their 'was empty' marker
                        # is not seen) are 1 + m unknowns; fix needs as many usable parity levels (a torn parity pwrite costs one)
                        m_adds = len({op[1] for op in self.scn.pend if op[0] == 'write'} - {dev[1]})
                        usable = a.np - (1 if (torn and 'parity' in rep.get('call', '')) else 0)
                        redhash = (self.scn.hashsize or 16) < 16 and dev[0] == 'd' and (not torn or 'parity' in rep.get('call', '')) and usable < 1 + m_adds
                        if torn and a.np == 1:
                            self.stats['torn_write_np1_unrecoverable'] += 1     # Q-C07: measured, not a violation
                        else:
                            if redhash:
                                # reduced hash size: hash_is_zero() is constant 0 (elem.h), the "block was empty" marker of CHG blocks is
                                # not seen by fix (open finding, same root as F-C05d-reduced-hash-markers-ignored of C05)
                                self.stats['reduced_hash_np1_unrecoverable'] += 1
                            # with -h the additions are REP blocks (hash of the new data) instead of CHG/ZERO: the open finding
                            chk.violation('adds_only', 'sync %s(additions only) killed at call %d (%s): after losing %s, fix does not restore the previously synced %s' % (
                                ' '.join(self.extra) + ' ' if self.extra else '', k, mode, dev, bad[:2]), rep, finding_key=KEY_REDHASH if redhash else ((KEY_PREHASH if '-h' in self.extra else None) if (dev[0] == 'd' and not torn and a.np == 1) else None))
            # 5. the next sync completes and re-establishes the guarantee
            rs = a.run('sync', *self.force)
            if rs.rc != 0:
                chk.violation('resume', 'sync after a sync killed at call %d (%s) fails (rc %d): %s' % (k, mode, rs.rc, rs.err[-300:]), rep)
                return
            self.stats['resumed'] += 1
            st = a.content()
            left = all_synced(a, st)
            perr, _ = a.check_parity(st)
            if left or perr:
                chk.violation('resume_state', 'sync after a sync killed at call %d (%s) leaves stripes %s unsynced, parity errors %s' % (k, mode, left, perr[:2]), rep)
            d = data_equal(self.pre_snap, a.snapshot_data())
            if d:
                chk.violation('data_modified', 'the resumed sync modified data files: %s' % d[:3], rep)
            if self.force:
                rck = a.run('check')
                if rck.rc != 0:
                    chk.violation('resume_check', 'after kill at call %d (%s) and a completed `sync -E`, `check` reports errors (rc %d): %s' % (k, mode, rck.rc, rck.summary()), rep)
            final = a.snapshot_data()
            disks = a.disks if (self.full_c01 or self.force) else [a.disks[k % a.nd]]
            for dname in disks:
                b = clone(a)
                try:
                    lose(b, ('d', dname))
                    rf = b.run('fix', '-d', dname)
                    self.stats['c01_recoveries'] += 1
                    got = {kk: v for kk, v in b.snapshot_data().items() if kk[0] == dname}
                    exp = {kk: v for kk, v in final.items() if kk[0] == dname}
                    dd = data_equal(exp, got)
                    if rf.rc != 0 or dd:
                        chk.violation('c01', 'after kill at call %d (%s) and a completed sync, losing %s is not recovered by fix (rc %d): %s' % (k, mode, dname, rf.rc, dd[:3]), rep)
                finally:
                    drop(b)
        finally:
            drop(a)

    def partial_case(self, n):
        """`sync -B n` (a partial run: the content is saved after n stripes), then sync to completion: the same guarantees as after a
        kill (independent parity check, `check`, recovery of every disk)"""
        chk = self.chk
        if len(chk.violations) > 8:
            return
        a = self.scn.build()
        rep = dict(self.desc, partial='-B %d' % n)
        try:
            r = a.run('sync', '-B', str(n), *self.opts)
            self.stats['kills'] += 1
            for i, st in valid_contents(a):
                perr, cnt = a.check_parity(st)
                self.stats['kill_inv_stripes'] += cnt
                for e in (a.check_map(st) + perr)[:2]:
                    chk.violation('partial_inv', 'after `sync -B %d`: content copy %d records a stripe as synced whose parity is not valid: %s' % (n, i, e), rep)
            if data_equal(self.pre_snap, a.snapshot_data()):
                chk.violation('data_modified', '`sync -B %d` modified data files' % n, rep)
            rs = a.run('sync', *self.force)
            st = a.content()
            left = all_synced(a, st)
            perr, _ = a.check_parity(st)
            rck = a.run('check')
            if rs.rc != 0 or left or perr or rck.rc != 0:
                chk.violation('partial_resume', '`sync -B %d` then `sync`: rc %d, unsynced %s, parity errors %s, check rc %d %s' % (n, rs.rc, left, perr[:2], rck.rc, rck.summary()), rep)
                return
            self.stats['resumed'] += 1
            final = a.snapshot_data()
            for dname in a.disks:
                b = clone(a)
                try:
                    lose(b, ('d', dname))
                    rf = b.run('fix', '-d', dname)
                    self.stats['c01_recoveries'] += 1
                    got = {kk: v for kk, v in b.snapshot_data().items() if kk[0] == dname}
                    exp = {kk: v for kk, v in final.items() if kk[0] == dname}
                    dd = data_equal(exp, got)
                    if rf.rc != 0 or dd:
                        chk.violation('partial_c01', '`sync -B %d`, `sync`, then losing %s: not recovered by fix (rc %d): %s' % (n, dname, rf.rc, dd[:3]), rep)
                finally:
                    drop(b)
        finally:
            drop(a)

    def recover_before(self, a, dev):
        """lose one device in a copy, fix, return the list of previously synced files not restored byte-exact"""
        b = clone(a)
        try:
            lose(b, dev)
            if dev[0] == 'd':
                b.run('fix', '-d', dev[1])
            else:
                b.run('fix')
            bad = []
            for (dname, sub) in self.synced_before:
                p = b.path(dname, sub)
                exp = a.store[(dname, sub)][0][0]
                if not os.path.isfile(p) or open(p, 'rb').read() != exp:
                    bad.append('%s:%s' % (dname, sub))
            return bad
        finally:
            drop(b)

    # ---------------------------------------------------------------------------------------------- model trace
    def trace_check(self, st1):
        """the numbered calls of the reference run against the model's effect trace (coarse trace inclusion)"""
        if not self.model:
            return 0
        chk = self.chk
        a = self.scn.build()
        try:
            len_before = [len(a.parity_bytes(l)) // a.bs for l in range(a.np)]
            post_scan(a, extra=self.force)
            st1 = a.content()
            br = Bridge(a)
            br.learn_hashes(st1)
            npos = max([len(a.parity_bytes(l)) // a.bs for l in range(a.np)] + [0])
            br.parity = [[['J%d' % (p + 1)] for p in range(npos)] for l in range(a.np)]
            req = ['trace', '0', '0', '100', '7', str(a.bs), str(a.np), '-1', '0', str(st1['blockmax']), 'A', str(self.autosave_at)] + \
                br.ser_hashes() + br.ser_content(st1) + br.ser_parity() + br.ser_fs() + ['Q', '0']
            out = run_lines(self.model, [' '.join(req)], shards=1)[0].split()
        finally:
            drop(a)
        if out[:1] != ['ok']:
            chk.violation('model_error', 'trace model failed: %s' % ' '.join(out)[:200], {'request': ' '.join(req)[:3000]}, no_input=True)
            return 0
        mev = out[1:]          # R<len> S W<pos> F D
        # the real run, abstracted: groups of calls
        real = []
        for (n, call, path, rest) in self.calls:
            base = os.path.basename(path)
            if base.endswith('.parity'):
                lev = int(base[3])
                if call in ('fallocate', 'ftruncate', 'posix_fallocate'):
                    ev = ('R',)
                elif call == 'pwrite':
                    ev = ('W', lev, int(rest.split('off=')[1].split()[0]) // BS)
                elif call == 'fsync':
                    ev = ('F',)
                else:
                    continue
            elif 'snapraid.content' in base and not base.endswith('.lock'):
                ev = ('S',)
            else:
                continue
            if ev[0] != 'W' and real and real[-1] == ev:
                continue
            real.append(ev)
        # a resize to the size the parity files already have issues no system call
        main_model = [e[0] for e in mev if e[0] in 'RSF' and not (e[0] == 'R' and all(x == int(e[1:]) for x in len_before))]
        # consecutive duplicates collapse in the real abstraction (several calls per event)
        mm = []
        for e in main_model:
            if not mm or mm[-1] != e:
                mm.append(e)
        main_real = []
        for e in real:
            if e[0] != 'W' and (not main_real or main_real[-1] != e[0]):
                main_real.append(e[0])      # writer threads interleave with the calls of one main-thread event
        problems = []
        if mm != main_real:
            problems.append('main-thread events differ: model %s real %s' % (''.join(mm), ''.join(main_real)))
        sched = [int(e[1:]) for e in mev if e[0] == 'W']
        for l in range(self.scn.np):
            wl = [e[2] for e in real if e[0] == 'W' and e[1] == l]
            if wl != sched:
                problems.append('level %d writes %s, model schedule %s' % (l, wl, sched))
        # every write lies between the first save and the final save; in single-thread mode before the autosave that follows it
        idx_s = [i for i, e in enumerate(real) if e[0] == 'S']
        idx_w = [i for i, e in enumerate(real) if e[0] == 'W']
        if idx_w and idx_s and not (idx_s[0] < min(idx_w) and max(idx_w) < idx_s[-1]):
            problems.append('a parity write lies outside [first save, final save]')
        for p in problems:
            chk.violation('drift_trace', 'MODEL-DRIFT: effect trace of the sync model vs numbered system calls (%s): %s' % (self.desc, p),
                          {'model': mev, 'real': [list(map(str, e)) for e in real]}, no_input=True)
        return 0 if problems else 1


# -------------------------------------------------------------------------------------------------- graceful stop
def signal_case(chk, scn, slow, cache, k, sig, model, stats, extra=()):
    a = scn.build()
    rep = dict(scn.describe(), io_cache=cache, signal=int(sig), at_write=k)
    try:
        pre = a.snapshot_data()
        prog = os.path.join(a.root, 'progress')
        env = dict(os.environ)
        env.update({'LD_PRELOAD': slow, 'C07_SLOW_MS': '30', 'C07_SLOW_PROGRESS': prog, 'C07_SLOW_SUBSTR': 'par0_'})
        force = ['--force-empty'] if scn.name == 'wipe' else []
        args = [a.bin] + BASE_OPTS + ['-c', a.conf, '-l', os.path.join(a.root, 'sig.log'), 'sync', '--test-io-cache', str(cache)] + force + list(extra)
        p = subprocess.Popen(args, stdout=subprocess.PIPE, stderr=subprocess.PIPE, env=env, cwd=a.root)
        t0 = time.time()
        while p.poll() is None and time.time() - t0 < 30:
            n = open(prog).read().count('\n') if os.path.exists(prog) else 0
            if n >= k:
                break
            time.sleep(0.002)
        if p.poll() is None:
            p.send_signal(sig)
        try:
            out, err = p.communicate(timeout=60)
        except subprocess.TimeoutExpired:
            p.kill()
            chk.violation('signal_hang', 'sync does not exit after signal %d at stripe write %d' % (sig, k), rep)
            return
        stats['signals'] += 1
        err = err.decode('latin1')
        stopped = 'Stopping for interruption' in err
        if stopped:
            stats['stopped_early'] += 1
        d = data_equal(pre, a.snapshot_data())
        if d:
            chk.violation('data_modified', 'sync stopped by signal %d: data files modified: %s' % (sig, d[:3]), rep)
        vc = valid_contents(a)
        if len(vc) != len(a.content_files):
            chk.violation('signal_content', 'sync stopped by signal %d at stripe write %d: %d of %d content copies decode' % (sig, k, len(vc), len(a.content_files)), rep)
            return
        for cmd in (('status',), ('diff',)):
            r = a.run(*cmd)
            if not loads_ok(r):
                chk.violation('load', 'after a graceful stop `%s` cannot load the content: %s' % (cmd[0], r.err[-200:]), rep)
        st = vc[0][1]
        perr, n = a.check_parity(st)
        errs = a.check_map(st)
        for e in (errs + perr)[:2]:
            chk.violation('signal_inv', 'sync stopped by signal %d at stripe write %d: %s' % (sig, k, e), rep)
        stats['stripes_checked'] += n
        # the graceful stop in single-thread mode against the model's `stop`
        view = stripe_view(a, st)
        # adds only: the files synced before are recoverable from up to np lost devices
        synced_before = [(op[1], op[2]) for ph in scn.pre for op in ph if op[0] == 'write']
        if scn.name in ('adds', 'adds3', 'addsfit', 'fresh') and synced_before:
            devs = [('d', dn) for dn in a.disks] + [('p', l) for l in range(a.np)]
            start = (k * 7 + int(sig)) % len(devs)
            lost = [devs[(start + j) % len(devs)] for j in range(a.np)]
            b = clone(a)
            try:
                for dev in lost:
                    lose(b, dev)
                b.run('fix')
                bad = []
                for (dn, sub) in synced_before:
                    pth = b.path(dn, sub)
                    if not os.path.isfile(pth) or open(pth, 'rb').read() != a.store[(dn, sub)][0][0]:
                        bad.append('%s:%s' % (dn, sub))
                stats['multi_recoveries'] += 1
                if bad:
                    chk.violation('signal_adds', 'graceful stop (signal %d, stripe write %d): after losing %s fix does not restore the previously synced %s' % (sig, k, lost, bad[:3]), rep)
            finally:
                drop(b)
        rs = a.run('sync', *force)
        st2 = a.content()
        left = all_synced(a, st2)
        perr, _ = a.check_parity(st2)
        if force and rs.rc == 0 and a.run('check').rc != 0:
            chk.violation('signal_check', 'graceful stop of `sync -E` (signal %d at stripe write %d), `sync -E` again, then `check` reports errors' % (sig, k), rep)
        if rs.rc != 0 or left or perr:
            chk.violation('signal_resume', 'sync after a graceful stop fails or is incomplete (rc %d, unsynced %s, parity %s)' % (rs.rc, left, perr[:2]), rep)
    finally:
        drop(a)


# -------------------------------------------------------------------------------------------------- fix killed and re-run
class FixKill:
    def __init__(self, chk, binary, shim, np_=2, slow=None):
        self.chk, self.binary, self.shim, self.np, self.slow = chk, binary, shim, np_, slow
        self.stats = {'kills': 0, 'same_result': 0, 'mtime_only_diffs': 0}
        a = self.build()
        self.good = a.snapshot_data()
        self.damage(a)
        log = os.path.join(a.root, 'ref.log')
        r = a.run('fix', shim_env={'VSHIM_LOG': log})
        self.calls = shim_log(log)
        self.ref_rc = r.rc
        self.ref = a.snapshot_data()
        dd = data_equal(self.good, self.ref)
        if r.rc != 0 or dd:
            chk.violation('fix_ref', 'uninterrupted fix does not restore the array (rc %d): %s' % (r.rc, dd[:3]), {'np': np_})
        self.root_ref = a.root
        drop(a)

    def build(self):
        a = Array(self.binary, nd=3, np_=self.np, shim=self.shim)
        t = T0
        a.write('d1', 'a', det_bytes('fx/a', 3 * BS + 17), mtime_ns=t + 1111)
        a.write('d1', 'dir/b', det_bytes('fx/b', 2 * BS), mtime_ns=t + 2222)
        a.write('d1', 'dir/sub/c', det_bytes('fx/c', 5), mtime_ns=t + 3333)
        a.write('d1', 'empty', b'', mtime_ns=t + 4444)
        os.makedirs(a.path('d1', 'hollow/dir'))
        os.symlink('dir/b', a.path('d1', 'lnk'))
        os.link(a.path('d1', 'a'), a.path('d1', 'hard'))
        a.write('d2', 'x', det_bytes('fx/x', 4 * BS), mtime_ns=t + 5555)
        a.write('d2', 'y', det_bytes('fx/y', BS + 1), mtime_ns=t + 6666)
        a.write('d3', 'z', det_bytes('fx/z', 2 * BS + 100), mtime_ns=t + 7777)
        r = a.run('sync')
        if r.rc != 0:
            raise RuntimeError('fix scenario: sync failed %r' % r)
        return a

    def damage(self, a):
        shutil.rmtree(os.path.join(a.root, 'd1'))
        os.makedirs(os.path.join(a.root, 'd1'))
        # a file of another disk that grew since the sync (same time stamp): fix cuts it back to the recorded size (handle_truncate)
        p = a.path('d3', 'z')
        st = os.stat(p)
        with open(p, 'ab') as f:
            f.write(b'\x77' * 700)
        os.utime(p, ns=(st.st_mtime_ns, st.st_mtime_ns))
        if self.np < 2:
            return          # one parity level: the lost disk alone uses up the redundancy
        # a damaged block in the middle of d2/x, same size and mtime (silent error)
        p = a.path('d2', 'x')
        st = os.stat(p)
        b = bytearray(open(p, 'rb').read())
        b[BS + 10:BS + 20] = b'\xAA' * 10
        open(p, 'wb').write(bytes(b))
        os.utime(p, ns=(st.st_mtime_ns, st.st_mtime_ns))

    def points(self):
        pts = []
        for (n, call, path, rest) in self.calls:
            pts.append((n, 'before'))
            pts.append((n, 'after'))
            if call in WRITE_CALLS:
                pts.append((n, 'short'))
        return pts

    def graceful_case(self, how):
        """the fix is stopped gracefully -- a partial run (`-B n`, `-S s -B n`) or a signal at one of its data writes -- : files it
        created and did not finish are removed (check.c), nothing else may be lost; an uninterrupted fix then ends as the
        reference.  how = ('B', s, n) | ('sig', k, signal)"""
        chk = self.chk
        if len(chk.violations) > 8:
            return
        a = self.build()
        rep = {'fix_graceful': list(map(str, how)), 'np': self.np}
        try:
            self.damage(a)
            before = {k for k, v in a.snapshot_data().items() if v[0] == 'f'}
            if how[0] == 'B':
                opts = (['-S', str(how[1])] if how[1] else []) + ['-B', str(how[2])]
                a.run('fix', *opts)
                what = '`fix %s`' % ' '.join(opts)
            else:
                prog = os.path.join(a.root, 'progress')
                env = dict(os.environ)
                env.update({'LD_PRELOAD': self.slow, 'C07_SLOW_MS': '25', 'C07_SLOW_PROGRESS': prog, 'C07_SLOW_SUBSTR': os.path.join(a.root, 'd')})
                p = subprocess.Popen([a.bin] + BASE_OPTS + ['-c', a.conf, 'fix'], stdout=subprocess.PIPE, stderr=subprocess.PIPE, env=env, cwd=a.root)
                t0 = time.time()
                while p.poll() is None and time.time() - t0 < 30:
                    if (open(prog).read().count('\n') if os.path.exists(prog) else 0) >= how[1]:
                        break
                    time.sleep(0.002)
                if p.poll() is None:
                    p.send_signal(how[2])
                try:
                    p.communicate(timeout=60)
                except subprocess.TimeoutExpired:
                    p.kill()
                    chk.violation('fix_signal_hang', 'fix does not exit after signal %d' % how[2], rep)
                    return
                what = 'fix stopped by signal %d at its data write %d' % (how[2], how[1])
            self.stats['graceful'] = self.stats.get('graceful', 0) + 1
            mid = {k for k, v in a.snapshot_data().items() if v[0] == 'f'}
            gone = {k for k in before if k not in mid and (k[0], k[1] + '.unrecoverable') not in mid}
            if gone:
                chk.violation('fix_graceful_lost', '%s: files present before it disappeared: %s' % (what, sorted(gone)), rep)
            r2 = a.run('fix')
            # the files rewritten in place (d2/x repaired, d3/z cut back) may keep the time of the stopped run: the property's exception
            dd = data_equal(self.ref, a.snapshot_data(), ignore_mtime_of={('d2', 'x'), ('d3', 'z')})
            if r2.rc != self.ref_rc or dd:
                chk.violation('fix_graceful_resume', '%s then fix again (rc %d) differs from an uninterrupted fix: %s' % (what, r2.rc, dd[:3]), rep)
            else:
                self.stats['same_result'] += 1
        finally:
            drop(a)

    def kill_case(self, pt):
        k, mode = pt
        chk = self.chk
        if len(chk.violations) > 8:
            return
        a = self.build()
        rep = {'fix_kill': '%d:%s' % (k, mode), 'np': self.np, 'call': ' '.join(map(str, self.calls[k - 1][1:3])).replace(self.root_ref, '')}
        try:
            self.damage(a)
            klog = os.path.join(a.root, 'kill.log')
            r = a.run('fix', shim_env={'VSHIM_KILL': '%d:%s' % (k, mode) if mode != 'before' else str(k), 'VSHIM_LOG': klog})
            self.stats['kills'] += 1
            if r.rc not in (-9, 137):
                if r.rc != self.ref_rc:
                    chk.violation('fix_rc', 'fix with VSHIM_KILL=%d:%s neither killed nor equal to the reference (rc %d)' % (k, mode, r.rc), rep)
                return
            # the files whose rewrite was cut short: written (or created) by the killed fix and not yet given their time back
            kl = shim_log(klog)
            open_files = {}
            for (n, call, path, rest) in kl:
                rel = path.replace(a.root + '/', '')
                parts = rel.split('/', 1)
                if len(parts) != 2 or parts[0] not in a.disks:
                    continue
                key = (parts[0], parts[1].replace('.unrecoverable', ''))
                if call in ('pwrite', 'open', 'ftruncate'):
                    open_files[key] = True
                elif call in ('futimens', 'utimensat') and 'KILL-BEFORE' not in rest:
                    open_files.pop(key, None)
            r2 = a.run('fix')
            got = a.snapshot_data()
            ignore = set(open_files)
            inodes = {got[kk][3] for kk in ignore if kk in got and got[kk][0] == 'f'}
            for kk, v in got.items():
                if v[0] == 'f' and v[3] in inodes:
                    ignore.add(kk)          # hard links of a cut-short file share its time
            dd = data_equal(self.ref, got, ignore_mtime_of=ignore)
            dd_strict = data_equal(self.ref, got)
            if r2.rc != self.ref_rc or dd:
                chk.violation('fix_resume', 'fix killed at call %d (%s: %s) then re-run (rc %d) differs from an uninterrupted fix: %s' % (k, mode, rep['call'], r2.rc, dd[:3]), rep)
            else:
                self.stats['same_result'] += 1
                if dd_strict:
                    self.stats['mtime_only_diffs'] += 1
        finally:
            drop(a)


class FixLeftovers:
    """*.unrecoverable files left by an earlier fix (more damage than redundancy), then a SECOND fix that is stopped gracefully
    before the end -- a partial run `fix -B n` / `fix -S s -B n`, or SIGINT/SIGTERM at a data write -- then an uninterrupted fix:
    the final tree must equal the one of an uninterrupted second fix, and no user file (under its name or its .unrecoverable name)
    may disappear at any moment."""

    def __init__(self, chk, binary, shim, slow):
        self.chk, self.binary, self.shim, self.slow = chk, binary, shim, slow
        self.stats = {'partial_runs': 0, 'signals': 0, 'same_result': 0}
        a = self.build()
        self.before = self.listing(a)
        if not any(k[1].endswith('.unrecoverable') for k in self.before):
            raise RuntimeError('the first fix left no .unrecoverable file: %s' % sorted(self.before))
        r = a.run('fix')
        self.ref_rc = r.rc
        self.ref = self.listing(a)
        st = a.content()
        self.blockmax = st['blockmax']
        drop(a)

    def build(self):
        a = Array(self.binary, nd=2, np_=1, ncontent=2, shim=self.shim)
        a.write('d1', 'F', det_bytes('fl/F', 8 * BS), mtime_ns=T0 + 11)
        a.write('d1', 'K', det_bytes('fl/K', 2 * BS + 7), mtime_ns=T0 + 12)
        a.write('d2', 'G', det_bytes('fl/G', 8 * BS), mtime_ns=T0 + 13)
        if a.run('sync').rc != 0:
            raise RuntimeError('fix leftovers: sync failed')
        # block 2 of F damaged and G lost: stripe 2 has two failures for one parity
        p = a.path('d1', 'F')
        b = bytearray(open(p, 'rb').read())
        b[2 * BS:3 * BS] = det_bytes('fl/damage', BS)
        open(p, 'wb').write(bytes(b))
        os.unlink(a.path('d2', 'G'))
        a.run('fix')
        return a

    @staticmethod
    def listing(a):
        return {k: v[1] for k, v in a.snapshot_data().items() if v[0] == 'f'}

    @staticmethod
    def users(lst):
        return {(d, n[:-len('.unrecoverable')] if n.endswith('.unrecoverable') else n) for (d, n) in lst}

    def finish(self, a, what, rep):
        chk = self.chk
        mid = self.listing(a)
        gone = self.users(self.before) - self.users(mid)
        if gone:
            chk.violation('fix_leftover_lost', '%s over .unrecoverable leftovers: the user files %s disappeared' % (what, sorted(gone)), rep)
        r2 = a.run('fix')
        got = self.listing(a)
        diffs = [k for k in sorted(set(got) | set(self.ref)) if got.get(k) != self.ref.get(k)]
        if diffs or r2.rc != self.ref_rc:
            chk.violation('fix_leftover_resume', '%s over .unrecoverable leftovers, then fix again (rc %d): differs from an uninterrupted fix at %s' % (what, r2.rc, diffs[:4]), rep)
        elif not gone:
            self.stats['same_result'] += 1

    def partial_case(self, sb):
        s, n = sb
        if len(self.chk.violations) > 8:
            return
        a = self.build()
        try:
            opts = (['-S', str(s)] if s else []) + ['-B', str(n)]
            a.run('fix', *opts)
            self.stats['partial_runs'] += 1
            self.finish(a, '`fix %s`' % ' '.join(opts), {'fix_partial': opts})
        finally:
            drop(a)

    def signal_case(self, ks):
        k, sig = ks
        if len(self.chk.violations) > 8:
            return
        a = self.build()
        try:
            prog = os.path.join(a.root, 'progress')
            env = dict(os.environ)
            env.update({'LD_PRELOAD': self.slow, 'C07_SLOW_MS': '30', 'C07_SLOW_PROGRESS': prog, 'C07_SLOW_SUBSTR': os.path.join(a.root, 'd')})
            args = [a.bin] + BASE_OPTS + ['-c', a.conf, 'fix']
            p = subprocess.Popen(args, stdout=subprocess.PIPE, stderr=subprocess.PIPE, env=env, cwd=a.root)
            t0 = time.time()
            while p.poll() is None and time.time() - t0 < 30:
                if (open(prog).read().count('\n') if os.path.exists(prog) else 0) >= k:
                    break
                time.sleep(0.002)
            if p.poll() is None:
                p.send_signal(sig)
            try:
                out, err = p.communicate(timeout=60)
            except subprocess.TimeoutExpired:
                p.kill()
                self.chk.violation('fix_signal_hang', 'fix does not exit after signal %d' % sig, {'k': k})
                return
            self.stats['signals'] += 1
            self.finish(a, 'fix stopped by signal %d at its data write %d%s' % (sig, k, '' if b'Stopping' in err else ' (finished before)'), {'fix_signal': [k, int(sig)]})
        finally:
            drop(a)


def unrecoverable_rerun_probe(binary, shim):
    """measured, not judged: with more damage than redundancy (one parity, a lost disk AND a silent error in the same stripe) an
    uninterrupted fix leaves *.unrecoverable files; what do further fix runs do?"""
    F = FixKill.__new__(FixKill)
    F.binary, F.shim, F.np = binary, shim, 1
    a = F.build()
    try:
        F.np = 2
        F.damage(a)
        res = []
        for i in range(3):
            r = a.run('fix')
            names = sorted('%s/%s' % k for k, v in a.snapshot_data().items() if v[0] == 'f')
            res.append({'run': i + 1, 'rc': r.rc, 'exit': r.summary().get('exit'), 'unrecoverable_files': [n for n in names if n.endswith('.unrecoverable')],
                        'message': [l for l in r.err.split('\n') if 'disappeared' in l or 'rerun' in l][:2]})
        return res
    finally:
        drop(a)


class ReaddHistory:
    """a file is deleted; the sync that removes it from the parity is killed (at every call, and with --test-kill-after-sync: parity
    updated, final content not saved); a file with IDENTICAL content is put back (it takes the same positions); sync again.  The
    past hashes of an interrupted sync must not be trusted (state.c clear_past_hash): the resumed sync has to rewrite the parity, and
    afterwards the independent parity check and the recovery of a lost disk must pass."""

    def __init__(self, chk, binary, shim, nd=2, np_=1, cache=3):
        self.chk, self.binary, self.shim, self.nd, self.np, self.cache = chk, binary, shim, nd, np_, cache
        self.stats = {'histories': 0, 'passed': 0}
        a = self.build()
        log = os.path.join(a.root, 'ref.log')
        a.remove('d%d' % nd, 'b')
        r = a.run('sync', '--test-io-cache', str(cache), shim_env={'VSHIM_LOG': log})
        self.calls = shim_log(log)
        drop(a)

    def build(self):
        a = Array(self.binary, nd=self.nd, np_=self.np, shim=self.shim)
        for i, d in enumerate(a.disks):
            a.write(d, 'a', det_bytes('rh/%s/a' % d, 3 * BS + 11 * i), mtime_ns=T0 + 1000 + i)
            a.write(d, 'b', det_bytes('rh/%s/b' % d, 4 * BS - 3 * i), mtime_ns=T0 + 2000 + i)
        r = a.run('sync')
        if r.rc != 0:
            raise RuntimeError('readd history: clean sync failed %r' % r)
        return a

    def points(self):
        pts = [('kill-after-sync', None, 'new')] + [(n, m, 'new') for (n, call, path, rest) in self.calls for m in ('before', 'after')]
        # the file restored with its old time stamp (cp -p from a backup): the scan sees no change at all
        pts += [('kill-after-sync', None, 'same')] + [(n, 'after', 'same') for (n, call, path, rest) in self.calls]
        return pts

    def window(self, pt):
        """is the kill point between the shrinking of the parity and the rename of the content that records the deletion?
        (then the surviving content still records the deleted file's stripes as synced over a parity that is gone)"""
        if pt[0] == 'kill-after-sync':
            return False
        shrink = [n for (n, call, path, rest) in self.calls if call == 'ftruncate' and path.endswith('.parity')]
        ren = [n for (n, call, path, rest) in self.calls if call == 'rename' and 'snapraid.content' in path]
        if not shrink or not ren:
            return False
        k = pt[0] if pt[1] == 'after' else pt[0] - 1          # last call completed
        return min(shrink) <= k < min(ren)

    def case(self, pt):
        chk = self.chk
        if len(chk.violations) > 8:
            return
        a = self.build()
        dl = 'd%d' % self.nd
        rep = {'history': 'delete %s/b; sync interrupted at %s; re-add identical %s/b; sync' % (dl, pt, dl), 'nd': self.nd, 'np': self.np, 'io_cache': self.cache}
        try:
            data = a.store[(dl, 'b')][0][0]
            a.remove(dl, 'b')
            if pt[0] == 'kill-after-sync':
                r = a.run('sync', '--test-io-cache', str(self.cache), '--test-kill-after-sync')
            else:
                r = a.run('sync', '--test-io-cache', str(self.cache), shim_env={'VSHIM_KILL': '%d:%s' % pt[:2] if pt[1] != 'before' else str(pt[0])})
            self.stats['histories'] += 1
            # the same bytes again (a new time stamp: it is a new file for the tool)
            a.write(dl, 'b', data, mtime_ns=(T0 + 9000 * 10**9) if pt[2] == 'new' else a.store[(dl, 'b')][0][1])
            key = KEY_TRUNC if self.window(pt) else None
            rs = a.run('sync', '--test-io-cache', str(self.cache))
            if rs.rc != 0:
                # in the truncation window and with the file restored unchanged the tool at least notices ("parity files are smaller than
                # expected", asks for --force-full): same root cause, same finding
                refused = key if 'smaller than expected' in rs.err else None
                chk.violation('readd_sync', 'delete / interrupted sync (%s) / identical re-add: the next sync fails (rc %d): %s' % (pt, rs.rc, rs.err[-200:]), rep, finding_key=refused)
                self.stats['known_truncation_window'] = self.stats.get('known_truncation_window', 0) + (1 if refused else 0)
                return
            st = a.content()
            left = all_synced(a, st)
            perr, n = a.check_parity(st)
            if left or perr:
                chk.violation('readd_parity', 'delete / interrupted sync (%s) / identical re-add / sync: stripes %s unsynced, %s' % (pt, left, perr[:2]), rep, finding_key=key)
                self.stats['known_truncation_window'] = self.stats.get('known_truncation_window', 0) + (1 if key else 0)
                return
            final = a.snapshot_data()
            for dname in a.disks:
                b = clone(a)
                try:
                    lose(b, ('d', dname))
                    rf = b.run('fix', '-d', dname)
                    got = {kk: v for kk, v in b.snapshot_data().items() if kk[0] == dname}
                    exp = {kk: v for kk, v in final.items() if kk[0] == dname}
                    dd = data_equal(exp, got)
                    if rf.rc != 0 or dd:
                        chk.violation('readd_c01', 'delete / interrupted sync (%s) / identical re-add / sync: losing %s is not recovered (fix rc %d): %s' % (pt, dname, rf.rc, dd[:3]), rep)
                        return
                finally:
                    drop(b)
            self.stats['passed'] += 1
        finally:
            drop(a)


class ResaveHistory:
    """new files are added; `sync -h` (the pre-hash phase records them as REP blocks with the hash of their data) is killed at every
    call; the new file is then saved again with the SAME bytes and a new time stamp; a normal sync follows.  Whatever the first run
    had written, the second must leave valid parity: independent parity check, `check`, recovery of every disk."""

    def __init__(self, chk, binary, shim, cache=3, opts=('-h',)):
        self.chk, self.binary, self.shim, self.cache, self.opts = chk, binary, shim, cache, list(opts)
        self.scn = Scn(binary, shim, 'addsfit', 2, 1)
        self.stats = {'histories': 0, 'passed': 0}
        a = self.scn.build()
        log = os.path.join(a.root, 'ref.log')
        a.run('sync', '--test-io-cache', str(cache), *self.opts, shim_env={'VSHIM_LOG': log})
        self.calls = shim_log(log)
        drop(a)

    def points(self):
        return [('kill-after-sync', None)] + [(n, m) for (n, call, path, rest) in self.calls for m in ('before', 'after')]

    def case(self, pt):
        chk = self.chk
        if len(chk.violations) > 8:
            return
        a = self.scn.build()
        rep = {'history': 'add d2/n; sync %s interrupted at %s; d2/n saved again with the same bytes; sync' % (' '.join(self.opts), pt), 'io_cache': self.cache}
        try:
            if pt[0] == 'kill-after-sync':
                a.run('sync', '--test-io-cache', str(self.cache), '--test-kill-after-sync', *self.opts)
            else:
                a.run('sync', '--test-io-cache', str(self.cache), *self.opts, shim_env={'VSHIM_KILL': '%d:%s' % pt if pt[1] != 'before' else str(pt[0])})
            self.stats['histories'] += 1
            data = a.store[('d2', 'n')][0][0]
            a.write('d2', 'n', data, mtime_ns=T0 + 77777 * 10**9)
            rs = a.run('sync', '--test-io-cache', str(self.cache))
            st = a.content()
            left = all_synced(a, st)
            perr, _ = a.check_parity(st)
            rck = a.run('check')
            if rs.rc != 0 or left or perr or rck.rc != 0:
                chk.violation('resave', 'additions, `sync %s` interrupted (%s), identical re-save, sync (rc %d): unsynced %s, %s, check rc %d %s' % (
                    ' '.join(self.opts), pt, rs.rc, left, perr[:2], rck.rc, rck.summary()), rep)
                return
            final = a.snapshot_data()
            for dname in a.disks:
                b = clone(a)
                try:
                    lose(b, ('d', dname))
                    rf = b.run('fix', '-d', dname)
                    got = {kk: v for kk, v in b.snapshot_data().items() if kk[0] == dname}
                    exp = {kk: v for kk, v in final.items() if kk[0] == dname}
                    dd = data_equal(exp, got)
                    if rf.rc != 0 or dd:
                        chk.violation('resave_c01', 'additions, `sync %s` interrupted (%s), identical re-save, sync: losing %s is not recovered (fix rc %d): %s' % (' '.join(self.opts), pt, dname, rf.rc, dd[:3]), rep)
                        return
                finally:
                    drop(b)
            self.stats['passed'] += 1
        finally:
            drop(a)


# -------------------------------------------------------------------------------------------------- the autosave race witness
def autosave_witness(chk, binary, shim, slow):
    """replay of kill_inv_refuted_autosave_threaded: threaded sync with an autosave, parity writes delayed, killed right after the
    autosave's rename"""
    scn = Scn(binary, shim + ':' + slow if False else shim, 'fresh', 2, 1)
    a = scn.build()
    a.shim = slow + ':' + shim
    try:
        r = a.run('sync', '--test-io-cache', '8', '--test-force-autosave-at', '3',
                  shim_env={'C07_SLOW_MS': '60', 'VSHIM_KILL_ON': 'rename:snapraid.content:2:after'})
        if r.rc not in (-9, 137):
            return {'replayed': False, 'rc': r.rc}
        st = a.content()
        perr, n = a.check_parity(st)
        view = stripe_view(a, st)
        res = {'replayed': True, 'stripes_recorded_synced': [p for p in view if view[p]['allblk']], 'stale': perr[:8]}
        # the same with a cache of 3
        b3 = scn.build()
        b3.shim = slow + ':' + shim
        try:
            r3 = b3.run('sync', '--test-io-cache', '3', '--test-force-autosave-at', '3',
                        shim_env={'C07_SLOW_MS': '60', 'VSHIM_KILL_ON': 'rename:snapraid.content:2:after'})
            p3, _ = b3.check_parity(b3.content())
            res['cache3_stale'] = p3[:3]
            if p3:
                chk.violation('kill_inv_autosave', 'REGRESSION of F-C07-autosave-writers-not-drained: sync --test-io-cache 3 --test-force-autosave-at 3 with delayed parity writes, killed after the autosave rename: %s' % p3[0], res)
        finally:
            drop(b3)
        if perr:
            chk.violation('kill_inv_autosave', 'REGRESSION of F-C07-autosave-writers-not-drained: sync --test-io-cache 8 --test-force-autosave-at 3 with delayed parity writes, killed after the autosave rename: %d stripes recorded synced have no valid parity (%s)' % (len(perr), perr[0]),
                          res)
        # the single-thread mode does not have the race
        b = scn.build()
        b.shim = slow + ':' + shim
        try:
            r = b.run('sync', '--test-io-cache', '1', '--test-force-autosave-at', '3',
                      shim_env={'C07_SLOW_MS': '20', 'VSHIM_KILL_ON': 'rename:snapraid.content:2:after'})
            st = b.content()
            perr, n = b.check_parity(st)
            res['mono_stale'] = perr[:3]
            if perr:
                chk.violation('kill_inv_autosave_mono', 'single-thread sync killed after the autosave rename: stripes recorded synced without valid parity: %s' % perr[0], res)
        finally:
            drop(b)
        return res
    finally:
        drop(a)


def main(tier, replay=None):
    chk = Check('C07', tier, 'proof')
    snap = snapshot_repo()
    regen(snap)
    try:
        binary = build_tool(snap)
        shim = build_shim(snap)
        slow = build_slow(snap)
    except BuildError as e:
        chk.violation('build', 'working tree does not build: ' + str(e)[:500], {'error': str(e)}, no_input=True)
        return chk.finish()
    ob = check_obligations('C07')
    proof_coverage(chk, ob, 'make -f Makefile.coq -k Props/Properties_C07*.vo (coqc 8.16.1) + Print Assumptions',
                   ['Coq 8.16.1 kernel', 'hand model coq/Array/{ArrayDefs,SyncModel}.v + coq/Fault/FaultModel.v part B (effect trace, crash states; a content save is one event, justified by Content/SaveProofs.save_atomic)',
                    'extraction + ocaml/C08/driver.ml (request `trace`)', 'harness/py/{arraylib,content,gfref,c07_lib}.py', 'harness/c/shim.c (numbering, kill), harness/c/c07_slow.c (delays)',
                    'process death only: completed system calls persist; no power-loss / write reordering below fsync'])
    model = None
    try:
        model = build_model('Extract/Extract_C08.vo', 'ocaml/C08', 'c08_ext', 'driver.ml', 'model')
    except BuildError as e:
        chk.violation('model_build', 'the fault model does not build/extract: %s' % str(e)[-600:], {'error': str(e)[-3000:]}, no_input=True)
    quick = tier == 'quick'
    # ---- (b) abrupt kills
    if quick:
        confs = [('adds', 2, 1, 1, 1, 0), ('adds', 2, 2, 3, 1, 0), ('mixed', 3, 2, 3, 2, 0), ('adds3', 3, 1, 3, 1, 0),
                 # every file of one disk removed (sync -E): kills after each content save, partial runs
                 ('wipe', 2, 1, 3, 2, 0), ('wipe', 3, 2, 1, 1, 0),
                 # kill points inside the autosave sequence (io_stop, parity fsyncs, content save, restart), every io mode
                 ('adds', 2, 2, 1, 1, 5), ('adds', 2, 2, 3, 1, 5), ('adds', 2, 2, 8, 1, 5)]
    else:
        confs = [('adds', 2, 1, 1, 1, 0), ('adds', 2, 2, 3, 1, 0), ('mixed', 3, 2, 3, 2, 0), ('adds', 3, 3, 8, 3, 0), ('mixed', 2, 1, 1, 1, 0),
                 ('fresh', 2, 2, 3, 2, 0), ('adds', 2, 2, 1, 2, 5), ('mixed', 3, 3, 128, 3, 0), ('adds', 2, 1, 3, 1, 0), ('adds', 2, 2, 8, 1, 5), ('adds', 2, 2, 3, 2, 5),
                 ('adds', 3, 1, 8, 1, 6), ('adds', 2, 1, 3, 1, 6),
                 ('adds3', 3, 1, 3, 1, 0), ('adds3', 4, 2, 1, 2, 0), ('adds3', 3, 2, 8, 1, 0),
                 ('wipe', 2, 1, 3, 2, 0), ('wipe', 3, 2, 1, 1, 0), ('wipe', 3, 1, 8, 3, 4), ('wipe', 4, 3, 3, 1, 0)]
    tot = {}
    conf_sum = []
    traces_ok = 0
    import time as _t
    phase = {}
    t_ph = [_t.time()]

    def lap(nm):
        phase[nm] = round(phase.get(nm, 0) + _t.time() - t_ph[0], 1); t_ph[0] = _t.time()
    # the same with the pre-hash phase (-h) and with the GUI progress lines (-G)
    confs = [cf + ((),) for cf in confs] + [('adds', 2, 1, 3, 1, 0, ('-h',)), ('mixed', 3, 2, 1, 1, 0, ('-h', '-G'))][:1 if quick else 2]
    # version 3 content files (split parity / reduced hash size) with additions that fit inside the existing parity: nothing but
    # the additions asks for the content save that precedes the sync loop
    # (reduced hash, one parity: the open finding F-C07-reduced-hash-ignores-empty-marker; with two parity levels the clause must hold)
    confs += [('addsfit', 2, 1, 3, 1, 0, ('splits=2',)), ('addsfit', 2, 1, 1, 1, 0, ('hashsize=8',)), ('addsfit', 2, 2, 3, 1, 0, ('hashsize=8', 'splits=2'))]
    if not quick:
        confs += [('addsfit', 3, 2, 8, 2, 0, ('splits=2', 'hashsize=4')), ('adds', 2, 1, 3, 1, 0, ('splits=2',)), ('addsfit', 2, 2, 3, 1, 4, ('splits=2',))]
    for (name, nd, np_, cache, ncontent, autosave_at, extra) in confs:
        geo = {kv.split('=')[0]: int(kv.split('=')[1]) for kv in extra if '=' in kv}
        extra = tuple(x for x in extra if '=' not in x)
        scn = Scn(binary, shim, name, nd, np_, ncontent=ncontent, splits=geo.get('splits', 1), hashsize=geo.get('hashsize'))
        try:
            K = SyncKill(chk, scn, cache, autosave_at, model, full_c01=not quick, extra=extra)
        except Exception as e:
            chk.violation('setup', 'configuration %s cannot be prepared: %s' % ((name, nd, np_, cache), e), {'conf': [name, nd, np_, cache]}, no_input=True)
            continue
        traces_ok += K.trace_check(None)
        pts = K.points(autosave_window=bool(quick and autosave_at))
        pmap(K.kill_case, pts)
        if name in ('wipe', 'mixed'):
            # partial runs: a content save after every number of stripes
            pmap(K.partial_case, list(range(1, nd * 0 + 11)))
        for k, v in K.stats.items():
            tot[k] = tot.get(k, 0) + v
        conf_sum.append(dict(K.desc, calls=K.ncalls, kill_points=len(pts)))
        lap('sync_kill %s nd%d np%d c%d a%d %s' % (name, nd, np_, cache, autosave_at, ' '.join(extra) + str(geo or '')))
        if len(chk.violations) > 8:
            break
    # ---- content copies inside the data disks: kills at every call of every content save, then the resumed sync
    istats = {}
    for (name, nd, np_, cache, ncontent, autosave_at) in ([('adds', 2, 1, 3, 3, 5), ('adds', 2, 1, 1, 1, 0), ('mixed', 3, 2, 3, 2, 0)] if quick else
                                                          [('adds', 2, 1, 3, 3, 5), ('adds', 2, 1, 1, 1, 0), ('mixed', 3, 2, 3, 2, 0), ('adds', 2, 2, 8, 2, 5), ('fresh', 3, 1, 3, 3, 0), ('wipe', 3, 1, 1, 2, 0)]):
        try:
            IK = InDiskKill(chk, Scn(binary, shim, name, nd, np_, ncontent=ncontent, content_in_disks=True), cache, autosave_at)
        except Exception as e:
            chk.violation('setup', 'content-in-disk configuration %s cannot be prepared: %s' % ((name, nd, np_, ncontent), e), {}, no_input=True)
            continue
        pts = IK.points()
        pmap(IK.kill_case, pts)
        for k, v in IK.stats.items():
            istats[k] = istats.get(k, 0) + v
        istats['configurations'] = istats.get('configurations', 0) + 1
    lap('content_in_disks')
    # ---- additions only, two successive interrupted syncs (the second one loads with clear_past_hash)
    tstats = {}
    for (np_, cache_) in ([(1, 3), (2, 3)] if quick else [(1, 3), (2, 3), (1, 1), (2, 8)]):
        try:
            TK = TwoKills(chk, binary, shim, np_, cache_)
        except Exception as e:
            chk.violation('setup', 'two-kills history cannot be prepared: %s' % e, {'np': np_}, no_input=True)
            continue
        pmap(TK.case, TK.points(quick))
        for k, v in TK.stats.items():
            tstats[k] = tstats.get(k, 0) + v
    lap('two_kills')
    # ---- a sync interrupted while a rehash is in progress
    hstats = {}
    for (np_, cache_, opts_) in ([(1, 3, ('-h',))] if quick else [(1, 3, ('-h',)), (2, 1, ('-h',)), (1, 8, ())]):
        try:
            RK = RehashKill(chk, binary, shim, np_, cache_, opts_)
        except Exception as e:
            chk.violation('setup', 'rehash-kill history cannot be prepared: %s' % e, {'np': np_}, no_input=True)
            continue
        pmap(RK.case, RK.points(quick))
        for k, v in RK.stats.items():
            hstats[k] = hstats.get(k, 0) + v
    lap('rehash_kill')
    # ---- delete / interrupted sync / identical re-add
    rstats = {}
    for (nd_, np_, cache_) in ([(2, 1, 3)] if quick else [(2, 1, 3), (3, 2, 1), (2, 2, 8)]):
        try:
            RH = ReaddHistory(chk, binary, shim, nd_, np_, cache_)
        except Exception as e:
            chk.violation('setup', 'readd history cannot be prepared: %s' % e, {'nd': nd_}, no_input=True)
            continue
        pmap(RH.case, RH.points())
        for k, v in RH.stats.items():
            rstats[k] = rstats.get(k, 0) + v
    lap('readd')
    # ---- additions, sync -h interrupted, the new file saved again with the same bytes, sync
    for (cache_, opts_) in ([(3, ('-h',))] if quick else [(3, ('-h',)), (1, ('-h',)), (8, ())]):
        try:
            RS = ResaveHistory(chk, binary, shim, cache_, opts_)
        except Exception as e:
            chk.violation('setup', 'resave history cannot be prepared: %s' % e, {}, no_input=True)
            continue
        pmap(RS.case, RS.points())
        rstats['resave_histories'] = rstats.get('resave_histories', 0) + RS.stats['histories']
        rstats['resave_passed'] = rstats.get('resave_passed', 0) + RS.stats['passed']
    lap('resave')
    # ---- the autosave race (known finding), deterministic replay
    aw = autosave_witness(chk, binary, shim, slow)
    lap('autosave_witness')
    # ---- (a) graceful stops
    sstats = {'signals': 0, 'stopped_early': 0, 'stripes_checked': 0, 'multi_recoveries': 0}
    sconfs = [('adds', 2, 2, 1), ('adds', 2, 2, 3), ('wipe', 2, 1, 1)] if quick else [('wipe', 2, 1, 1), ('wipe', 3, 2, 3), ('adds', 2, 2, 1), ('adds', 2, 2, 3), ('mixed', 3, 2, 1), ('adds', 3, 3, 8), ('fresh', 2, 1, 1), ('mixed', 2, 1, 3)]
    scases = []
    for (name, nd, np_, cache) in sconfs:
        scn = Scn(binary, shim, name, nd, np_, ncontent=2)
        nw = 12 if name == 'mixed' else (6 if name == 'adds' else (10 if name == 'wipe' else 8))
        for k in range(1, nw + 1):
            for sig in ((signal.SIGINT, signal.SIGTERM) if (k % 2 or not quick) else (signal.SIGINT,)):
                scases.append((scn, cache, k, sig, ()))
                if name == 'adds' and cache == 1 and k in (2, 4):
                    scases.append((scn, cache, k, sig, ('-G',)))        # the GUI variant of the progress / interruption report
                    scases.append((scn, cache, k, sig, ('-h',)))        # with the pre-hash phase
    pmap(lambda c: signal_case(chk, c[0], slow, c[1], c[2], c[3], model, sstats, c[4]), scases, workers=8, state=[sstats], chk=chk)
    lap('signals')
    # ---- (c) fix killed at every call, then re-run
    fstats = {}
    fconf = []
    for np_ in ([2] if quick else [1, 2, 3]):
        try:
            F = FixKill(chk, binary, shim, np_, slow)
        except Exception as e:
            chk.violation('setup', 'fix scenario cannot be prepared: %s' % e, {'np': np_}, no_input=True)
            continue
        pts = F.points()
        pmap(F.kill_case, pts)
        # graceful stops: partial runs over every prefix / a few windows, signals at the data writes
        gr = [('B', 0, n) for n in range(1, 8)] + [('B', s_, n) for s_ in (1, 3) for n in (1, 2)]
        gr += [('sig', k, sg) for k in range(1, 6 if quick else 12) for sg in (signal.SIGINT, signal.SIGTERM)]
        pmap(F.graceful_case, gr, workers=8)
        for k, v in F.stats.items():
            fstats[k] = fstats.get(k, 0) + v
        fconf.append({'np': np_, 'calls': len(F.calls), 'kill_points': len(pts)})
    lap('fix_kill')
    # ---- a second fix over .unrecoverable leftovers, stopped gracefully (partial runs, signals)
    lstats = {}
    try:
        FL = FixLeftovers(chk, binary, shim, slow)
        parts = [(0, n) for n in range(1, FL.blockmax + 1)] + [(s, n) for s in (1, 2, 3, 5) for n in (1, 2, 4)]
        pmap(FL.partial_case, parts)
        pmap(FL.signal_case, [(k, sg) for k in range(1, 7 if quick else 12) for sg in (signal.SIGINT, signal.SIGTERM)], workers=8)
        lstats = FL.stats
    except Exception as e:
        chk.violation('setup', 'fix leftovers scenario cannot be prepared: %s' % e, {}, no_input=True)
    lap('fix_leftovers')
    probe = unrecoverable_rerun_probe(binary, shim)
    lap('probe')
    n_eval = tot.get('kills', 0) + sstats['signals'] + fstats.get('kills', 0) + rstats.get('histories', 0) + rstats.get('resave_histories', 0) + istats.get('kills', 0) + tstats.get('histories', 0) + hstats.get('histories', 0) + lstats.get('partial_runs', 0) + lstats.get('signals', 0)
    chk.cov.update({'evaluations': n_eval, 'distinct_nontrivial': n_eval,
                    'rule': 'EVERY numbered state-changing call k of a reference sync (and of a reference fix) x {before, after, short for write/pwrite}: one fresh deterministic array per point, killed there; SIGINT/SIGTERM at every parity write of slowed syncs; non-trivial = runs really interrupted',
                    'sync_kill_configurations': conf_sum, 'sync_kill': tot, 'graceful_stop': sstats, 'fix_kill_configurations': fconf, 'fix_kill': fstats, 'delete_kill_identical_readd': rstats, 'content_copies_inside_data_disks': istats, 'two_successive_interrupted_syncs_adds_only': tstats, 'sync_killed_while_rehash_in_progress': hstats, 'second_fix_over_unrecoverable_leftovers': lstats,
                    'torn_write_np1_unrecoverable': tot.get('torn_write_np1_unrecoverable', 0), 'reduced_hash_np1_unrecoverable': tot.get('reduced_hash_np1_unrecoverable', 0), 'autosave_race': aw,
                    'fix_rerun_after_unrecoverable_result (measured, not judged)': probe,
                    'traces_validated_against_impl': traces_ok, 'phase_seconds': phase})
    chk.cov['samples'] = conf_sum[:3] + fconf[:1]
    if ob['failed'] and not chk.violations:
        chk.violation('obligation', 'proof obligation of C07 no longer checks: %s' % ob['failed'][0],
                      {'theorem_file': 'coq/Props/Properties_C07.v', 'failed': ob['failed'], 'log_tail': ob['log'][-1500:]}, no_input=True)
    chk.assumptions += ['exercised by the oracle only (outside the Coq model): fix stopped gracefully (partial runs -B / -S -B, signals) on missing files, on a file grown since the sync (cut back by fix) and over .unrecoverable leftovers; sync -h and -G variants of the kill and signal families; whole-disk removals under --force-empty',
                        'never reached, by choice: close/rename/mkdir/link error branches of fix, rehash in progress, the size-based autosave (needs GBs)',
                        'process death only (SIGKILL at a system-call boundary or in the middle of a write): no power loss, no reordering below fsync',
                        'Q-C07: a torn parity block with a single parity level may make a previously synced file unrecoverable; measured (torn_write_np1_unrecoverable), not raised',
                        'the C01-style recovery after the resumed sync is applied to one data disk per kill point in the quick tier (rotating), to every disk in the thorough tier']
    return chk.finish()
