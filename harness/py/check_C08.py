"""C08 -- I/O errors never turn into false protection.

Every single read/write call of a small sync (and scrub) is made to fail through the shim; the outcome is judged by the
property's own oracle (exit status, diagnostic, independent content decoder: the stripe hit must not be recorded synced and
healthy, `status` must show it, `fix -e` / the next `sync` must repair it, the other stripes must be processed), and compared
with the extracted model `sync_loop_w` of coq/Fault/FaultModel.v (exit class, counters, per-stripe states, bad flags, which
parity blocks were written)."""
import os, sys, json, time, shutil
from common import *
from arraylib import *
from c07_lib import *

KEY_SYNCED = 'F-C08-parity-write-error-recorded-synced'
KEY_LAST = 'F-C08-last-writer-errors-lost'
KEY_MONO = 'F-C08-mono-writer-errors-lost'
EIO, ENOSPC = 5, 28
SHORT = -512          # a fault 'errno' below zero is a short count of -errno bytes (shim: short=<n>)


def parity_sub(level):
    return 'par%d_' % level


class Ref:
    """reference facts of a scenario: post-scan content, enabled stripes, stripes written, per-file stripes read"""

    def __init__(self, scn, oneshot=False):
        a = scn.build()
        cb0 = a.content_bytes()
        r0 = post_scan(a)
        self.rc0 = r0.rc
        self.st1 = a.content()
        if oneshot:
            # the reference run scans and syncs in ONE go (past hashes kept: stripes whose data did not change are not written)
            for cf_, b_ in zip(a.content_files, cb0):
                if b_ is not None:
                    open(cf_, 'wb').write(b_)
        self.enabled = enabled_stripes(a, self.st1)
        log = os.path.join(a.root, 'ref.log')
        r = a.run('sync', shim_env={'VSHIM_LOG': log})
        assert r.rc == 0, r
        self.written = {}
        for n, call, path, rest in shim_log(log):
            if call == 'pwrite' and path.endswith('.parity'):
                lev = int(os.path.basename(path)[3])
                off = int(rest.split('off=')[1].split()[0])
                self.written.setdefault(lev, []).append(off // a.bs)
        self.files = {}
        for d, dd in self.st1['disks'].items():
            for f in dd['files']:
                sub = f['sub'].decode('latin1')
                self.files[(d, sub)] = [pos for (s, pos, h) in f['blocks'] if pos in self.enabled]
        self.st_final = a.content()
        perr, n = a.check_parity(self.st_final)
        assert not perr, perr
        drop(a)
        # a synced twin for scrub
        self.scrub_stripes = sorted(p for p, v in stripe_view(a, self.st_final).items() if v['hasfile'])


class Runner:
    def __init__(self, chk, scn, model, oneshot=False):
        self.chk, self.scn, self.model = chk, scn, model
        self.ref = Ref(scn, oneshot=oneshot)
        self.stats = {'runs': 0, 'read_faults': 0, 'write_faults': 0, 'scrub_faults': 0, 'model_compared': 0, 'satisfied': 0,
                      'known': {KEY_SYNCED: 0, KEY_LAST: 0, KEY_MONO: 0}, 'not_injected': 0, 'lag_seen': {}}
        self.samples = []

    # ---------------------------------------------------------------------------------------------- one faulty sync
    def sync_case(self, case):
        """case = dict(cache, faults=[(kind 'rd'|'wr', disk_or_level, j, errno)], limit or None)"""
        scn, ref, chk = self.scn, self.ref, self.chk
        if len(chk.violations) > 8:
            return
        a = scn.build()
        rep = dict(case); rep.update(scn.describe())
        try:
            cb0 = a.content_bytes()
            r0 = post_scan(a)
            st1 = a.content()
            if case.get('oneshot'):
                # ONE run scans and syncs: the blocks the scan creates keep their past hashes (no clear_past_hash), so stripes whose data
                # did not change need no parity update.  The post-scan state is taken from a first killed run, then the content files are
                # put back as they were; the model is asked to keep the past hashes (request syncwk)
                for cf_, b_ in zip(a.content_files, cb0):
                    if b_ is not None:
                        open(cf_, 'wb').write(b_)
            br = None
            if self.model:
                br = Bridge(a)
                br.learn_hashes(st1)
            specs, targets = [], []
            rd_hit = set()
            for kind, who, j, errno in case['faults']:
                if kind == 'rd':
                    lst = ref.files.get(who, [])
                    if j <= len(lst):
                        rd_hit.add(lst[j - 1])
            for kind, who, j, errno in case['faults']:
                if kind == 'rd':
                    d, sub = who
                    specs.append('pread:%s:%d:%d' % (os.path.join(a.root, d, sub), j, errno))
                    lst = ref.files.get((d, sub), [])
                    targets.append(('rd', lst[j - 1] if j <= len(lst) else None, d, errno))
                else:
                    specs.append('pwrite:%s:%d:%s' % (parity_sub(who), j, ('short=%d' % -errno) if errno < 0 else str(errno)))
                    # a stripe skipped because of a read error is not written: the j-th pwrite is the j-th of the others
                    lst = [p for p in ref.written.get(who, []) if p not in rd_hit]
                    targets.append(('wr', lst[j - 1] if j <= len(lst) else None, who, errno))
            opts = [] if case.get('default_cache') else ['--test-io-cache', str(case['cache'])]   # default: 16 MiB / block size, capped at 128
            if case.get('limit') is not None:
                opts += ['-L', str(case['limit'])]
            log = os.path.join(a.root, 'fault.log')
            par_before = [a.parity_bytes(l) for l in range(a.np)]
            fs_toks = br.ser_fs() if br else None
            r = a.run('sync', *opts, shim_env={'VSHIM_FAIL': ','.join(specs), 'VSHIM_LOG': log})
            injected = open(log, errors='replace').read().count('INJECTED-ERROR') if os.path.exists(log) else 0
            self.stats['runs'] += 1
            if injected == 0:
                self.stats['not_injected'] += 1
                if r.rc != 0:
                    chk.violation('noinject', 'sync failed although no fault was injected: %r' % r, rep)
                return
            try:
                st2 = a.content()
            except Exception as e:
                chk.violation('content', 'content unreadable after a faulty sync: %s' % e, rep)
                return
            view = stripe_view(a, st2)
            perr, nchk = a.check_parity(st2)
            stale = sorted({int(e.split()[1]) for e in perr if e.startswith('stripe')})
            diag = bool(r.tag('error:') or r.tag('parity_error:')) and ('rror' in r.err or 'rror' in r.out)
            rep.update({'rc': r.rc, 'summary': r.summary(), 'stale_stripes': stale, 'targets': [list(map(str, t)) for t in targets],
                        'states': {p: v['states'] for p, v in view.items()}, 'bad': [p for p, v in view.items() if v['info'] and v['info']['bad']]})
            rstat = a.run('status')
            ssum = rstat.summary()
            shown = int(ssum.get('has_bad', 0) or 0) + int(ssum.get('has_unsynced', 0) or 0)
            # ---- model comparison (before the repair commands change the state)
            if self.model and br is not None:
                self.compare_model(a, br, case, targets, st1, st2, r, par_before, fs_toks, rep)
            # ---- the property
            bailed = 'exit' not in r.summary() or r.summary().get('exit') not in ('ok', 'error')
            nfault_kinds = {t[0] for t in targets}
            # ---- the error limit: the run stops exactly when the number of I/O errors reaches it (-L), not before, not later
            n_eio_rd = len([t for t in targets if t[0] == 'rd' and t[3] == EIO and t[1] is not None])
            if nfault_kinds == {'rd'} and all(t[3] == EIO for t in targets):
                lim = case.get('limit') if case.get('limit') is not None else 100
                if n_eio_rd >= lim and not bailed:
                    chk.violation('limit', 'sync -L %d with %d read EIO errors did not stop at the limit (io_cache %d): exit %d, summary %s' % (lim, n_eio_rd, case['cache'], r.rc, r.summary().get('exit')), rep)
                if n_eio_rd < lim and bailed:
                    chk.violation('limit', 'sync -L %d stopped after only %d read EIO errors (io_cache %d)' % (lim, n_eio_rd, case['cache']), rep)
                if n_eio_rd >= lim and bailed:
                    # the stripes after the one that reached the limit are left untouched
                    hitpos = sorted(t[1] for t in targets)[lim - 1]
                    late = [p for p in ref.enabled if p > hitpos and view.get(p, {}).get('allblk')]
                    if late and case['cache'] == 1:
                        chk.violation('limit', 'sync -L %d: stripes %s after the stripe that reached the limit were still processed' % (lim, late), rep)
            for (kind, pos, who, errno) in targets:
                if pos is None:
                    continue
                v = view.get(pos, {'healthy': False, 'states': []})
                iteration = ref.enabled.index(pos) if pos in ref.enabled else None
                ok_exit = r.rc != 0 and diag
                ok_state = not v['healthy']
                if kind == 'rd':
                    self.stats['read_faults'] += 1
                    if not ok_exit:
                        chk.violation('read_exit', 'sync: read error (errno %d) on %s at stripe %d but exit status %d / diagnostic %s (io_cache %d)' % (errno, who, pos, r.rc, diag, case['cache']), rep)
                    if not ok_state:
                        chk.violation('read_synced', 'sync: read error (errno %d) on %s at stripe %d and the stripe is recorded synced and healthy (io_cache %d)' % (errno, who, pos, case['cache']), rep)
                    if errno == EIO and not bailed and not (v['info'] and v['info']['bad']):
                        chk.violation('read_notbad', 'sync: EIO reading %s at stripe %d but the stripe is not marked bad (io_cache %d)' % (who, pos, case['cache']), rep)
                    if shown == 0:
                        chk.violation('read_status', 'sync: read error at stripe %d but status shows has_bad:0 has_unsynced:0' % pos, rep)
                    if ok_exit and ok_state:
                        self.stats['satisfied'] += 1
                else:
                    self.stats['write_faults'] += 1
                    if ok_exit and ok_state:
                        if shown == 0:
                            chk.violation('write_status', 'sync: parity write error at stripe %d but status shows has_bad:0 has_unsynced:0' % pos, rep)
                        self.stats['satisfied'] += 1
                        continue
                    n = case['cache']
                    T = len(ref.enabled)
                    what = 'sync --test-io-cache %d: parity write error (errno %d) on level %d at stripe %d (iteration %s of %d): exit %d, stripe recorded %s, stale parity %s' % (
                        n, errno, who, pos, iteration, T, r.rc, 'synced+healthy' if v['healthy'] else 'not healthy', pos in stale)
                    if errno < 0 and r.rc == 0:
                        key = None
                        what = 'a SHORT parity write (%d bytes of the block) is accepted as complete: ' % -errno + what
                    elif n == 1 and r.rc == 0:
                        # F-C08-mono-writer-errors-lost was repaired in /repo (55c30f5): exit 0 in single-thread mode is a regression
                        key = None
                        what = 'REGRESSION of F-C08-mono-writer-errors-lost: ' + what
                    elif n > 1 and r.rc == 0:
                        # F-C08-last-writer-errors-lost was repaired in /repo (1304269: end-of-run flush): exit 0 after a failed
                        # parity write is a regression in threaded mode too
                        key = None
                        what = 'REGRESSION of F-C08-last-writer-errors-lost: ' + what
                    elif r.rc != 0 and v['healthy']:
                        # F-C08-parity-write-error-recorded-synced was repaired in /repo (0ecd44a: the stripes of the failed writes are marked
                        # bad): a stripe recorded synced and healthy after a failed parity write is a regression
                        key = None
                        what = 'REGRESSION of F-C08-parity-write-error-recorded-synced: ' + what
                    else:
                        key = None
                    chk.violation('write_regression' if what.startswith('REGRESSION') else 'write_other', what, rep)
            # ---- other stripes processed normally (no bail: EIO only and limit not reached)
            hit = {t[1] for t in targets}
            if not bailed:
                for p in ref.enabled:
                    if p in hit:
                        continue
                    if not view[p]['healthy'] or p in stale:
                        chk.violation('others', 'sync with a fault at stripes %s: stripe %d was not processed normally (states %s, stale %s)' % (sorted(x for x in hit if x is not None), p, view[p]['states'], p in stale), rep)
                        break
            # ---- repair: fix -e then sync must leave everything synced with valid parity
            if nfault_kinds:
                rf = a.run('fix', '-e')
                rs = a.run('sync')
                # a stripe already recorded synced whose parity write failed is repaired by fix -e; its bad mark is cleared by scrub -p bad
                rb = a.run('scrub', '-p', 'bad') if 'wr' in nfault_kinds else None
                st3 = a.content()
                perr3, _ = a.check_parity(st3)
                left = all_synced(a, st3)
                if rs.rc != 0 or perr3 or left or (rb is not None and rb.rc != 0):
                    chk.violation('repair', 'after a %s fault, `fix -e` (rc %d) and `sync` (rc %d) leave stripes %s unsynced/bad, parity errors %s' % ('/'.join(sorted(nfault_kinds)), rf.rc, rs.rc, left, perr3[:2]), rep)
            if len(self.samples) < 4:
                self.samples.append({k: rep[k] for k in ('scenario', 'nd', 'np', 'cache', 'faults', 'rc', 'stale_stripes', 'bad') if k in rep})
        finally:
            drop(a)

    # ---------------------------------------------------------------------------------------------- model
    def compare_model(self, a, br, case, targets, st1, st2, r, par_before, fs_toks, rep):
        chk = self.chk
        br.learn_hashes(st2)
        npos = max([len(p) // a.bs for p in par_before] + [0])
        br.parity = [[['J%d' % (pos + 1)] for pos in range(npos)] for l in range(a.np)]
        now = max([i['time'] for i in st2['info'] if i] + [0])
        iol = case.get('limit') if case.get('limit') is not None else 100
        rq = []
        wfl = []
        for (kind, pos, who, errno) in targets:
            if pos is None:
                continue
            if kind == 'rd':
                rq += [str(pos), str(int(who[1:]) - 1), 'I' if errno == EIO else 'F']
            else:
                wfl.append((pos, who, 'E' if errno == EIO else ('S%d' % -errno if errno < 0 else 'N')))
        n = case['cache']
        # every failing write has its own writer schedule (one thread per level): search the admissible lags of each.  A lag
        # beyond the number of remaining iterations means 'collected by the end-of-run flush': lags up to the number of enabled
        # stripes cover all schedules
        import itertools
        lrange = [1] if n == 1 else list(range(1, min(n, len(self.ref.enabled) + 2)))
        lags = list(itertools.islice(iter(sorted(itertools.product(lrange, repeat=len(wfl)), key=lambda t: (sum(t), t))), 3000)) if wfl else [()]
        lags = [(lg, ()) for lg in lags]
        sm = r.summary()
        bailed_real = sm.get('exit') not in ('ok', 'error')
        real = {'fail': r.rc != 0, 'content': self.norm(br.ser_content(st2))}
        if not bailed_real:
            real.update({'nerr': int(sm.get('error_file', 0)), 'nio': int(sm.get('error_io', 0)), 'nsil': int(sm.get('error_data', 0))})
        first = None
        base = ['syncwk' if case.get('oneshot') else 'syncw', '0', '0', str(iol), str(now), str(a.bs), str(a.np), '-1', '0', str(st1['blockmax']), 'M', str(n), '1'] + \
            br.ser_hashes() + br.ser_content(st1) + br.ser_parity() + fs_toks + ['Q', str(len(rq) // 3)] + rq
        for (lagc, stale) in lags:
            wq = []
            si = 0
            for (wpos, wlev, wk), lg in zip(wfl, lagc):
                wq += [str(wpos), str(wlev), wk, str(lg)]
            lag = max(lagc) if lagc else 1
            req = base + ['W', str(len(wfl))] + wq
            out = run_lines(self.model, [' '.join(req)], shards=1)[0]
            if not out.startswith('ok '):
                chk.violation('model_error', 'fault model failed: %s' % out[:200], {'request': ' '.join(req)[:4000]}, no_input=True)
                return
            toks = out.split()
            m = {'nerr': int(toks[1]), 'nsil': int(toks[2]), 'nio': int(toks[3]), 'bailed': toks[4] == '1', 'nfail': int(toks[5]), 'nlost': int(toks[6])}
            m['fail'] = (m['nerr'] + m['nsil'] + m['nio']) != 0
            i = toks.index('C'); j = toks.index('P', i)
            if int(toks[7]) == 0:
                # no iteration completed: state->need_write (sync.c:1289) was never set after the save that precedes the loop, so
                # nothing is written at exit: the content on disk is the pre-loop state = the model's input (stop = 0)
                req0 = list(req); req0[7] = '0'
                o0 = run_lines(self.model, [' '.join(req0)], shards=1)[0].split()
                m['content'] = self.norm(o0[o0.index('C'):o0.index('P', o0.index('C'))])
            else:
                m['content'] = self.norm(toks[i:j])
            mp, _ = br.parse_parity(toks, j)
            agree = m['fail'] == real['fail'] and m['content'] == real['content'] and m['bailed'] == bailed_real and \
                (bailed_real or (m['nerr'], m['nio'], m['nsil']) == (real['nerr'], real['nio'], real['nsil']))
            if first is None:
                first = (m, req)
            if agree:
                # parity: what the model says was written must be there, the rest untouched
                br.parity = mp
                errs = br.check_parity_model()
                for l in range(a.np):
                    now_b = a.parity_bytes(l)
                    for pos, e in enumerate(mp[l]):
                        if e[0] == 'J0':
                            continue        # half written after a short count: neither the old nor the new block
                        if e[0][0] == 'J' and now_b[pos * a.bs:(pos + 1) * a.bs] != par_before[l][pos * a.bs:(pos + 1) * a.bs]:
                            errs.append('level %d pos %d: the model says the block was not (successfully) written, but its bytes changed' % (l, pos))
                if errs:
                    chk.violation('drift_parity', 'MODEL-DRIFT: fault model and binary disagree on parity after a faulty sync: %s' % errs[0], rep, no_input=True)
                self.stats['model_compared'] += 1
                self.stats['lag_seen'][lag] = self.stats['lag_seen'].get(lag, 0) + 1
                rep['model_lag'] = list(lagc)
                return
        m, req = first
        chk.violation('drift', 'MODEL-DRIFT: no admissible writer schedule of the fault model reproduces the faulty sync (io_cache %d, faults %s): real fail=%s %s, model(lag 1) fail=%s nerr=%d nio=%d bailed=%s' % (
            n, case['faults'], real['fail'], {k: real.get(k) for k in ('nerr', 'nio')}, m['fail'], m['nerr'], m['nio'], m['bailed']),
            {'case': rep, 'real_content': ' '.join(real['content']), 'model_content': ' '.join(m['content']), 'request': ' '.join(req)[:6000]}, no_input=True)

    @staticmethod
    def norm(t):
        """content tokens with info times reduced to presence and the hashes of non-BLK blocks reduced to ZERO / INVALID / other
        (the harness cannot name the hash of not yet synced data independently).  Since /repo 0d034b0 a skipped or aborted
        stripe stores no computed hash, so nothing else needs hiding"""
        t = list(t)
        out = []
        k = 0
        kinfo = t.index('INFO')
        while k < kinfo:
            if t[k] in ('g', 'p') and k + 2 < kinfo:
                out += [t[k], t[k + 1], t[k + 2] if t[k + 2] in ('Z', 'I') else '?']
                k += 3
            else:
                out.append(t[k]); k += 1
        n = int(t[kinfo + 1]); out += t[kinfo:kinfo + 2]; k = kinfo + 2
        for _ in range(n):
            if t[k] == '-':
                out.append('-'); k += 1
            else:
                out += ['T'] + t[k + 1:k + 4]; k += 4
        return out

    # ---------------------------------------------------------------------------------------------- scrub
    # ---------------------------------------------------------------------------------------------- other fault families
    def misc_case(self, case):
        """Faults that are not a failing read/write of a block but belong to 'the OS reports an error while a block is read or
        written': failing open (EIO / EACCES / ENOENT), non-EIO read errors, a file changed between scan and sync (--test-run),
        a copied file whose data differs (pre-hash), a silent error repaired on the fly with and without a failing PARITY read,
        write faults with an autosave, failing resize of the parity file.  One oracle for all ("no false protection"):
          - failing status and a diagnostic (unless case['may_succeed'], e.g. a resize fallback);
          - the content decodes; every stripe recorded synced AND not bad has valid parity (independent checker);
          - the stripes named by the case are not recorded synced-and-healthy;
          - fix -e, sync, scrub -p bad end with everything synced, not bad, parity valid, data files as the harness wrote them.
        case = dict(name, cache, opts=[...], fail=[spec with {root}], pre=callable name or None, hit=[stripes] or None, may_succeed)"""
        scn, chk = self.scn, self.chk
        if len(chk.violations) > 8:
            return
        a = scn.build()
        rep = {k: v for k, v in case.items()}
        rep.update(scn.describe())
        try:
            pre = case.get('pre')
            extra = []
            if pre:
                extra = getattr(self, 'pre_' + pre)(a, case) or []
            log = os.path.join(a.root, 'fault.log')
            specs = [f.replace('{root}', a.root) for f in case.get('fail', [])]
            env = {'VSHIM_LOG': log}
            if specs:
                env['VSHIM_FAIL'] = ','.join(specs)
            data_before = a.snapshot_data()
            r = a.run('sync', '--test-io-cache', str(case['cache']), *(case.get('opts', []) + extra), shim_env=env)
            self.stats['runs'] += 1
            txt = open(log, errors='replace').read() if os.path.exists(log) else ''
            if specs and 'INJECTED-ERROR' not in txt and not any(sp.startswith('open:') for sp in specs):
                self.stats['not_injected'] += 1
                return
            self.stats['read_faults'] += 1
            rep.update({'rc': r.rc, 'summary': r.summary()})
            if not case.get('data_changes') and data_equal(data_before, a.snapshot_data()):
                chk.violation('misc_data', '%s: sync modified data files' % case['name'], rep)
            diag = bool(r.tag('error') or r.tag('parity_error') or 'rror' in r.err or 'DANGER' in r.err or 'WARNING' in r.err)
            if not case.get('may_succeed') and (r.rc == 0 or not diag):
                chk.violation('misc_exit', '%s: exit status %d / diagnostic %s (io_cache %d)' % (case['name'], r.rc, diag, case['cache']), rep)
            try:
                st = a.content()
            except FileNotFoundError:
                st = None
            except Exception as e:
                chk.violation('misc_content', '%s: the content file does not decode afterwards: %s' % (case['name'], e), rep)
                return
            ok = True
            if st is not None:
                view = stripe_view(a, st)
                perr, _ = a.check_parity(st)
                stale = sorted({int(e.split()[1]) for e in perr if e.startswith('stripe')})
                false_prot = [p for p in stale if view.get(p, {}).get('healthy')]
                if false_prot or [e for e in perr if not e.startswith('stripe')]:
                    ok = False
                    chk.violation('misc_false_protection', '%s: stripes %s are recorded synced and not bad but their parity is not valid (%s)' % (case['name'], false_prot, perr[:2]), rep)
                for p in (case.get('hit') or []):
                    if view.get(p, {}).get('healthy') and r.rc != 0 and not case.get('hit_may_complete'):
                        ok = False
                        chk.violation('misc_hit', '%s: stripe %d is recorded synced and healthy' % (case['name'], p), rep)
            # repair
            if case.get('restore'):
                getattr(self, 'restore_' + case['restore'])(a, case)
            # the repair path of the property: `fix -e` or the next `sync`; a stripe left unsynced by a fatal stop is first seen (and marked)
            # by the next sync, then repaired by fix -e: up to two rounds
            for rnd in range(2):
                rf = a.run('fix', '-e')
                rs = a.run('sync', *case.get('resync_opts', []))
                rb = a.run('scrub', '-p', 'bad')
                st3 = a.content()
                if rs.rc == 0 and not all_synced(a, st3):
                    break
            perr3, _ = a.check_parity(st3)
            left = all_synced(a, st3)
            dd = data_equal(data_before, a.snapshot_data()) if not case.get('data_changes') else []
            if case.get('expect_restored'):
                d_, s_ = case['expect_restored']
                if not os.path.isfile(a.path(d_, s_)):
                    dd = dd + ['%s:%s is gone (%s)' % (d_, s_, sorted(os.listdir(os.path.join(a.root, d_))))]
                elif open(a.path(d_, s_), 'rb').read() != a.store[(d_, s_)][0][0]:
                    dd = dd + ['%s:%s still damaged' % (d_, s_)]
            if (rs.rc != 0 or perr3 or left or dd) and case.get('repair_measured'):
                # measured, not judged (reported to the lead as a candidate): see the note where the case is generated
                self.stats.setdefault('measured', []).append({'case': case['name'], 'fix_rc': rf.rc, 'sync_rc': rs.rc, 'left': left, 'data': dd[:1]})
            elif rs.rc != 0 or perr3 or left or dd:
                ok = False
                chk.violation('misc_repair', '%s: after fix -e (rc %d), sync (rc %d), scrub -p bad (rc %d): unsynced/bad %s, parity errors %s, data %s' % (
                    case['name'], rf.rc, rs.rc, rb.rc, left, perr3[:2], dd[:2]), rep)
            if ok:
                self.stats['satisfied'] += 1
        finally:
            drop(a)

    # preparations: return extra options
    def pre_touch_during(self, a, case):
        """a data file gets a new time stamp between the scan and the sync loop (--test-run runs after the scan)"""
        d, sub = case['file']
        return ['--test-run', 'touch -d 2001-02-03 %s' % a.path(d, sub)]

    def restore_touch(self, a, case):
        a.note_version(*case['file'])        # the harness itself changed the time stamp: a version the oracles must know

    def pre_silent(self, a, case):
        """one block of a synced file is damaged without changing size or time: a silent error in a stripe the sync has to process"""
        d, sub, blk = case['silent']
        p = a.path(d, sub)
        st = os.stat(p)
        b = bytearray(open(p, 'rb').read())
        b[blk * BS + 3:blk * BS + 13] = b'\x5a' * 10
        open(p, 'wb').write(bytes(b))
        os.utime(p, ns=(st.st_mtime_ns, st.st_mtime_ns))
        return []

    def pre_copy_mismatch(self, a, case):
        """a new file with the name, size and time of a synced file of another disk (taken for a copy: REP blocks with the inherited
        hashes) but other bytes"""
        (d0, sub0), d1 = case['copy_of'], case['to']
        src = a.path(d0, sub0)
        st = os.stat(src)
        data = det_bytes('c08/copy-mismatch', st.st_size)
        a.write(d1, 'sub2/' + sub0, data, mtime_ns=st.st_mtime_ns)
        return []

    def prehash_case(self, case):
        """`sync -h`: the pre-hash phase reads every block of the new files before the sync phase; the j-th pread of a new file is
        made to fail with EIO there.  Expected: failing status and diagnostic, the sync phase is skipped, nothing is recorded
        synced; a later plain sync completes.  case = dict(cache, file=(disk, sub), j)"""
        scn, chk, ref = self.scn, self.chk, self.ref
        if len(chk.violations) > 8:
            return
        a = scn.build()
        rep = dict(case); rep.update(scn.describe())
        try:
            d, sub = case['file']
            log = os.path.join(a.root, 'fault.log')
            r = a.run('sync', '-h', '--test-io-cache', str(case['cache']),
                      shim_env={'VSHIM_FAIL': 'pread:%s:%d:%d' % (os.path.join(a.root, d, sub), case['j'], EIO), 'VSHIM_LOG': log})
            self.stats['runs'] += 1
            txt = open(log, errors='replace').read() if os.path.exists(log) else ''
            if 'INJECTED-ERROR' not in txt:
                self.stats['not_injected'] += 1
                return
            self.stats['read_faults'] += 1
            written = [l for l in txt.split('\n') if ' pwrite ' in l and '.parity' in l and 'INJECTED' not in l]
            rep.update({'rc': r.rc, 'summary': r.summary(), 'parity_writes': len(written)})
            try:
                st2 = a.content()
                view = stripe_view(a, st2)
                healthy_new = [p for p in ref.enabled if view.get(p, {}).get('healthy')]
            except Exception:
                st2, healthy_new = None, []
            if r.rc == 0:
                chk.violation('prehash_exit', 'sync -h: EIO on pread %d of %s:%s during the pre-hash phase but exit status 0 (io_cache %d)' % (case['j'], d, sub, case['cache']), rep)
            elif not (r.tag('error:') or 'rror' in r.err):
                chk.violation('prehash_diag', 'sync -h: EIO during the pre-hash phase, failing status but no diagnostic', rep)
            elif written or healthy_new:
                chk.violation('prehash_synced', 'sync -h: EIO during the pre-hash phase but the sync phase ran (%d parity writes) / stripes %s recorded synced' % (len(written), healthy_new), rep)
            else:
                self.stats['satisfied'] += 1
            if self.model:
                out = run_lines(self.model, ['hashp %d %s' % (case['j'], ' '.join(['O'] * (case['j'] - 1) + ['I']))], shards=1)[0].split()
                if out[:1] == ['ok'] and ((out[1] == '1') != (r.rc != 0) or (out[2] == '1') != (not written)):
                    chk.violation('drift_prehash', 'MODEL-DRIFT: pre-hash model says failing=%s skip=%s, the binary: rc %d, %d parity writes' % (out[1], out[2], r.rc, len(written)), rep, no_input=True)
                elif out[:1] == ['ok']:
                    self.stats['model_compared'] += 1
            rs = a.run('sync')
            st3 = a.content()
            perr, _ = a.check_parity(st3)
            left = all_synced(a, st3)
            if rs.rc != 0 or perr or left:
                chk.violation('prehash_resume', 'after a failed `sync -h`, `sync` (rc %d) leaves stripes %s unsynced, parity errors %s' % (rs.rc, left, perr[:2]), rep)
        finally:
            drop(a)

    def scrub_combo_case(self, case):
        """an EIO on one disk AND a non-I/O error (the file of another disk removed since the sync) in the same stripe of one scrub:
        the stripe must still be marked bad (scrub.c:594-613: silent/io error wins over the generic error).
        case = dict(cache, eio=(disk, sub, j), removed=(disk, sub))"""
        scn, chk = self.scn, self.chk
        if len(chk.violations) > 8:
            return
        a = scn.build()
        rep = dict(case); rep.update(scn.describe())
        try:
            r = a.run('sync')
            st1 = a.content()
            d, sub, j = case['eio']
            lst = file_stripes(a, st1, d, sub)
            other = set(file_stripes(a, st1, *case['removed']))
            if j > len(lst) or lst[j - 1] not in other:
                return
            pos = lst[j - 1]
            os.unlink(a.path(*case['removed']))
            log = os.path.join(a.root, 'fault.log')
            r = a.run('scrub', '-p', 'full', '--test-io-cache', str(case['cache']),
                      shim_env={'VSHIM_FAIL': 'pread:%s:%d:%d' % (os.path.join(a.root, d, sub), j, EIO), 'VSHIM_LOG': log})
            self.stats['runs'] += 1
            if not (os.path.exists(log) and 'INJECTED-ERROR' in open(log, errors='replace').read()):
                self.stats['not_injected'] += 1
                return
            self.stats['scrub_faults'] += 1
            st2 = a.content()
            v = stripe_view(a, st2)[pos]
            rep.update({'rc': r.rc, 'summary': r.summary(), 'stripe': pos})
            if r.rc == 0:
                chk.violation('scrub_combo_exit', 'scrub: EIO on %s and a missing file on %s in stripe %d but exit status 0' % (d, case['removed'][0], pos), rep)
            if not (v['info'] and v['info']['bad']):
                chk.violation('scrub_combo_notbad', 'scrub: EIO on %s together with a file error (%s:%s removed) in stripe %d: the stripe is not marked bad (io_cache %d)' % (
                    d, case['removed'][0], case['removed'][1], pos, case['cache']), rep)
            elif int(a.run('status').summary().get('has_bad', 0) or 0) < 1:
                chk.violation('scrub_combo_status', 'scrub: stripe %d marked bad but status shows has_bad:0' % pos, rep)
            else:
                self.stats['satisfied'] += 1
            if self.model:
                i1 = st1['info'][pos]
                order = {m['name']: m['pos'] for m in st1['maps']}
                stripes1, _ = a.stripes(st1)
                dt = []
                for dp in range(a.nd):
                    blk = stripes1.get(pos, {}).get(dp)
                    isfile = blk is not None and blk[0] != 'DEL'
                    out = 'I' if order.get(d) == dp else ('E' if order.get(case['removed'][0]) == dp else 'O1')
                    dt += ['1', '0', '1' if isfile else '0', '0', '1' if isfile else '0', out]
                req = ['scrub1', '100', '0', '7', str(i1['time']), str(int(i1['bad'])), str(int(i1['rehash'])), str(int(i1['justsynced'])),
                       'D', str(a.nd)] + dt + ['L', str(a.np)] + ['P1'] * a.np
                out = run_lines(self.model, [' '.join(req)], shards=1)[0].split()
                if out[:1] == ['ok'] and v['info'] and (out[2] == '1') != bool(v['info']['bad']):
                    chk.violation('drift_scrub', 'MODEL-DRIFT: scrub stripe model says bad=%s, the binary recorded %s (EIO + file error in one stripe)' % (out[2], v['info']), rep, no_input=True)
                elif out[:1] == ['ok']:
                    self.stats['model_compared'] += 1
        finally:
            drop(a)

    def scrub_allfail_case(self, case):
        """every read of one data file fails with EIO, the file having a block in EVERY stripe of the array: no stripe of the scrub is
        clean.  The bad marks must nevertheless be SAVED (decode the content after the run); with -L the marks of the stripes
        processed before the limit too.  case = dict(cache, file=(disk, sub), limit or None)"""
        scn, chk = self.scn, self.chk
        if len(chk.violations) > 8:
            return
        a = scn.build()
        rep = dict(case); rep.update(scn.describe())
        try:
            a.run('sync')
            st1 = a.content()
            d, sub = case['file']
            lst = file_stripes(a, st1, d, sub)
            allst = sorted(p for p, v in stripe_view(a, st1).items() if v['hasfile'])
            if not lst or sorted(lst) != allst or len(lst) > 16:
                return
            spec = ','.join('pread:%s:%d:%d' % (os.path.join(a.root, d, sub), k, EIO) for k in range(1, len(lst) + 1))
            opts = ['-L', str(case['limit'])] if case.get('limit') else []
            r = a.run('scrub', '-p', 'full', '--test-io-cache', str(case['cache']), *opts, shim_env={'VSHIM_FAIL': spec})
            self.stats['runs'] += 1
            self.stats['scrub_faults'] += 1
            st2 = a.content()
            view = stripe_view(a, st2)
            bad = [p for p in allst if view[p]['info'] and view[p]['info']['bad']]
            lim = case.get('limit')
            # without a limit every stripe is marked; with -L n the run stops AT the n-th error: the n-1 stripes before it are marked
            expect = allst if not lim else allst[:lim - 1]
            rep.update({'rc': r.rc, 'summary': r.summary(), 'bad_recorded': bad, 'expected_bad': expect})
            if r.rc == 0:
                chk.violation('scrub_allfail_exit', 'scrub with every read of %s:%s failing ends with exit status 0' % (d, sub), rep)
            if [p for p in expect if p not in bad]:
                chk.violation('scrub_allfail_notsaved', 'scrub%s with every read of %s:%s failing (no clean stripe): the content file records stripes %s as bad, expected %s (io_cache %d)' % (
                    ' -L %d' % lim if lim else '', d, sub, bad, expect, case['cache']), rep)
            elif int(a.run('status').summary().get('has_bad', 0) or 0) < len(expect):
                chk.violation('scrub_allfail_status', 'status shows fewer bad blocks than the %d stripes marked' % len(expect), rep)
            else:
                self.stats['satisfied'] += 1
        finally:
            drop(a)

    def scrub_case(self, case):
        """case = dict(cache, target=('data', disk, sub, j) | ('par', level, j), errno)"""
        scn, chk = self.scn, self.chk
        if len(chk.violations) > 8:
            return
        a = scn.build()
        rep = dict(case); rep.update(scn.describe())
        try:
            r = a.run('sync')
            if r.rc != 0:
                chk.violation('scrub_setup', 'clean sync failed: %r' % r, rep, no_input=True)
                return
            st1 = a.content()
            stripes = sorted(p for p, v in stripe_view(a, st1).items() if v['hasfile'])
            t = case['target']
            if t[0] == 'data':
                spec = 'pread:%s:%d:%d' % (os.path.join(a.root, t[1], t[2]), t[3], case['errno'])
                lst = file_stripes(a, st1, t[1], t[2])
            elif t[0] == 'open':
                # the open of a data file fails: EIO is fatal for scrub (TASK_STATE_IOERROR), anything else is a file error
                spec = 'open:%s:1:%d' % (os.path.join(a.root, t[1], t[2]), case['errno'])
                lst = file_stripes(a, st1, t[1], t[2])
            elif t[0] == 'parset':
                # the parity reads of SEVERAL (or one of several) levels fail at the same stripe
                spec = ','.join('pread:%s:%d:%d' % (parity_sub(l), t[2], case['errno']) for l in t[1])
                lst = stripes
            else:
                spec = 'pread:%s:%d:%d' % (parity_sub(t[1]), t[2], case['errno'])
                lst = stripes
            j = t[-1] if t[0] != 'open' else 1
            pos = lst[j - 1] if j <= len(lst) else None
            if case.get('prebad') and pos is not None:
                # the stripe is already marked bad: an earlier scrub met an EIO on a data read there (the data is fine)
                stripes0, _ = a.stripes(st1)
                cand = [(b[1], b[2]['sub'].decode('latin1'), b[3]) for dp, b in sorted(stripes0.get(pos, {}).items()) if b[0] == 'BLK']
                if not cand:
                    return
                d0, sub0, idx0 = cand[0]
                a.run('scrub', '-p', 'full', shim_env={'VSHIM_FAIL': 'pread:%s:%d:%d' % (os.path.join(a.root, d0, sub0), idx0 + 1, EIO)})
                st1 = a.content()
                if not (st1['info'][pos] and st1['info'][pos]['bad']):
                    self.stats['not_injected'] += 1
                    return
            if case.get('touched') and t[0] == 'data':
                # the file has a new time stamp since the sync (an unsynced file for scrub: is_timestamp_different)
                pth = a.path(t[1], t[2])
                os.utime(pth, ns=(T0 + 777 * 10**9, T0 + 777 * 10**9))
                a.note_version(t[1], t[2])
            log = os.path.join(a.root, 'fault.log')
            lopts = ['-L', str(case['limit'])] if case.get('limit') else []
            r = a.run('scrub', '-p', 'full', '--test-io-cache', str(case['cache']), *lopts, shim_env={'VSHIM_FAIL': spec, 'VSHIM_LOG': log})
            injected = open(log, errors='replace').read().count('INJECTED-ERROR') if os.path.exists(log) else 0
            if t[0] == 'open':
                injected = 1 if r.rc != 0 else 0
            self.stats['runs'] += 1
            if injected == 0 or pos is None:
                self.stats['not_injected'] += 1
                return
            self.stats['scrub_faults'] += 1
            st2 = a.content()
            view = stripe_view(a, st2)
            v = view[pos]
            rep.update({'rc': r.rc, 'summary': r.summary(), 'stripe': pos})
            diag = bool(r.tag('error:') or r.tag('parity_error:'))
            if r.rc == 0 or not diag:
                chk.violation('scrub_exit', 'scrub: read error (errno %d) at stripe %d but exit status %d / diagnostic %s' % (case['errno'], pos, r.rc, diag), rep)
            soft_eio = case['errno'] == EIO and t[0] != 'open' and not case.get('limit')
            if soft_eio and not (v['info'] and v['info']['bad']):
                chk.violation('scrub_notbad', 'scrub: EIO at stripe %d (%s) but the stripe is not marked bad' % (pos, t), rep)
            n_inj = len(t[1]) if t[0] == 'parset' else 1
            if soft_eio and r.summary().get('error_io') != str(n_inj):
                chk.violation('scrub_count', 'scrub: %d EIO injected but summary:error_io is %s' % (n_inj, r.summary().get('error_io')), rep)
            # the stripe must not have been refreshed as scrubbed now
            i1 = st1['info'][pos]
            if v['info'] and i1 and v['info']['time'] != i1['time']:
                chk.violation('scrub_refreshed', 'scrub: read error at stripe %d but its scrub time was refreshed' % pos, rep)
            # the other stripes: processed (time refreshed or kept, not bad)
            for p in (stripes if (soft_eio or (case['errno'] != EIO and t[0] != 'open')) else []):
                if p != pos and (view[p]['info'] is None or view[p]['info']['bad'] or not view[p]['allblk']):
                    chk.violation('scrub_others', 'scrub with a fault at stripe %d: stripe %d is left %s' % (pos, p, view[p]), rep)
                    break
            # ---- the scrub-stripe model on the same outcome
            if self.model and soft_eio and not case.get('touched'):
                order = {m['name']: m['pos'] for m in st1['maps']}
                stripes1, _ = a.stripes(st1)
                dt = []
                for dp in range(a.nd):
                    blk = stripes1.get(pos, {}).get(dp)
                    isfile = blk is not None and blk[0] != 'DEL'
                    out = 'I' if (t[0] == 'data' and order.get(t[1]) == dp) else 'O1'
                    dt += ['1', '1' if (blk is not None and blk[0] != 'BLK') else '0', '1' if isfile else '0', '0', '1' if (isfile and blk[0] in ('BLK', 'REP')) else '0', out]
                pl = ['I' if ((t[0] == 'par' and t[1] == l) or (t[0] == 'parset' and l in t[1])) else 'P1' for l in range(a.np)]
                req = ['scrub1', '100', '0', '7', str(i1['time'] if i1 else 0), str(int(i1['bad']) if i1 else 0), str(int(i1['rehash']) if i1 else 0),
                       str(int(i1['justsynced']) if i1 else 0), 'D', str(a.nd)] + dt + ['L', str(a.np)] + pl
                out = run_lines(self.model, [' '.join(req)], shards=1)[0].split()
                if out[:1] != ['ok']:
                    chk.violation('model_error', 'scrub model failed: %s' % ' '.join(out)[:200], {'request': ' '.join(req)}, no_input=True)
                else:
                    mtime, mbad, mbail, mnerr, mnio = int(out[1]), out[2] == '1', out[5] == '1', int(out[6]), int(out[8])
                    real_t = (v['info']['time'], v['info']['bad'], str(mnio), str(mnerr)) if v['info'] else None
                    if mbail or real_t != (mtime, mbad, r.summary().get('error_io'), r.summary().get('error_file')):
                        chk.violation('drift_scrub', 'MODEL-DRIFT: scrub stripe model (time %d bad %s nio %d nerr %d bail %s) differs from the binary (%s, summary %s)' % (
                            mtime, mbad, mnio, mnerr, mbail, v['info'], r.summary()), rep, no_input=True)
                    else:
                        self.stats['model_compared'] += 1
            rstat = a.run('status')
            if soft_eio and int(rstat.summary().get('has_bad', 0) or 0) < 1:
                chk.violation('scrub_status', 'scrub: EIO at stripe %d but status shows has_bad:%s' % (pos, rstat.summary().get('has_bad')), rep)
            rf = a.run('fix', '-e')
            rb = a.run('scrub', '-p', 'bad')
            st3 = a.content()
            left = all_synced(a, st3)
            perr, _ = a.check_parity(st3)
            if rf.rc != 0 or rb.rc != 0 or left or perr:
                chk.violation('scrub_repair', 'after a scrub read fault, `fix -e` (rc %d) and `scrub -p bad` (rc %d) leave stripes %s bad, parity errors %s' % (rf.rc, rb.rc, left, perr[:2]), rep)
            else:
                self.stats['satisfied'] += 1
        finally:
            drop(a)

    def scrub_unsynced_case(self, case):
        """scrub over stripes that are NOT all synced (scrub.c: block_is_unsynced: a parity that differs is an expected, generic error there):
        an I/O error of the parity read must still be counted and mark the stripe bad, and a bad mark must survive a scrub that cannot
        verify the stripe.  case = dict(cache, mode, file=(disk, sub), which='first'|'last', level, errno)
          mode 'touch'    : full sync; the file gets a new time stamp (same bytes); scrub -p full, parity read of a stripe of the file fails
          mode 'chg'      : full sync; the file is rewritten (other bytes), a sync is killed before its first parity write (CHG blocks on
                            disk, parity still the old one); scrub -p full, parity read of a stripe of the file fails
          mode 'badtouch' : sync with a failing parity WRITE at a stripe of the file (the stripe is marked bad, its parity is stale); the
                            file gets a new time stamp; `scrub -p bad` without any fault: the bad mark has to stay, the exit status fail"""
        scn, chk = self.scn, self.chk
        if len(chk.violations) > 8:
            return
        a = scn.build()
        rep = dict(case); rep.update(scn.describe())
        mode, (d, sub), lev = case['mode'], case['file'], case['level']
        try:
            spec = None
            if mode == 'badtouch':
                post_scan(a)
                st0 = a.content()
                lst = [p for p in file_stripes(a, st0, d, sub) if p in self.ref.written.get(lev, [])]
                if not lst:
                    return
                pos = lst[0] if case['which'] == 'first' else lst[-1]
                jw = self.ref.written[lev].index(pos) + 1
                r = a.run('sync', '--test-io-cache', str(case['cache']), shim_env={'VSHIM_FAIL': 'pwrite:%s:%d:%d' % (parity_sub(lev), jw, case['errno'])})
                st1 = a.content()
                i1 = st1['info'][pos] if pos < len(st1['info']) else None
                if r.rc == 0 or not (i1 and i1['bad']):
                    # judged by the write-fault family; here only a precondition
                    self.stats['not_injected'] += 1
                    return
            else:
                r = a.run('sync')
                if r.rc != 0:
                    chk.violation('scrub_setup', 'clean sync failed: %r' % r, rep, no_input=True)
                    return
                st1 = a.content()
                lst = file_stripes(a, st1, d, sub)
                if not lst:
                    return
                pos = lst[0] if case['which'] == 'first' else lst[-1]
            pth = a.path(d, sub)
            if mode == 'chg':
                old = open(pth, 'rb').read()
                a.write(d, sub, det_bytes('%s/%s/chg' % (d, sub), len(old)), mtime_ns=T0 + 555 * 10**9)
                post_scan(a)
                st1 = a.content()
                if pos >= len(st1['info']) or not st1['info'][pos]:
                    return
            else:
                os.utime(pth, ns=(T0 + 777 * 10**9, T0 + 777 * 10**9))
                a.note_version(d, sub)
            view1 = stripe_view(a, st1)
            scrubbed = sorted(p for p, v in view1.items() if v['hasfile'] and v['info'])
            if pos not in scrubbed:
                return
            perr1, _ = a.check_parity(st1)
            log = os.path.join(a.root, 'fault.log')
            if mode == 'badtouch':
                r = a.run('scrub', '-p', 'bad', '--test-io-cache', str(case['cache']), shim_env={'VSHIM_LOG': log})
            else:
                spec = 'pread:%s:%d:%d' % (parity_sub(lev), scrubbed.index(pos) + 1, case['errno'])
                r = a.run('scrub', '-p', 'full', '--test-io-cache', str(case['cache']), shim_env={'VSHIM_FAIL': spec, 'VSHIM_LOG': log})
                if not (os.path.exists(log) and 'INJECTED-ERROR' in open(log, errors='replace').read()):
                    self.stats['runs'] += 1
                    self.stats['not_injected'] += 1
                    return
            self.stats['runs'] += 1
            self.stats['scrub_faults'] += 1
            st2 = a.content()
            v = stripe_view(a, st2)[pos]
            sm = r.summary()
            i1 = st1['info'][pos]
            rep.update({'rc': r.rc, 'summary': sm, 'stripe': pos, 'info_before': i1, 'info_after': v['info']})
            what = {'touch': 'a file of the stripe has a new time stamp', 'chg': 'the stripe has CHG blocks (interrupted sync)',
                    'badtouch': 'the stripe is marked bad after a failed parity write, then a file of it got a new time stamp'}[mode]
            if mode == 'badtouch':
                stale = [e for e in a.check_parity(st2)[0] if e.startswith('stripe %d ' % pos)]
                if not (v['info'] and v['info']['bad']):
                    chk.violation('scrub_unsynced_badcleared', 'scrub -p bad (rc %d): %s: the bad mark of stripe %d is CLEARED although its parity was not verified (parity stale: %s, io_cache %d)' % (
                        r.rc, what, pos, bool(stale), case['cache']), rep)
                elif r.rc == 0:
                    chk.violation('scrub_unsynced_exit', 'scrub -p bad: %s: exit status 0 although stripe %d could not be verified' % (what, pos), rep)
                else:
                    self.stats['satisfied'] += 1
            else:
                ok = True
                if r.rc == 0:
                    ok = False
                    chk.violation('scrub_unsynced_exit', 'scrub: EIO reading parity level %d at stripe %d (%s): exit status 0' % (lev, pos, what), rep)
                if case['errno'] == EIO and sm.get('error_io') != '1':
                    ok = False
                    chk.violation('scrub_unsynced_count', 'scrub: one EIO injected on the parity read of stripe %d (%s) but summary:error_io is %s' % (pos, what, sm.get('error_io')), rep)
                if case['errno'] == EIO and not (v['info'] and v['info']['bad']):
                    ok = False
                    chk.violation('scrub_unsynced_notbad', 'scrub: EIO reading parity level %d at stripe %d (%s): the stripe is not marked bad (io_cache %d)' % (lev, pos, what, case['cache']), rep)
                if v['info'] and i1 and v['info']['time'] != i1['time']:
                    ok = False
                    chk.violation('scrub_refreshed', 'scrub: parity read error at stripe %d (%s) but its scrub time was refreshed' % (pos, what), rep)
                if ok:
                    self.stats['satisfied'] += 1
            # ---- the scrub-stripe model on the same stripe
            if self.model and case['errno'] == EIO:
                order = {m['name']: m['pos'] for m in st1['maps']}
                stripes1, _ = a.stripes(st1)
                dt = []
                for dp in range(a.nd):
                    blk = stripes1.get(pos, {}).get(dp)
                    if blk is None:
                        dt += ['0', '0', '0', '0', '0', 'O1']
                        continue
                    isfile = blk[0] != 'DEL'
                    ts = mode != 'chg' and isfile and order.get(d) == dp and blk[2]['sub'].decode('latin1') == sub
                    dt += ['1', '1' if blk[0] != 'BLK' else '0', '1' if isfile else '0', '1' if ts else '0', '1' if (isfile and blk[0] in ('BLK', 'REP')) else '0', 'O1']
                stale1 = {l for l in range(a.np) if any(e.startswith('stripe %d ' % pos) and ('level %d' % l in e or 'parity %d' % l in e) for e in perr1)}
                if any(e.startswith('stripe %d ' % pos) for e in perr1) and not stale1:
                    stale1 = set(range(a.np)) if mode == 'chg' else {lev}
                pl = [('I' if (mode != 'badtouch' and l == lev) else ('P0' if l in stale1 else 'P1')) for l in range(a.np)]
                req = ['scrub1', '100', '0', '7', str(i1['time']), str(int(i1['bad'])), str(int(i1['rehash'])), str(int(i1['justsynced'])),
                       'D', str(a.nd)] + dt + ['L', str(a.np)] + pl
                out = run_lines(self.model, [' '.join(req)], shards=1)[0].split()
                if out[:1] != ['ok']:
                    chk.violation('model_error', 'scrub model failed: %s' % ' '.join(out)[:200], {'request': ' '.join(req)}, no_input=True)
                else:
                    mtime, mbad, mbail, mnerr, mnio = int(out[1]), out[2] == '1', out[5] == '1', int(out[6]), int(out[8])
                    real_t = (v['info']['time'], bool(v['info']['bad'])) if v['info'] else None
                    cnt_ok = mode == 'chg' or (sm.get('error_io'), sm.get('error_file')) == (str(mnio), str(mnerr))
                    if mbail or real_t != (mtime, mbad) or not cnt_ok or (mode == 'chg' and sm.get('error_io') != str(mnio)):
                        chk.violation('drift_scrub', 'MODEL-DRIFT: scrub stripe model (time %d bad %s nio %d nerr %d bail %s) differs from the binary (%s, summary %s) on a not fully synced stripe (%s)' % (
                            mtime, mbad, mnio, mnerr, mbail, v['info'], sm, mode), dict(rep, request=' '.join(req)), no_input=True)
                    else:
                        self.stats['model_compared'] += 1
        finally:
            drop(a)


def sync_cases(ref, scn, caches, quick, rng):
    cases = []
    files = sorted(ref.files)
    for cache in caches:
        for (d, sub) in files:
            n = len(ref.files[(d, sub)])
            for j in range(1, n + 1):
                cases.append({'cache': cache, 'faults': [('rd', (d, sub), j, EIO)]})
        for lev in range(scn.np):
            n = len(ref.written.get(lev, []))
            for j in range(1, n + 1):
                for errno in (EIO, ENOSPC, SHORT):
                    cases.append({'cache': cache, 'faults': [('wr', lev, j, errno)]})
    # the default cache depth (no --test-io-cache: 16 MiB / block size capped at IO_MAX = 128)
    for (d, sub) in files[:1]:
        cases.append({'cache': 128, 'default_cache': True, 'faults': [('rd', (d, sub), 2, EIO)]})
        cases.append({'cache': 128, 'default_cache': True, 'faults': [('wr', 0, 2, EIO)]})
    # error limit and several faults per run
    if files:
        (d, sub) = files[0]
        n = len(ref.files[(d, sub)])
        if n >= 4:
            for cache in (caches[0], caches[-1]):
                cases.append({'cache': cache, 'limit': 2, 'faults': [('rd', (d, sub), 1, EIO), ('rd', (d, sub), 3, EIO)]})
                cases.append({'cache': cache, 'limit': 1, 'faults': [('rd', (d, sub), 2, EIO)]})
                cases.append({'cache': cache, 'limit': 3, 'faults': [('rd', (d, sub), 1, EIO), ('rd', (d, sub), 3, EIO)]})
                cases.append({'cache': cache, 'faults': [('rd', (d, sub), 2, EIO), ('rd', files[-1], 2, EIO), ('rd', (d, sub), n, EIO)]})
                # the error limit reached through parity WRITE errors (sync.c: DANGER! Unexpected input/output write error)
                cases.append({'cache': cache, 'limit': 1, 'faults': [('wr', 0, 2, EIO)]})
                cases.append({'cache': cache, 'limit': 2, 'faults': [('wr', 0, 1, EIO), ('wr', 0, 3, EIO)]})
                cases.append({'cache': cache, 'limit': 2, 'faults': [('rd', (d, sub), 1, EIO), ('wr', 0, 3, EIO)]})
                # a non-EIO read error is fatal for sync (TASK_STATE_ERROR): still a failing status, nothing recorded synced
                cases.append({'cache': cache, 'faults': [('rd', (d, sub), 2, ENOSPC)]})
    return cases


def scrub_cases(ref, scn, caches, quick):
    cases = []
    for cache in caches:
        for (d, sub), _ in sorted(ref.files.items()):
            blocks = len([1 for f in ref.st_final['disks'][d]['files'] if f['sub'].decode('latin1') == sub for b in f['blocks']])
            js = range(1, blocks + 1)
            if quick:
                js = sorted({1, (blocks + 1) // 2, blocks} - {0})
            for j in js:
                cases.append({'cache': cache, 'target': ('data', d, sub, j), 'errno': EIO})
        for lev in range(scn.np):
            n = len(ref.scrub_stripes)
            js = range(1, n + 1) if not quick else sorted({1, (n + 1) // 2, n} - {0})
            for j in js:
                cases.append({'cache': cache, 'target': ('par', lev, j), 'errno': EIO})
    # coverage round: non-EIO read errors (ERROR_CONTINUE: counted, the stripe is neither refreshed nor marked), failing open,
    # the error limit reached on a parity read, a file with a new time stamp since the sync
    for cache in caches[:1] + caches[-1:]:
        fl = sorted(ref.files)
        for (d, sub) in fl[:2]:
            cases.append({'cache': cache, 'target': ('data', d, sub, 2), 'errno': ENOSPC})
            cases.append({'cache': cache, 'target': ('open', d, sub), 'errno': EIO})
            cases.append({'cache': cache, 'target': ('open', d, sub), 'errno': 13})
            cases.append({'cache': cache, 'target': ('data', d, sub, 2), 'errno': EIO, 'touched': True})
            cases.append({'cache': cache, 'target': ('data', d, sub, 2), 'errno': EIO, 'limit': 1})
        for lev in range(scn.np):
            cases.append({'cache': cache, 'target': ('par', lev, 2), 'errno': ENOSPC})
            cases.append({'cache': cache, 'target': ('par', lev, 2), 'errno': EIO, 'limit': 1})
    return cases


WITNESSES = [  # the vm_compute witnesses of coq/Fault/FaultProofs.v: 2 data disks x 8 blocks, one parity, all additions
    ('write_error_refuted_threaded_notlast', {'cache': 3, 'faults': [('wr', 0, 4, EIO)]}),
    ('write_error_last_recorded_synced', {'cache': 3, 'faults': [('wr', 0, 8, EIO)]}),
    ('write_error_refuted_mono_recorded_synced', {'cache': 1, 'faults': [('wr', 0, 4, EIO)]}),
]


def main(tier, replay=None):
    chk = Check('C08', tier, 'proof')
    snap = snapshot_repo()
    regen(snap)
    try:
        binary = build_tool(snap)
        shim = build_shim(snap)
    except BuildError as e:
        chk.violation('build', 'working tree does not build: ' + str(e)[:500], {'error': str(e)}, no_input=True)
        return chk.finish()
    ob = check_obligations('C08')
    proof_coverage(chk, ob, 'make -f Makefile.coq -k Props/Properties_C08*.vo (coqc 8.16.1) + Print Assumptions',
                   ['Coq 8.16.1 kernel', 'hand model coq/Array/{ArrayDefs,SyncModel}.v + coq/Fault/FaultModel.v (writer outcomes and io.c error accounting; the writer schedule is the parameter `lag`)',
                    'extraction + ocaml/C08/driver.ml', 'harness/py/{arraylib,modelbridge,content,gfref,c07_lib}.py (independent content decoder and parity checker)', 'harness/c/shim.c (fault injection)'])
    model = None
    try:
        model = build_model('Extract/Extract_C08.vo', 'ocaml/C08', 'c08_ext', 'driver.ml', 'model')
    except BuildError as e:
        chk.violation('model_build', 'the fault model does not build/extract: %s' % str(e)[-600:], {'error': str(e)[-3000:]}, no_input=True)
    quick = tier == 'quick'
    if quick:
        geos = [('fresh', 2, 1, [1, 3, 8, 128]), ('mixed', 3, 2, [3])]
    else:
        geos = [('fresh', 2, 1, [1, 3, 8, 128]), ('fresh', 3, 2, [1, 3, 8, 128]), ('mixed', 3, 2, [1, 3, 8, 128]), ('adds', 2, 2, [1, 3, 4, 128]),
                ('mixed', 2, 1, [1, 3, 5]), ('fresh', 4, 3, [1, 3, 128]), ('adds', 3, 1, [1, 8])]
    total = {'runs': 0, 'read_faults': 0, 'write_faults': 0, 'scrub_faults': 0, 'model_compared': 0, 'satisfied': 0, 'not_injected': 0}
    known = {KEY_SYNCED: 0, KEY_LAST: 0, KEY_MONO: 0}
    lag_seen = {}
    samples = []
    geosum = []
    for gi, (name, nd, np_, caches) in enumerate(geos):
        scn = Scn(binary, shim, name, nd, np_)
        try:
            R = Runner(chk, scn, model)
        except Exception as e:
            chk.violation('setup', 'scenario %s nd=%d np=%d cannot be prepared: %s' % (name, nd, np_, e), {'scenario': name}, no_input=True)
            continue
        sc = sync_cases(R.ref, scn, caches, quick, chk.rng)
        if not quick:
            # random multi-fault runs
            files = sorted(R.ref.files)
            for _ in range(20):
                fl = []
                for _ in range(chk.rng.randint(2, 3)):
                    if chk.rng.random() < 0.5 and files:
                        f = chk.rng.choice(files)
                        if R.ref.files[f]:
                            fl.append(('rd', f, chk.rng.randint(1, len(R.ref.files[f])), EIO))
                    else:
                        lev = chk.rng.randrange(np_)
                        fl.append(('wr', lev, chk.rng.randint(1, max(1, len(R.ref.written.get(lev, [1])))), chk.rng.choice([EIO, ENOSPC, SHORT])))
                # one fault per call: the shim applies the last matching specification
                seen, fl2 = set(), []
                for f in fl:
                    if (f[0], f[1], f[2]) not in seen:
                        seen.add((f[0], f[1], f[2])); fl2.append(f)
                if fl2:
                    sc.append({'cache': chk.rng.choice(caches), 'faults': fl2})
        pmap(R.sync_case, sc)
        scc = scrub_cases(R.ref, scn, [caches[0], caches[-1]] if quick else caches, quick) if (gi == 0 or not quick) else []
        pmap(R.scrub_case, scc)
        if gi == 0 or not quick:
            fl = sorted(R.ref.files)
            combo, allf = [], []
            for cache in ([caches[0], caches[-1]] if quick else caches):
                for (d, sub) in fl:
                    nblk_f = len(file_stripes(None, R.ref.st_final, d, sub))
                    others = [f for f in fl if f[0] != d]
                    for j in sorted({1, (nblk_f + 1) // 2, nblk_f} - {0}) if quick else range(1, nblk_f + 1):
                        for o in others[:1 if quick else 2]:
                            combo.append({'cache': cache, 'eio': (d, sub, j), 'removed': o})
                    allf.append({'cache': cache, 'file': (d, sub), 'limit': None})
                    allf.append({'cache': cache, 'file': (d, sub), 'limit': 3})
            pmap(R.scrub_allfail_case, allf)
            pmap(R.scrub_combo_case, combo)
            # scrub over stripes that are not fully synced x parity read EIO; a bad mark (failed parity write) followed by a touch and scrub -p bad
            uns = []
            for cache in ([caches[0], caches[-1]] if quick else caches):
                for (d, sub) in (fl[:2] if quick else fl):
                    for lev in range(scn.np):
                        for which in ('first', 'last'):
                            for mode in ('touch', 'chg', 'badtouch'):
                                uns.append({'cache': cache, 'mode': mode, 'file': (d, sub), 'which': which, 'level': lev, 'errno': EIO})
            pmap(R.scrub_unsynced_case, uns)
            scc_uns = uns
        # ---- other fault families (coverage round): judged by the generic "no false protection" oracle
        if gi == 0 or not quick:
            mc = []
            fl = sorted(R.ref.files)
            newf = [f for f in fl if f[1] in ('f', 'n')]
            cs = [caches[0], caches[-1]] if quick else caches
            for cache in cs:
                for (d, sub) in [f for f in fl if R.ref.files[f]][:2 if quick else None]:       # files the sync has to read
                    tgt = '{root}/%s/%s' % (d, sub)
                    for en, eno in (('EIO', 5), ('EACCES', 13), ('ENOENT', 2)):
                        mc.append({'name': 'open of %s:%s fails with %s' % (d, sub, en), 'cache': cache, 'fail': ['open:%s:1:%d' % (tgt, eno)], 'hit': R.ref.files[(d, sub)][:1]})
                        if (d, sub) in newf:
                            mc.append({'name': 'sync -h: open of %s:%s fails with %s' % (d, sub, en), 'cache': cache, 'opts': ['-h'], 'fail': ['open:%s:1:%d' % (tgt, eno)]})
                    if (d, sub) in newf:
                        mc.append({'name': 'sync -h: pread 2 of %s:%s fails with ENOSPC (non-EIO)' % (d, sub), 'cache': cache, 'opts': ['-h'], 'fail': ['pread:%s:2:28' % tgt]})
                    mc.append({'name': 'time stamp of %s:%s changes between scan and sync' % (d, sub), 'cache': cache, 'pre': 'touch_during', 'file': (d, sub),
                               'hit': R.ref.files[(d, sub)][:1], 'data_changes': True, 'restore': 'touch', 'resync_opts': ['--force-empty']})
                    if (d, sub) in newf:
                        mc.append({'name': 'sync -h: time stamp of %s:%s changes between scan and hashing' % (d, sub), 'cache': cache, 'opts': ['-h'], 'pre': 'touch_during',
                                   'file': (d, sub), 'data_changes': True, 'restore': 'touch', 'resync_opts': ['--force-empty']})
                # failing resize of the parity file
                for spec, nm, may in (('fallocate:par0_:1:28', 'fallocate of the parity fails with ENOSPC', True), ('fallocate:par0_:1:95', 'fallocate of the parity is not supported', True),
                                      ('ftruncate:par0_:1:5', 'ftruncate of the parity fails with EIO', True), ('fallocate:par0_:1:5', 'fallocate of the parity fails with EIO', True)):
                    mc.append({'name': nm, 'cache': cache, 'fail': [spec], 'may_succeed': may})
                # write faults with an autosave: the reports are collected by the autosave's flush
                for lev in range(scn.np):
                    wr = R.ref.written.get(lev, [])
                    for j in (sorted({1, len(wr) // 2, len(wr)} - {0}) if quick else range(1, len(wr) + 1)):
                        for eno in ('5', '28', 'short=512'):
                            for at in sorted({wr[0], wr[len(wr) // 2], wr[-1]}):
                                if at == 0:
                                    continue
                                mc.append({'name': 'parity write %d of level %d fails (%s), autosave after stripe %d' % (j, lev, eno, at), 'cache': cache,
                                           'opts': ['--test-force-autosave-at', str(at)], 'fail': ['pwrite:%s:%d:%s' % (parity_sub(lev), j, eno)], 'hit': [wr[j - 1]]})
            pmap(R.misc_case, mc)
            sc = sc + mc
        # ---- read faults during the pre-hash phase of `sync -h`: every pread index of every file with blocks to sync
        ph = []
        for cache in ([caches[0], caches[-1]] if quick else caches):
            for (d, sub), lst in sorted(R.ref.files.items()):
                # the pre-hash phase reads the blocks that have no hash yet: the files the scan has just added (all blocks CHG)
                fl_ = [f for f in R.ref.st1['disks'][d]['files'] if f['sub'].decode('latin1') == sub]
                if not fl_ or not fl_[0]['blocks'] or any(b[0] != 'CHG' for b in fl_[0]['blocks']):
                    continue
                for j in range(1, len(fl_[0]['blocks']) + 1):
                    ph.append({'cache': cache, 'file': (d, sub), 'j': j})
        if gi == 0 or not quick:
            pmap(R.prehash_case, ph)
            sc = sc + ph
            scc = scc + combo + allf + scc_uns
        if gi == 0:
            # replay of the Coq witnesses, one-shot (no preliminary interrupted sync), judged by the same oracle
            for wname, case in WITNESSES:
                R.sync_case(dict(case, witness=wname))
        if gi == 0:
            # a synced array with additions pending: silent error repaired on the fly (sync reads the PARITY), copies that differ
            try:
                scn2 = Scn(binary, shim, 'adds', 2, 1)
                R2 = Runner(chk, scn2, model)
                sil = R2.ref.files.get(('d2', 'n'), [])
                m2 = []
                for cache in [caches[0], caches[-1]]:
                    for blk in (sil[:1] + sil[-1:]):
                        base = {'cache': cache, 'pre': 'silent', 'silent': ('d1', 'a', blk), 'hit': [blk], 'data_changes': True, 'expect_restored': ('d1', 'a')}
                        m2.append(dict(base, name='silent error in d1:a block %d, repaired on the fly by sync' % blk))
                        m2.append(dict(base, name='silent error in d1:a block %d, the parity read of the on-the-fly repair fails with EIO' % blk, fail=['pread:par0_:1:5']))
                        # a FATAL parity read error stops the run with the stripe unsynced (CHG, past hash ZERO on disk).  The next sync
                        # loads with clear_past_hash (ZERO -> INVALID), can no longer repair on the fly (two unknown blocks, one parity),
                        # marks the stripe bad, and `fix -e` then declares d1:a unrecoverable although parity + zeros would rebuild it.
                        # Two independent faults on a single-parity array after an interrupted sync: measured, reported, not judged
                        m2.append(dict(base, name='silent error in d1:a block %d, the parity read of the on-the-fly repair fails with ENOSPC' % blk, fail=['pread:par0_:1:28'],
                                       repair_measured=True))
                    for o in ([], ['-h']):
                        m2.append({'name': 'sync %s: d2:sub2/a has the name, size and time of d1:a but other bytes (false copy)' % ' '.join(o), 'cache': cache, 'opts': o,
                                   'pre': 'copy_mismatch', 'copy_of': ('d1', 'a'), 'to': 'd2', 'resync_opts': ['--force-nocopy'], 'data_changes': True})
                pmap(R2.misc_case, m2)
                for k in total:
                    total[k] += R2.stats[k]
                chk.cov['silent_error_plus_fatal_parity_read (measured, not judged)'] = R2.stats.get('measured', [])[:4]
            except Exception as e:
                chk.violation('setup', 'adds scenario for the on-the-fly repair cases cannot be prepared: %s' % e, {}, no_input=True)
        if gi == 0:
            # ---- scrub: parity read EIO on every non-empty SUBSET of the levels of a stripe (np = 2, 3), the stripe healthy or already
            # marked bad before: whatever the number of readable levels left, the stripe is marked bad, keeps its scrub time, every
            # failed read is counted, an earlier bad mark stays
            try:
                import itertools
                psc = []
                for (pnd, pnp, pcaches) in ([(3, 2, [1, 8]), (4, 3, [3])] if quick else [(3, 2, [1, 3, 8, 128]), (4, 3, [1, 3, 128]), (2, 2, [3])]):
                    scn4 = Scn(binary, shim, 'fresh', pnd, pnp)
                    R4 = Runner(chk, scn4, model)
                    nst = len(R4.ref.scrub_stripes)
                    sets = [ls for r_ in range(1, pnp + 1) for ls in itertools.combinations(range(pnp), r_)]
                    ps = [{'cache': c, 'target': ('parset', ls, j), 'errno': EIO, 'prebad': pb}
                          for c in pcaches for ls in sets for j in (sorted({1, nst}) if quick else sorted({1, (nst + 1) // 2, nst})) for pb in (False, True)]
                    pmap(R4.scrub_case, ps)
                    psc += ps
                    for k in total:
                        total[k] += R4.stats[k]
                chk.cov['scrub_parity_read_eio_level_subsets'] = {'runs': len(psc), 'rule': 'every non-empty subset of the parity levels (np 2 and 3) x first/last scrubbed stripe x stripe healthy / already bad'}
            except Exception as e:
                chk.violation('setup', 'scrub parity-subset scenario cannot be prepared: %s' % e, {}, no_input=True)
        if gi == 0:
            # ---- write faults collected while the loop visits stripes that need NO parity update (io_write_next with skip set): one
            # stripe really changes, every later one only has a file re-saved with the same bytes.  One-shot runs (scan + sync in the
            # same process: the past hashes are still known); the writer error must be reported whatever the cache depth
            try:
                skc = []
                for (snd, snp, snblk, scaches) in ([(2, 1, 8, [3, 8])] if quick else [(2, 1, 8, [1, 3, 4, 8, 128]), (3, 2, 12, [3, 8]), (2, 1, 140, [128])]):
                    scn3 = Scn(binary, shim, 'touchskip', snd, snp, nblk=snblk)
                    R3 = Runner(chk, scn3, model, oneshot=True)
                    nwr = {lev: len(w) for lev, w in R3.ref.written.items()}
                    skipped = [p for p in R3.ref.enabled if p not in R3.ref.written.get(0, [])]
                    if len(skipped) < snblk or any(n != 1 for n in nwr.values()):
                        chk.violation('setup', 'touchskip scenario: expected ONE written stripe and %d visited without parity update, got writes %s, enabled %s' % (snblk, R3.ref.written, R3.ref.enabled), {}, no_input=True)
                        continue
                    sk = [{'cache': c, 'oneshot': True, 'faults': [('wr', lev, 1, eno)]} for c in scaches for lev in range(snp) for eno in (EIO, ENOSPC, SHORT)]
                    if snblk < 100:
                        sk += [{'cache': c, 'oneshot': True, 'limit': 1, 'faults': [('wr', 0, 1, EIO)]} for c in scaches[:2]]
                    pmap(R3.sync_case, sk)
                    skc += sk
                    for k in total:
                        total[k] += R3.stats[k]
                    for k, v in R3.stats['lag_seen'].items():
                        lag_seen[k] = lag_seen.get(k, 0) + v
                chk.cov['write_fault_then_no_update_stripes'] = {'runs': len(skc), 'rule': 'touchskip: parity write 1 of each level fails (EIO, ENOSPC, short count), the remaining visited stripes need no parity update; io_cache %s' % ('3, 8' if quick else '1, 3, 4, 8, 128')}
            except Exception as e:
                chk.violation('setup', 'touchskip scenario cannot be prepared: %s' % e, {}, no_input=True)
        for k in total:
            total[k] += R.stats[k]
        for k in known:
            known[k] += R.stats['known'][k]
        for k, v in R.stats['lag_seen'].items():
            lag_seen[k] = lag_seen.get(k, 0) + v
        samples += R.samples[:2]
        geosum.append({'scenario': name, 'nd': nd, 'np': np_, 'io_cache': caches, 'enabled_stripes': R.ref.enabled, 'sync_cases': len(sc), 'scrub_cases': len(scc)})
        if len(chk.violations) > 8:
            break
    chk.cov.update({'evaluations': total['runs'], 'distinct_nontrivial': total['read_faults'] + total['write_faults'] + total['scrub_faults'],
                    'rule': 'one real sync/scrub per (geometry, io_cache, failing call): EVERY pread index of every data file and EVERY pwrite index of every parity level (EIO and ENOSPC) of the sync, first/middle/last (quick) or every (thorough) pread of data and parity files of a full scrub; error-limit and multi-fault runs; non-trivial = runs in which the shim really injected the error',
                    'geometries': geosum, 'faults': total, 'known_finding_hits': known, 'writer_schedule_lag_matched_by_model': lag_seen,
                    'traces_validated_against_impl': total['model_compared'], 'witnesses_replayed': [w for w, _ in WITNESSES]})
    chk.cov['samples'] = samples
    if ob['failed'] and not chk.violations:
        chk.violation('obligation', 'proof obligation of C08 no longer checks: %s' % ob['failed'][0],
                      {'theorem_file': 'coq/Props/Properties_C08.v', 'failed': ob['failed'], 'log_tail': ob['log'][-1500:]}, no_input=True)
    chk.assumptions += ['exercised by the oracle only (outside the Coq model): failing open (EIO/EACCES/ENOENT) in sync, sync -h and scrub; non-EIO read errors of the pre-hash phase and of scrub; a file changed between scan and sync (--test-run); a false copy (REP blocks) with and without -h; a silent error repaired on the fly by sync with a failing parity read; parity write faults combined with an autosave (the flush inside the autosave); failing fallocate/ftruncate of the parity; the default cache depth',
                        'never reached, by choice: close() errors, fsync errors, rehash in progress (prevhash), the size-based autosave (needs GBs), Windows / direct-io branches, internal-inconsistency aborts',
                        'the shim makes the call fail without side effect (a failed pwrite writes nothing); real devices may fail after a partial transfer',
                        'writer scheduling is the model parameter `lag` (1 <= lag <= io_cache-1): the check accepts any admissible lag; which one occurs is timing dependent',
                        'parity reads of sync (on-the-fly repair of silent errors) are not fault-injected; rehash/prehash not modelled']
    return chk.finish()
