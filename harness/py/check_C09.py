"""C09 - Damaged content files are rejected; content replacement is atomic.

Every run:  snapshot + build of the working tree (plain and ASan+UBSan binary, LD_PRELOAD shim) -> regenerate coq/Gen ->
re-check the obligations of Props/Properties_C09*.v -> regression corpus (the three repaired defects first) -> damaged-copy
sweeps on the real binary (every truncation, every single bit, byte substitutions, random multi-byte damage; several
commands; with and without configuration file; one/two content copies) with an independent byte snapshot of the array ->
kill points inside save-verify-rename with 1..n content copies -> verdict + evidence."""
import os, sys, json, glob, shutil, time, struct
from common import (VERIF, NCPU, snapshot_repo, build_tool, regen, check_obligations, proof_coverage, Check, BuildError,
                    mkscratch, run, build_model, run_lines)
import c09_lib as L
import c09_kill as K
import c09_fields as F

MAX_REPORT = 12
# theorems of Properties_C09.v that are stated for every loader of the shape Content.LoaderModel.loader with regular, EOF-strict
# record parsers (generic form).  Their instances for Codec.CodecModel.decode are NOT obtained by instantiation: they are proved
# directly and unconditionally in Properties_C09_codec.v (C09_decode_sealed / _alteration_rejected / _truncation_rejected).
CONDITIONAL = ['C09_accept_sealed', 'C09_truncation_rejected', 'C09_alteration_rejected', 'C09_single_bit_rejected']


def materialise(d, conf, content):
    os.makedirs(d, exist_ok=True)
    for l in conf.splitlines():
        w = l.split()
        if len(w) == 3 and w[0] in ('data', 'disk'):
            os.makedirs(os.path.join(d, w[2]), exist_ok=True)
        if len(w) == 2 and w[0] == 'content':
            os.makedirs(os.path.dirname(os.path.join(d, w[1])), exist_ok=True)
    with open(os.path.join(d, 'conf'), 'w') as f:
        f.write(conf)
    with open(os.path.join(d, 'content'), 'wb') as f:
        f.write(content)


def run_case(binary, sanitize, d, r, timeout=60):
    return L.run_tool(binary, r['args'], d, L.tool_env(sanitize=sanitize), timeout, flags=not r.get('noflags'))


def corpus_cases(chk, tool, asan, work, stats):
    """regression cases first: each must be refused cleanly by both binaries; the valid twin (when given) must load, which shows
    that the case still is a small alteration of a live file and not rejected for an unrelated reason"""
    n = 0
    for p in sorted(glob.glob(os.path.join(VERIF, 'corpus', 'C09', '*.json'))):
        c = json.load(open(p))
        d = os.path.join(work, 'corpus_' + c['name'])
        content = bytes.fromhex(c['content_hex'])
        materialise(d, c['conf'], content)
        snap0 = L.snapshot_tree(d)
        for binary, san in ((tool, False), (asan, True)):
            for r in c['runs']:
                rc, out = run_case(binary, san, d, r)
                n += 1
                why = L.judge(rc, out)
                if why is not None:
                    chk.violation('corpus_' + c['name'], 'regression case %s (%s) is not refused cleanly by `snapraid %s`%s: %s' % (
                        c['name'], c.get('finding_key'), ' '.join(r['args']), ' (ASan build)' if san else '', why),
                        dict(corpus_file=p, conf=c['conf'], content_hex=c['content_hex'], args=r['args'], noflags=r.get('noflags', False),
                             sanitize=san, rc=rc, output=out[-1500:].decode(errors='replace'), known_findings_line=c.get('known_findings_line')))
                    break
        d2 = L.snapshot_diff(snap0, L.snapshot_tree(d))
        if d2:
            chk.violation('corpus_mod_' + c['name'], 'regression case %s: the refused commands modified files: %s' % (c['name'], d2[:3]),
                          dict(corpus_file=p, diff=d2))
        if 'valid_twin_hex' in c:
            with open(os.path.join(d, 'content'), 'wb') as f:
                f.write(bytes.fromhex(c['valid_twin_hex']))
            rc, out = run_case(tool, False, d, c['runs'][0])
            n += 1
            if rc != 0:
                chk.notes.append('corpus %s: the valid twin is no longer accepted (rc=%r); the case has lost its meaning for this tree' % (c['name'], rc))
            else:
                stats['corpus_valid_twins_accepted'] = stats.get('corpus_valid_twins_accepted', 0) + 1
        stats.setdefault('corpus', []).append(c['name'])
    return n


WRAP_KEY = 'F-C09-wrapped-run-count-long-loop'


def wrapped_count_class(m, why):
    """exactly the open finding: an integer field set to >= 0xFFFFFFFE, the loader neither crashes nor reports a sanitizer error but
    does not stop within the time limit, or asks for an unbounded amount of memory"""
    return (len(m) > 2 and isinstance(m[2], str) and m[2].startswith('integer field') and any(x in m[2] for x in (': 0xFFFFFFFF', ': 0xFFFFFFFE')) and
            (why.startswith('hang') or why.startswith('unbounded allocation')))


def report_bad(chk, counter, tag, spec, conf, base, bad, cmd, mode, san):
    for m, why, rc, out in bad:
        if wrapped_count_class(m, why):
            damaged = L.apply_mut(base, m)
            chk.violation('wrapcount_%s' % spec['name'], 'shape %s, %s: %s' % (spec['name'], m[2], why),
                          dict(shape=spec, conf=conf, mutant=L.describe(m), content_hex=damaged.hex(), args=(['-C', 'content'] if mode == 'noconf' else ['-c', 'conf'] + (cmd or [])),
                               noflags=(mode == 'noconf'), sanitize=san, rc=rc), finding_key=WRAP_KEY)
            chk.cov.setdefault('known_finding_wrapped_count_cases', 0)
            chk.cov['known_finding_wrapped_count_cases'] += 1
            continue
        if counter[0] >= MAX_REPORT:
            return
        counter[0] += 1
        damaged = L.apply_mut(base, m)
        args = ['-C', 'content'] if mode == 'noconf' else ['-c', 'conf'] + cmd
        chk.violation('%s_%s' % (tag, spec['name']),
                      'damaged content file (%s of the %d-byte file of shape %s) given to `snapraid %s`%s: %s' % (
                          L.describe(m), len(base), spec['name'], ' '.join(args), ' (ASan+UBSan build)' if san else '', why),
                      dict(shape=spec, conf=conf, mutant=L.describe(m), valid_content_hex=base.hex(), content_hex=damaged.hex(), args=args,
                           noflags=(mode == 'noconf'), sanitize=san, rc=rc, output=out, seal_still_valid=L.seal_ok(damaged)))


def merge(dst, src):
    for k, v in src.items():
        dst[k] = dst.get(k, 0) + v


def damaged_sweeps(chk, tool, asan, model_exe, work, tier, stats):
    quick = tier == 'quick'
    rng = chk.rng
    counter = [0]
    total_runs = 0
    distinct = 0
    classes = {}
    per_shape = []
    for si, spec in enumerate(L.SHAPES):
        root = os.path.join(work, 'arr_' + spec['name'])
        try:
            base = L.make_array(tool, root, spec, rng)
        except L.ArrayError as e:
            chk.violation('array_' + spec['name'], 'the working tree cannot build the tiny array %s: %s' % (spec['name'], str(e)[:400]), dict(shape=spec, error=str(e)))
            continue
        if not L.seal_ok(base):
            chk.violation('seal_' + spec['name'], 'a freshly written content file does not end with N + little-endian crc32c of all preceding bytes',
                          dict(shape=spec, content_hex=base.hex()))
            continue
        conf = L.conf_text(spec, load=True)
        snap0 = L.snapshot_tree(root)
        sw = L.Sweep(root, spec, NCPU)
        ex = L.mutants_exhaustive(base)
        by = L.mutants_bytes(base)
        rnd = L.mutants_random(base, rng, 80 if quick else 2000)
        try:
            bnd = F.boundary_mutants(base, quick)
            nfields = len(F.string_fields(base))
        except Exception as e:      # the independent decoder does not follow this file: say so, do not hide it
            bnd, nfields = [], 0
            chk.notes.append('string-field walk failed on shape %s: %r' % (spec['name'], e))
        try:
            intm = F.int_field_mutants(base)
            nints = len(F.int_fields(base))
        except Exception as e:
            intm, nints = [], 0
            chk.notes.append('integer-field walk failed on shape %s: %r' % (spec['name'], e))
        off = rng.randrange(1 << 30)

        def sample(ms, k):
            return ms if k <= 1 else ms[off % k::k]
        light = bool(spec.get('light')) and quick
        big = quick and len(base) > 1000
        ro = list(spec.get('run_opts') or [])
        prim = spec.get('primary_cmd', 'status')
        exq = sample(ex, 24) if big else ex          # a 4 KB file has 38 000 single-bit/truncation mutants: thorough tier only
        try:
            feats = sorted(F.features(base))
        except Exception as e:
            feats = []
            chk.notes.append('feature walk failed on shape %s: %r' % (spec['name'], e))
        # the valid file must load under the configuration / options the mutants are run with (else the sweep is vacuous)
        with open(os.path.join(root, 'w0', 'content'), 'wb') as f:
            f.write(base)
        rc0, out0 = L.run_tool(tool, ['-c', './w0/conf'] + ro + [prim], root, L.tool_env())
        if rc0 not in ((0, 2) if prim == 'diff' else (0,)):
            chk.violation('vacuous_' + spec['name'], 'the VALID content file of shape %s is not loaded by `%s` under the sweep configuration (rc=%r): %s' % (
                spec['name'], prim, rc0, out0[-300:].decode(errors='replace')), dict(shape=spec, content_hex=base.hex()), no_input=True)
            continue
        if spec.get('load_names') and b'Renaming disk' in out0:
            stats['renamed_disk_found_by_uuid'] = stats.get('renamed_disk_found_by_uuid', 0) + 1
        plan = []     # (binary, sanitize, cmd, mode, mutants, tag)
        plan.append((tool, False, ro + [prim], 'conf', exq, prim))
        # structure-aware multi-byte damage: every packed-integer field (indexes, positions, run counts, sizes, times, flags, ...) set to
        # 0, 1, 0x7FFFFFFF, 0xFFFFFFFE, 0xFFFFFFFF, 2^32(+1) in five bytes, 64-bit maxima; spliced and overwritten in place.  Complete
        # in the quick tier on the files that hold a file in several block runs / holes, a quarter of the fields elsewhere.
        if not quick:
            intq = intm
        elif 'file_in_several_block_runs' in feats or spec['name'] == 'v3_3d_2p_split':
            # quick: the shapes with a file in several block runs / with holes; 0xFFFFFFFF always (spliced and overwritten), a third of
            # the other boundary values chosen by the seed
            labels = sorted({m[2].split('): ')[1].rsplit(', ', 1)[0] for m in intm})
            keep = {l for i, l in enumerate(labels) if l.startswith('0xFFFFFFFF') or (i + off) % 3 == 0}
            intq = [m for m in intm if m[2].split('): ')[1].rsplit(', ', 1)[0] in keep]
        else:
            intq = []
        plan.append((asan, True, ro + [prim], 'conf', intq, 'asan_intfield_' + prim))
        if not quick:
            plan.append((asan, True, None, 'noconf', intm, 'asan_intfield_noconf'))
            plan.append((asan, True, ro + ['sync'], 'conf', intm, 'asan_intfield_sync'))
        # boundary-aimed: string length prefixes around the buffer capacities (UUID_MAX, PATH_MAX), 2^31, 2^32-1, over-long varints
        plan.append((asan, True, ro + [prim], 'conf', sample(bnd, 6) if big else bnd, 'asan_strlen_' + prim))
        plan.append((asan, True, None, 'noconf', sample(bnd, 12 if big else 4) if quick else bnd, 'asan_strlen_noconf'))
        for xc in spec.get('extra_cmds') or []:
            plan.append((tool, False, ro + xc, 'conf', sample(exq, 8) if quick else ex, '_'.join(xc)))
        others = [c for c in ('status', 'diff', 'check', 'sync', 'list') if c != prim and not (spec.get('load_names') and c in ('status', 'list'))]
        if not quick:
            plan.append((tool, False, ro + ['list'], 'conf', bnd, 'strlen_list'))
        if light:
            plan.append((asan, True, ro + [prim], 'conf', sample(exq, 10), 'asan_' + prim))
            plan.append((asan, True, None, 'noconf', sample(exq, 10), 'asan_noconf'))
            for cmd in others:
                plan.append((tool, False, ro + [cmd], 'conf', sample(exq, 32), cmd))
            plan.append((tool, False, ro + [prim], 'conf', sample(by, 48 if big else 8), 'bytes_' + prim))
            plan.append((tool, False, ro + [prim], 'conf', rnd[:60], 'random_' + prim))
        elif quick:
            plan.append((asan, True, ['status'], 'conf', ex if si == 0 else sample(ex, 10), 'asan_status'))
            plan.append((asan, True, None, 'noconf', sample(ex, 10), 'asan_noconf'))
            for cmd in ('diff', 'check', 'sync', 'list'):
                plan.append((tool, False, [cmd], 'conf', sample(ex, 24), cmd))
            plan.append((tool, False, ['status'], 'conf', sample(by, 6), 'bytes_status'))
            plan.append((asan, True, None, 'noconf', sample(by, 12), 'asan_bytes_noconf'))
            plan.append((asan, True, ['status'], 'conf', sample(by, 12), 'asan_bytes_status'))
            plan.append((tool, False, ['status'], 'conf', rnd, 'random_status'))
            plan.append((asan, True, ['list'], 'conf', rnd[:50], 'asan_random_list'))
        else:
            plan.append((asan, True, ro + [prim], 'conf', ex, 'asan_' + prim))
            plan.append((asan, True, None, 'noconf', ex, 'asan_noconf'))
            plan.append((asan, True, ro + ['sync'], 'conf', ex, 'asan_sync'))
            for cmd in others:
                plan.append((tool, False, ro + [cmd], 'conf', ex, cmd))
            plan.append((tool, False, ro + [prim], 'conf', by, 'bytes_' + prim))
            plan.append((asan, True, None, 'noconf', by, 'asan_bytes_noconf'))
            plan.append((asan, True, ro + [prim], 'conf', by, 'asan_bytes_' + prim))
            plan.append((tool, False, ro + ['sync'], 'conf', sample(by, 2), 'bytes_sync'))
            plan.append((tool, False, ro + [prim], 'conf', rnd, 'random_' + prim))
            plan.append((asan, True, ro + ['diff' if spec.get('load_names') else 'list'], 'conf', rnd, 'asan_random_list'))
            plan.append((asan, True, None, 'noconf', rnd, 'asan_random_noconf'))
        shape_runs = 0
        t0 = time.time()
        for binary, san, cmd, mode, ms, tag in plan:
            bad, n, cl = sw.run(binary, base, ms, cmd, sanitize=san, mode=mode, timeout=2 if ('intfield' in tag and quick) else 10 if 'intfield' in tag else 60)
            total_runs += n
            shape_runs += n
            merge(classes, cl)
            report_bad(chk, counter, tag, spec, conf, base, bad, cmd, mode, san)
        distinct += len(ex) + len(by) + len(rnd) + len(bnd) + len(intm)
        # model <-> C on the loader: `snapraid -C` and the extracted CodecModel.decode (no configuration) on the valid file and on
        # every mutant: accept/reject must agree (else MODEL-DRIFT); the reject kind (end of file / other) is compared and counted
        allm = (sample(exq, 8) if light else sample(exq, 4) if quick else exq) + (sample(by, 24 if big else 6) if quick else by) + rnd + (sample(bnd, 6 if big else 2) if quick else bnd) + ([m for m in sample(intq, 4) if ': 0xFFFFFFF' not in m[2]] if quick else intm)
        bad, n, cl, per = sw.run(tool, base, allm, None, mode='noconf', want=True)
        total_runs += n
        shape_runs += n
        merge(classes, cl)
        report_bad(chk, counter, 'noconf', spec, conf, base, bad, None, 'noconf', False)
        mo = run_lines(model_exe, ['decode ' + base.hex()] + ['decode ' + L.apply_mut(base, m).hex() for m in allm])
        md = stats.setdefault('model_decode', dict(cases=0, agree_accept_reject=0, same_reject_kind=0, kind_mismatch={}, valid_files_loaded_by_model=0))
        if mo[0] == 'ok':
            md['valid_files_loaded_by_model'] += 1
        elif counter[0] < MAX_REPORT:
            counter[0] += 1
            chk.violation('model_drift_valid_' + spec['name'], 'MODEL-DRIFT: CodecModel.decode (no configuration) answers %r on the valid content file of shape %s that '
                          '`snapraid -C` loads; the rejection theorems are then about a stale model' % (mo[0], spec['name']),
                          dict(shape=spec, content_hex=base.hex(), model=mo[0]), no_input=True)
        for m, (rc, dc), o in zip(allm, per, mo[1:]):
            md['cases'] += 1
            creal = 'ok' if rc == 0 else ('eof' if (dc in ('eof-in-record', 'no-crc-record', 'eof-in-crc') or (dc == 'not-binary' and m == ('trunc', 0))) else 'bad')
            if (creal == 'ok') == (o == 'ok'):
                md['agree_accept_reject'] += 1
                if creal == o:
                    md['same_reject_kind'] += 1
                else:
                    key = '%s/model:%s' % (dc, o)
                    md['kind_mismatch'][key] = md['kind_mismatch'].get(key, 0) + 1
            elif creal != 'ok' and counter[0] < MAX_REPORT:
                # the real code refuses, the model loads: the property holds on this input, the model is stale
                counter[0] += 1
                chk.violation('model_drift_' + spec['name'], 'MODEL-DRIFT: CodecModel.decode loads a damaged file (%s of shape %s) that `snapraid -C` refuses (%s)' % (
                    L.describe(m), spec['name'], dc), dict(shape=spec, mutant=L.describe(m), content_hex=L.apply_mut(base, m).hex(), model=o, real=dc), no_input=True)
        d = L.snapshot_diff(snap0, L.snapshot_tree(root))
        if d:
            chk.violation('modified_' + spec['name'], 'commands refused for a damaged content file nevertheless modified the array %s: %s' % (spec['name'], '; '.join(d[:4])),
                          dict(shape=spec, conf=conf, diff=d))
        per_shape.append(dict(shape=spec['name'], bytes=len(base), version=base[7:8].decode(), truncations=len(base), single_bits=8 * len(base),
                              byte_substitutions=len(by), random_damage=len(rnd), features=feats, exhaustive_in_this_tier=(exq is ex), string_fields=nfields, integer_fields=nints, integer_field_mutants=len(intm), integer_field_mutants_run=len(intq), string_length_mutants=len(bnd), runs=shape_runs, wall_s=round(time.time() - t0, 1)))
        if si == 1:
            total_runs += two_copies(chk, tool, root, spec, base, sw, sample(ex, 40 if quick else 4), stats, counter)
        if len(chk.cov['samples']) < 8:
            m = ex[len(ex) // 3]
            chk.cov['samples'].append(dict(kind='damaged copy', shape=spec['name'], mutant=L.describe(m), verdict='refused'))
    have = set(x for p in per_shape for x in p.get('features', []))
    missing = [x for x in F.REQUIRED_FEATURES if x not in have]
    if missing:
        chk.notes.append('record kinds / variants present in NO swept content file: %s' % ', '.join(missing))
    stats['damage'] = dict(per_shape=per_shape, refusal_classes=classes, features_covered=sorted(have), features_missing=missing)
    return total_runs, distinct


def two_copies(chk, tool, root, spec, base, sw, ms, stats, counter):
    """two `content` lines: damaged first copy + intact second copy.  The tool may refuse; it must not load the damaged one."""
    env = L.tool_env()
    wd = os.path.join(root, 'w0')
    c1, c2 = os.path.join(wd, 'content'), os.path.join(wd, 'c2', 'content')
    with open(c1, 'wb') as f:
        f.write(base)
    with open(c2, 'wb') as f:
        f.write(base)
    rc, good_list = L.run_tool(tool, ['-c', './w0/conf2', 'list'], root, env)
    n = 1
    res = dict(refused=0, fell_back_to_intact=0, second_damaged_first_loaded=0)
    for m in ms:
        data = L.apply_mut(base, m)
        for cmd in ('status', 'list'):
            with open(c1, 'wb') as f:
                f.write(data)
            with open(c2, 'wb') as f:
                f.write(base)
            rc, out = L.run_tool(tool, ['-c', './w0/conf2', cmd], root, env)
            n += 1
            why = L.judge(rc, out)
            if why is None:
                res['refused'] += 1
                if open(c1, 'rb').read() != data or open(c2, 'rb').read() != base:
                    why = 'a refused command rewrote a content copy'
            elif rc == 0 and cmd == 'list' and out.replace(b'./w0/c2/content', b'./w0/content') == good_list.replace(b'./w0/c2/content', b'./w0/content'):
                res['fell_back_to_intact'] += 1
                why = None
            if why is not None and counter[0] < MAX_REPORT:
                counter[0] += 1
                chk.violation('twocopies_' + spec['name'], 'damaged first content copy (%s) + intact second copy, `snapraid %s`: %s' % (L.describe(m), cmd, why),
                              dict(shape=spec, conf=L.conf_text(spec, ('./content', './c2/content')), mutant=L.describe(m), content_hex=data.hex(),
                                   second_copy_hex=base.hex(), args=['-c', 'conf', cmd], rc=rc, output=out[-1200:].decode(errors='replace')))
        # intact first + damaged second: the first is loaded, the damaged one is not read (only its size is compared)
        with open(c1, 'wb') as f:
            f.write(base)
        with open(c2, 'wb') as f:
            f.write(data)
        rc, out = L.run_tool(tool, ['-c', './w0/conf2', 'list'], root, env)
        n += 1
        if rc == 0 and out == good_list:
            res['second_damaged_first_loaded'] += 1
        elif rc != 0 and L.judge(rc, out) is not None and counter[0] < MAX_REPORT:
            counter[0] += 1
            chk.violation('twocopies2_' + spec['name'], 'intact first content copy + damaged second copy (%s): %s' % (L.describe(m), L.judge(rc, out)),
                          dict(shape=spec, mutant=L.describe(m), rc=rc, output=out[-1200:].decode(errors='replace')))
    os.unlink(c2)
    stats['two_copies'] = dict(cases=len(ms), **res)
    return n


def kill_points(chk, tool, shim, model_exe, work, tier, stats):
    quick = tier == 'quick'
    plan = [(1, False), (2, False), (3, False), (4, False), (2, True)] if quick else [(n, False) for n in range(1, 8)] + [(2, True), (3, True)]
    total = 0
    allstats = []
    reported = 0
    for nc, big in plan:
        root = os.path.join(work, 'kill_%d%s' % (nc, '_big' if big else ''))
        os.makedirs(root)
        sc = K.KillScenario(tool, shim, root, nc, chk.rng, big=big)
        try:
            sc.prepare()
            probs = sc.run_all(quick and (big or nc >= 4), NCPU)
        except L.ArrayError as e:
            chk.violation('kill_setup_%d' % nc, 'kill-point scenario with %d content copies could not be set up: %s' % (nc, str(e)[:300]), dict(error=str(e)))
            continue
        ncat = {}
        for what, rep in probs:
            cat = 'kill' if (isinstance(rep, dict) and 'kill_at' in rep) else 'fault' if (isinstance(rep, dict) and 'fault_at' in rep) else 'protocol'
            if reported < 12 and ncat.get(cat, 0) < 3:
                reported += 1
                ncat[cat] = ncat.get(cat, 0) + 1
                chk.violation('%s_%dcopies' % (cat, nc), what, rep)
        # model <-> C: the extracted SaveModel.save_ops must be the call sequence the binary performed, round by round
        for rnd in sc.rounds:
            got, sizes = K.log_calls(sc.twin_ev, sc.contents, rnd)
            line = 'calls %d %s' % (nc, ' '.join(map(str, sizes)))
            exp = run_lines(model_exe, [line], shards=1)[0].split()
            stats['model_vs_log_rounds'] = stats.get('model_vs_log_rounds', 0) + 1
            stats['model_vs_log_calls'] = stats.get('model_vs_log_calls', 0) + len(got)
            if got != exp and not probs and reported < 8:
                reported += 1
                k = next((i for i in range(min(len(got), len(exp))) if got[i] != exp[i]), min(len(got), len(exp)))
                chk.violation('model_drift_%dcopies' % nc, 'MODEL-DRIFT: the call sequence of the real save (%d calls) differs from SaveModel.save_ops (%d calls) at '
                              'position %d: real %r, model %r; the protocol check itself found nothing wrong, so the theorems are about a stale model' % (
                                  len(got), len(exp), k, got[k:k + 3], exp[k:k + 3]), dict(model_line=line, real=got, model=exp), no_input=True)
        st = dict(sc.stats, copies=nc, big=big)
        allstats.append(st)
        total += st.get('kills', 0) * 4 + 8 + st.get('faults', 0) * 2
        if nc == 2 and not big:
            chk.cov['samples'].append(dict(kind='kill point', copies=2, calls=[('%(n)d %(op)s %(path)s' % e) for e in sc.twin_ev if e['n'] > 0][:30]))
        shutil.rmtree(root, ignore_errors=True)
    # stale / missing / resized NON-first copies on format-3 arrays (a sync with nothing to do does not rewrite the content there)
    v3 = dict(name='v3_split_h8_stale', ndisk=2, npar=1, split=True, hashsize=8, history='plain', rich=True)
    v3b = dict(name='v3_h8_stale', ndisk=2, npar=2, split=False, hashsize=8, history='plain', rich=False)
    for nc, spec in ((2, v3), (3, v3b)) if quick else ((2, v3), (3, v3), (4, v3), (2, v3b), (3, v3b)):
        root = os.path.join(work, 'stale_%d_%s' % (nc, spec['name']))
        os.makedirs(root)
        sc = K.KillScenario(tool, shim, root, nc, chk.rng, spec=spec)
        sc.model_exe = model_exe
        try:
            sc.prepare()
            if sc.final[0][:8] != b'SNAPCNT3':
                chk.notes.append('stale-copy scenario %s is not written in format 3' % spec['name'])
            probs = sc.problems_of_twin_basic() + sc.stale_copy_cases()
        except L.ArrayError as e:
            chk.violation('stale_setup_%d' % nc, 'stale-copy scenario with %d content copies could not be set up: %s' % (nc, str(e)[:300]), dict(error=str(e)))
            continue
        for what, rep in probs[:3]:
            if reported < 14:
                reported += 1
                chk.violation('stalecopy_%dcopies' % nc, what, rep)
        if not probs and getattr(sc, 'drift', None) and reported < 14:
            reported += 1
            dd = sc.drift[0]
            chk.violation('model_drift_needwrite_%d' % nc, 'MODEL-DRIFT: LoadChoice.need_write says %s for copies of sizes `%s` but the tool %s the content (%s of %s, `%s`); '
                          'all copies ended identical, so the property holds on this input and the model is stale' % (
                              dd['model'], dd['model_line'], 'saved' if dd['tool_saved'] else 'did not save', dd['how'], dd['damaged_copy'], ' '.join(dd['cmd'])), dd, no_input=True)
        st = dict(sc.stats.get('stale_copy', {}), copies=nc, shape=spec['name'])
        allstats.append(st)
        total += st.get('cases', 0) * 2
        for what, rep in getattr(sc, 'known_same_size', [])[:2]:
            # open known finding: suppressed only for this exact witness class; anything else above stays a plain violation
            chk.violation('samesize_%dcopies' % nc, what, rep, finding_key='F-C09-same-size-stale-copy-unnoticed')
        stats['known_finding_same_size_cases'] = stats.get('known_finding_same_size_cases', 0) + st.get('same_size_damage_survives', 0)
        shutil.rmtree(root, ignore_errors=True)
    stats['kill'] = allstats
    return total, sum(s.get('kills', 0) for s in allstats)


def replay_file(path, tool, asan, work):
    o = json.load(open(path))
    r = o.get('replay', o)
    if 'content_hex' not in r or 'conf' not in r:
        print('replay: nothing executable in', path)
        return 1
    d = os.path.join(work, 'replay')
    materialise(d, r['conf'].replace('./w0/', './'), bytes.fromhex(r['content_hex']))
    if 'second_copy_hex' in r:
        os.makedirs(os.path.join(d, 'c2'), exist_ok=True)
        open(os.path.join(d, 'c2', 'content'), 'wb').write(bytes.fromhex(r['second_copy_hex']))
    binary, san = (asan, True) if r.get('sanitize') else (tool, False)
    rc, out = L.run_tool(binary, r['args'], d, L.tool_env(sanitize=san), flags=not r.get('noflags'))
    why = L.judge(rc, out)
    print('replay %s: snapraid %s -> rc=%r; %s' % (path, ' '.join(r['args']), rc, why or 'refused cleanly'))
    print(out[-800:].decode(errors='replace'))
    return 1 if why else 0


def main(tier, replay=None):
    chk = Check('C09', tier, 'proof')
    snap = snapshot_repo()
    regen(snap)
    try:
        tool = build_tool(snap)
        asan = build_tool(snap, sanitize=True, name='snapraid_asan')
    except BuildError as e:
        chk.violation('build', 'working tree does not build: ' + str(e)[:500], {'error': str(e)}, no_input=True)
        return chk.finish()
    shim = os.path.join(snap, 'c09_shim.so')
    r = run(['gcc', '-shared', '-fPIC', '-O1', '-o', shim, os.path.join(VERIF, 'harness', 'c', 'c09_shim.c'), '-ldl', '-lpthread'])
    if r.returncode != 0:
        raise RuntimeError('shim build failed: ' + r.stdout)
    work = mkscratch('snapverif.c09.')
    if replay:
        return replay_file(replay, tool, asan, work)

    ob = check_obligations('C09')
    proof_coverage(chk, ob, 'make -f Makefile.coq -k Props/Properties_C09.vo Props/Properties_C09_codec.vo (coqc 8.16.1, full .vo) + Print Assumptions',
                   ['Coq 8.16.1 kernel incl. vm_compute (32x32 GF(2) matrix inverse certificate of the CRC burst theorem, Examples)',
                    'abstract file system of SaveModel.v: finite map path -> bytes; rename atomic; a completed call persists across process death; '
                    'a torn write leaves a prefix of the intended bytes, in the file being written only (section-free: these are the definitions of the model)',
                    'hand model of state_write / state_write_content / state_verify_content / state_rename_content (state.c) as an operation list, tied to the '
                    'real binary by the system-call log of harness/c/c09_shim.c (order check + kill at every numbered call)',
                    'bit-serial CRC-32C of Crc/CrcModel.v (its equality with the table / slicing code of util.c is C16\'s obligation)',
                    'harness/c/c09_shim.c (LD_PRELOAD: open/write/fsync/rename/unlink/remove/close numbering, kill, short write, write faults (bit flip, silent truncation, ENOSPC, EIO), frozen time() and statfs())',
                    'harness/py/content.py (independent decoder) through c09_fields.py to locate the string fields for the length-boundary mutants',
                    'gcc AddressSanitizer + UndefinedBehaviorSanitizer for the memory-safety part, which is TESTED, not proved',
                    'independent oracles: byte/mtime snapshots of the array, Python CRC-32C (bitwise definition), old/new byte comparison after kills'])
    try:
        model_exe = build_model('Extract/Extract_C09.vo', 'ocaml/C09', 'c09_ext', 'driver.ml', 'model')
    except BuildError as e:
        chk.violation('model_build', 'extracted model does not build: ' + str(e)[-600:], {'error': str(e)}, no_input=True)
        return chk.finish()
    stats = {}
    t = time.time()
    n_corpus = corpus_cases(chk, tool, asan, work, stats)
    stats['t_corpus'] = round(time.time() - t, 1)
    t = time.time()
    n_dmg, distinct = damaged_sweeps(chk, tool, asan, model_exe, work, tier, stats)
    stats['t_damage'] = round(time.time() - t, 1)
    t = time.time()
    n_kill, kills = kill_points(chk, tool, shim, model_exe, work, tier, stats)
    stats['t_kill'] = round(time.time() - t, 1)

    if ob['failed'] and not chk.violations:
        # failing-input search = the sweeps above (every single-window alteration and truncation of every shape on the real code,
        # every kill point): nothing failed on the real code, so the broken obligation is reported without input
        f = ob['failed'][0]
        chk.violation('obligation', 'obligation of C09 no longer checks (%s): %s; the damaged-copy sweep (%d runs) and the kill-point search (%d kills) '
                      'found no concrete failing input' % (f['where'], f['error'][:300], n_dmg, kills), dict(failed=ob['failed'], log_tail=ob['log'][-1500:]), no_input=True)

    chk.cov['evaluations'] = n_corpus + n_dmg + n_kill
    chk.cov['distinct_nontrivial'] = distinct + kills
    chk.cov['rule'] = ('a damaged-copy case counts when the bytes differ from the valid file and the real binary was run on them (all of them do: identity '
                       'mutants are dropped by construction); a kill case counts when the process really died by SIGKILL at the chosen call')
    chk.cov['input_distribution'] = stats
    chk.cov['level_note'] = ('PROVED (Coq): save_atomic for any number of copies over the abstract file system (Properties_C09.v); 32-bit burst detection of '
                             'CRC-32C on byte strings, windows over the crc bytes included; alteration AND truncation rejection for Codec.CodecModel.decode itself, unconditionally '
                             '(Properties_C09_codec.v); `conditional_theorems` lists the generic skeleton versions, which are superseded by those.  '
                             'TESTED ONLY: memory safety of the C loader (ASan+UBSan build on every truncation / single-bit / byte-substitution / random damage listed '
                             'in input_distribution); the tie of the models to the C: system-call order + kill points for the save model, accept/reject class of '
                             '`snapraid -C` against the extracted CodecModel.decode on every mutant for the loader model.')
    chk.cov['conditional_theorems'] = CONDITIONAL
    chk.cov['regression_families'] = ('integer-field family (c09_fields.int_field_mutants): every packed-integer field of every swept file set to 0, 1, 0x7FFFFFFF, '
                                      '0xFFFFFFFE, 0xFFFFFFFF, 2^32(+1), 64-bit maxima, spliced and overwritten, under ASan+UBSan.  It is the regression of the repaired '
                                      'finding F-C09-wrapped-run-count-long-loop (status fixed: a time-out or "Failed for Low Memory" on a wrapped count is a plain '
                                      'VIOLATION; observed on this run: %d) and of the seeded change C09e_1' % chk.cov.get('known_finding_wrapped_count_cases', 0))
    chk.assumptions = ['exercised by oracle only (no model-vs-C comparison of these loader branches; the rejection theorems hold for every configuration k of '
                       'CodecModel.decode, the extracted model is run without configuration): disk found by uuid after a rename (--test-fake-uuid), REP/BLK '
                       'rewrites under sync -N / -R, the deprecated m / n records under a configuration',
                       'a system call that fails (ENOSPC / EIO on open, write, fsync, close, rename, unlink of a copy) is, in SaveModel, a crash point: the '
                       'command exits and the file system stays what the completed calls made it (save_atomic covers every prefix)',
                       'UUID_MAX = 128 and PATH_MAX = 4096 are the string buffer capacities of state_read_content (the length-boundary mutants aim at them; '
                       'CodecModel states the same constants)',
                       'rename(2) is atomic and a completed system call survives the death of the process (process kill, not power loss: fsync ordering on a real '
                       'disk is outside this check)',
                       'a torn write leaves a prefix of the intended bytes',
                       'the frozen clock/statfs of the shim make old/new reproducible; verified on every run by a second un-killed twin']
    return chk.finish()


if __name__ == '__main__':
    sys.exit(main(sys.argv[1] if len(sys.argv) > 1 else 'quick'))
